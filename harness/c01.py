"""C01 — correspondence of the wavefunction-state model (QV.Model.States.Wave) with
PositiveWaveFunction / ComplexWaveFunction, plus the property oracles evaluated on the implementation."""
import itertools

import numpy as np

from . import argforms_a as af
from . import callshape as cs
from . import qc
from .common import bits, unbits
from .qc import torch

FILES = [
    "qucumber/nn_states/wavefunction.py",
    "qucumber/nn_states/positive_wavefunction.py",
    "qucumber/nn_states/complex_wavefunction.py",
    "qucumber/nn_states/neural_state.py",
    "qucumber/rbm/binary_rbm.py",
]
THEOREMS = {
    "psi": "C01_normSq_psi_positive / C01_normSq_psi_complex, C01_psi_polar",
    "probability": "C01_hidden_marginal",
    "normalization": "C01_normalization",
    "phase": "C01_phase",
    "amplitude": "C01_amplitude_eq",
}
REQUIRED_THEOREMS = ['C01_hidden_marginal', 'C01_normSq_psi_positive', 'C01_normSq_psi_complex', 'C01_normalization', 'C01_unit_norm', 'C01_modulus_indep_phase_net', 'C01_phase', 'C01_psi_polar', 'C01_positive_real_pos',
                     'C01_call_forms', 'C01_vector_form_is_row', 'C01_psiPos_polar']   # extension round 2: call forms inside the model
RULE = ("case = (state kind, n, h, parameter scale, parameters); generated with every weight/bias = scale*N(0,1) "
        "(scale in {0,0.1,1,3,10,30}, plus a tiny-rows regime - visible biases in -25..-110 at unit couplings, so that the rows of one state span 50..300 orders of magnitude inside the exp domain -, plus overflow probes at scale 100 / 300 that are compared in the LOG domain); all 2^n basis states evaluated in the "
        "batched form (every exp-domain value compared ROW-WISE RELATIVELY / in the log domain in every regime), in the vector form (every row) and in a rank-3 batch-of-batches form; "
        "argument forms (round 5): the constructor sizes num_visible / num_hidden (state and BinaryRBM constructors), `gpu`, the `size` of "
        "generate_hilbert_space and the normalisation `Z` handed to probability are drawn per case from a seeded stream (`aseed`: Python int, "
        "numpy integer scalars, 0-d numpy / torch integers; bool singleton, 0/1, numpy bools, 0-d bool arrays / tensors; keyword and positional); "
        "CALL FORMS (extension round 2): per run ~24 cases (state kind, n, h, scale in {0.1,1,3}, random 0/1 rows) in the forms vector (n,), batch (B,n) with B in 1..3 "
        "(incl. B = 1: a batch that must keep its axis) and rank-3 (B1,B2,n): effective_energy / amplitude / phase / psi / probability of the REAL state against the model of "
        "auto_unsqueeze_args (accepted-or-refused, exact result shape, entries; vector and batch forms at property level, rank-3 recorded only (ctx.info: outside the quantifier)); "
        "each case is evaluated, then re-parametrised IN PLACE and evaluated again on the same state object and the same space tensors (history); non-trivial iff some visible bias != 0 and some hidden bias != 0 and (h != n or scale >= 1); distinct by hash of the case")


def brute_marginal(p, v):
    """Σ_h exp(b·v + Σ_i h_i (c_i + W_i·v)) by explicit enumeration (independent of model and code)"""
    W = np.asarray(p["W"], dtype=np.float64).reshape(len(p["c"]), len(p["b"]))
    b = np.asarray(p["b"])
    c = np.asarray(p["c"])
    v = np.asarray(v, dtype=np.float64)
    pre = W @ v + c
    tot = 0.0
    for hcfg in itertools.product([0.0, 1.0], repeat=len(c)):
        tot += np.exp(b @ v + np.dot(hcfg, pre))
    return tot


def log_marginal(p, v):
    """log Σ_h exp(b·v + Σ_i h_i (c_i + W_i·v)) by explicit enumeration with a stable log-sum-exp (independent of model and code)"""
    W = np.asarray(p["W"], dtype=np.float64).reshape(len(p["c"]), len(p["b"]))
    b = np.asarray(p["b"]); c = np.asarray(p["c"]); v = np.asarray(v, dtype=np.float64)
    pre = W @ v + c
    terms = np.array([b @ v + np.dot(hcfg, pre) for hcfg in itertools.product([0.0, 1.0], repeat=len(c))])
    m = terms.max()
    return float(m + np.log(np.exp(terms - m).sum()))


def one_case(ctx, *args, **kw):
    """one case; integer options handed over as objects outside every quantifier (np.uint8, 0-d arrays / tensors) and REFUSED by the
    implementation are informational (argforms_a.tolerant, second audit X-1)"""
    af.tolerant(ctx, _one_case, ctx, *args, **kw)


def _one_case(ctx, kind, n, h, scale, am, ph, tag=None, am2=None, ph2=None, aseed=None):
    """evaluate at (am, ph); then, on the SAME state object and the SAME space tensors, overwrite the parameters with
    (am2, ph2) and evaluate again (history: results must follow the current parameters, not earlier calls).
    `aseed`: seed of the case's argument-form stream (harness/argforms_a.py); None = plain Python ints / bools by keyword (cases stored before round 5)"""
    A = af.Args(aseed)
    base = {"kind": kind, "n": n, "h": h, "scale": scale, "am": am, "ph": ph}
    if aseed is not None:
        base["aseed"] = aseed
    ctx.current_case = base
    st = af.make_positive(A, n, h, am) if kind == "pos" else af.make_complex(A, n, h, am, ph)
    if not af.check_sizes(ctx, st, (n, h), base, A, f"{kind}/ctor-sizes", "C01_hidden_marginal / C01_normalization (stated for the architecture n x h the caller asked for)"):
        return
    rows = qc.all_states(n)
    space_t = torch.tensor(rows, dtype=torch.double)
    if aseed is None:
        gen_space = st.generate_hilbert_space()
    else:
        # the `size` argument in the case's form, by keyword or positionally (size = n: the space the normalisation is summed over), and one
        # other size m (the enumeration of "all 2^m basis states" must not depend on the object that denotes m; 0 means "default": n)
        gen_space = st.generate_hilbert_space(A.i(n)) if A.coin(0.5) else st.generate_hilbert_space(size=A.i(n))
        m = A.choice([x for x in range(0, 7) if x != n])
        (mo, md) = A.i_desc(m)
        sp_m = st.generate_hilbert_space(mo) if A.coin(0.5) else st.generate_hilbert_space(size=mo)
        want = qc.all_states(m if m else n)
        # C01 needs "all 2^size basis states, each exactly once" (the normalisation sums over them); their ORDER and element type are
        # C19's business: compared as a multiset of rows here, order / dtype counted
        got_rows = [[float(x) for x in r] for r in sp_m.tolist()] if sp_m.dim() == 2 else None
        want_rows = [[float(x) for x in r] for r in want]
        ctx.count("hilbert space: " + ("counting order" if got_rows == want_rows else "other order") + f", dtype {sp_m.dtype}")
        ctx.oracle("generate_hilbert_space(size) == all 2^size basis states, each exactly once", bool(got_rows is not None and sorted(got_rows) == sorted(want_rows)),
                   base, detail={"size": md, "shape": list(sp_m.shape)}, sig=f"{kind}/hilbert-space-size",
                   theorem="C01_normalization (the sum is over the whole basis: QV.Model.Hilbert.allStates)")
    A.count_into(ctx)
    _eval(ctx, st, rows, space_t, gen_space, kind, n, h, scale, am, ph, None, aseed, A)
    if am2 is not None:
        qc.set_rbm(st.rbm_am, am2)
        if kind == "cplx":
            qc.set_rbm(st.rbm_ph, ph2)
        ctx.count("history:reparametrised-same-objects")
        _eval(ctx, st, rows, space_t, gen_space, kind, n, h, scale, am2, ph2, {"am": am, "ph": ph}, aseed, A)


def _log_domain(ctx, case, kind, h, am, rows, E, amp, psi, p1, Z, model, big):
    """ROW-WISE RELATIVE comparisons (log domain), in every regime (second audit C01-1: comparisons that are absolute w.r.t. max p leave
    every row many orders of magnitude below the maximum unchecked - at scale 3 / 10 / 30 that is most of them).
    `big` (some |E| > 600): rows whose float value over-/underflowed are left out; otherwise EVERY row must be a normal positive double."""
    mget = (lambda k: unbits([r[k] for r in model["rows"]])) if model is not None else None  # noqa: E731
    with np.errstate(all="ignore"):
        # TINY: results in the subnormal range (below ~2.2e-308) carry fewer than 53 significant bits (4.9e-324 has ONE), so their
        # logarithm is not -E to 1e-9; the log-domain comparisons are made on the rows whose value is a NORMAL double
        TINY = 1e-290
        fin = np.isfinite(p1) & (p1 > TINY) & np.isfinite(amp) & (amp > 0)
        modsq = psi[0] ** 2 + psi[1] ** 2
        fin2 = fin & np.isfinite(modsq) & (modsq > TINY)
        if big:
            ctx.count("overflow_regime:" + ("all_rows_finite" if fin.all() else "some_rows_inf_or_0"))
        else:
            # |E| <= 600 on every row: exp(-E) is a normal double (>= 1e-261), so is its square root and |psi|^2
            ctx.oracle("every probability / amplitude / |psi|^2 is a positive normal double where |E| <= 600 (no flush to 0, no overflow)",
                       bool(fin.all() and fin2.all()), case, detail={"probability": p1.tolist(), "amplitude": amp.tolist(), "modsq": modsq.tolist(), "E": E.tolist()},
                       sig=f"{kind}/log/positive", theorem="C01_hidden_marginal (the marginal is a sum of exponentials: > 0)")
        ltol = lambda x: 1e-9 * (1.0 + abs(x))  # noqa: E731
        ctx.oracle("no NaN" + (" beyond the exp domain" if big else ""), not (np.isnan(amp).any() or np.isnan(p1).any() or np.isnan(psi).any() or np.isnan(Z)), case,
                   sig=f"{kind}/log/nan", theorem="C01_positive_real_pos / C01_amplitude_eq (values are exp of a finite number: +inf or 0 at worst)")
        ctx.oracle("log probability == -E", bool(np.all(np.abs(np.log(p1[fin]) + E[fin]) <= [ltol(x) for x in E[fin]])), case,
                   sig=f"{kind}/log/probability", theorem="C01_hidden_marginal")
        ctx.oracle("2 log amplitude == log probability", bool(np.all(np.abs(2 * np.log(amp[fin]) - np.log(p1[fin])) <= [ltol(x) for x in E[fin]])), case,
                   sig=f"{kind}/log/amplitude", theorem="C01_amplitude_eq")
        ctx.oracle("log |psi|^2 == log probability", bool(np.all(np.abs(np.log(modsq[fin2]) - np.log(p1[fin2])) <= [ltol(x) for x in E[fin2]])), case,
                   sig=f"{kind}/log/born", theorem="C01_normSq_psi_positive" if kind == "pos" else "C01_normSq_psi_complex")
        if h <= 6:
            lm = np.array([log_marginal(am, v) for v in rows])
            ctx.oracle("-E == log of the hidden marginal (all rows, log domain)", bool(np.all(np.abs(-E - lm) <= [ltol(x) for x in lm])), case,
                       detail={"minusE": (-E).tolist(), "log_marginal": lm.tolist()}, sig=f"{kind}/log/marginal", theorem="C01_hidden_marginal")
            if not big:
                ctx.oracle("log probability == log of the hidden marginal (every row, relative)", bool(fin.all() and np.all(np.abs(np.log(p1) - lm) <= [ltol(x) for x in lm])), case,
                           detail={"log_p": np.log(p1).tolist(), "log_marginal": lm.tolist()}, sig=f"{kind}/log/marginal-p", theorem="C01_hidden_marginal")
        if np.isfinite(Z) and Z > 0:
            m_ = float(np.max(-E))
            ctx.oracle("log Z == logsumexp(-E)", abs(np.log(Z) - (m_ + np.log(np.exp(-E - m_).sum()))) <= ltol(m_), case,
                       sig=f"{kind}/log/normalization", theorem="C01_normalization")
        if kind == "pos" and big:
            ctx.oracle("positive real nonneg (overflow regime)", bool(np.all(psi[1] == 0) and np.all(psi[0] >= 0)), case, sig="pos/real-nonneg", theorem="C01_positive_real_pos")
        if model is not None:
            mamp, mp1 = mget("amplitude"), mget("prob1")
            mfin = fin & np.isfinite(mp1) & (mp1 > TINY) & np.isfinite(mamp) & (mamp > 0)
            sc = float(np.max(np.abs(E))) + 1
            kw = {"scale": sc, "rtol": 1e-9, "atol": 1e-9}
            ctx.point("log amplitude", "property", np.log(amp[mfin]), np.log(mamp[mfin]), case, theorem=THEOREMS["amplitude"], sig=f"{kind}/log/amplitude-model", **kw)
            ctx.point("log probability", "property", np.log(p1[mfin]), np.log(mp1[mfin]), case, theorem=THEOREMS["probability"], sig=f"{kind}/log/probability-model", **kw)
            mm = mget("psi_re") ** 2 + mget("psi_im") ** 2
            mfin2 = fin2 & np.isfinite(mm) & (mm > TINY)
            ctx.point("log |psi|^2", "property", np.log(modsq[mfin2]), np.log(mm[mfin2]), case, theorem=THEOREMS["psi"], sig=f"{kind}/log/psi-model", **kw)
            ctx.point("psi direction", "property", np.r_[psi[0][mfin2], psi[1][mfin2]] / np.sqrt(np.r_[modsq[mfin2], modsq[mfin2]]),
                      np.r_[mget("psi_re")[mfin2], mget("psi_im")[mfin2]] / np.sqrt(np.r_[mm[mfin2], mm[mfin2]]), case, scale=1.0,
                      theorem="C01_psi_polar", sig=f"{kind}/log/psi-direction")
            mZ = float(unbits([model["Z"]])[0])
            if np.isfinite(Z) and Z > 0 and np.isfinite(mZ) and mZ > 0:
                ctx.point("log normalization", "property", [np.log(Z)], [np.log(mZ)], case, theorem=THEOREMS["normalization"], sig=f"{kind}/log/normalization-model", **kw)


def _eval(ctx, st, rows, space_t, gen_space, kind, n, h, scale, am, ph, before, aseed=None, A=None):
    case = {"kind": kind, "n": n, "h": h, "scale": scale, "am": am, "ph": ph}
    if before is not None:
        case = {"kind": kind, "n": n, "h": h, "scale": scale, "am": before["am"], "ph": before["ph"], "am2": am, "ph2": ph}
    if aseed is not None:
        case["aseed"] = aseed
    ctx.current_case = case
    # ---------------- implementation values
    E = st.rbm_am.effective_energy(space_t).numpy().copy()
    big = float(np.max(np.abs(E))) > 600.0
    phase = st.phase(space_t).numpy().copy()
    if kind == "cplx":
        Eph = st.rbm_ph.effective_energy(space_t).numpy().copy()
    nontriv = any(x != 0 for x in am["b"]) and any(x != 0 for x in am["c"]) and (h != n or scale >= 1)
    ctx.case({"kind": kind, "n": n, "h": h, "am": am, "ph": ph}, nontrivial=nontriv,
             sample={"kind": kind, "n": n, "h": h, "scale": scale, "am_b": am["b"], "am_c": am["c"], "rows": len(rows)})
    ctx.count(f"kind={kind}"); ctx.count(f"n={n}"); ctx.count(f"h={h}"); ctx.count(f"scale={scale}")
    ctx.count("overflow_regime" if big else "exp_domain")

    model = None
    if ctx.driver is not None:
        req = {"kind": kind, "n": n, "h": h, "am": qc.pbits(am), "rows": bits(rows)}
        if kind == "cplx":
            req["ph"] = qc.pbits(ph)
        model = ctx.driver.call("c01.eval", **req)
        mrows = model["rows"]
        mget = lambda k: unbits([r[k] for r in mrows])  # noqa: E731
        ctx.point("energy", "aux", E, mget("energy"), case, scale=np.max(np.abs(E)) + 1)
        ctx.point("phase", "property", phase, mget("phase"), case, scale=np.max(np.abs(phase)) + 1,
                  theorem=THEOREMS["phase"], sig=f"{kind}/phase")
    # oracle: phase = -E_mu/2 (complex), 0 (positive)
    if kind == "cplx":
        ctx.oracle("phase==-E_ph/2", bool(np.allclose(phase, -Eph / 2, rtol=1e-12, atol=1e-12)), case, sig=f"{kind}/phase-oracle", theorem="C01_phase")
    else:
        ctx.oracle("phase==0", bool(np.all(phase == 0)), case, sig="pos/phase-oracle")
    if big:
        # beyond the exp domain (some |E| > 600): everything is compared in the LOG domain, on the rows where the float value is finite and non-zero
        with np.errstate(all="ignore"):
            amp = st.amplitude(space_t).numpy().copy()
            psi = st.psi(space_t).numpy().copy()
            p1 = st.probability(space_t, 1.0).numpy().copy()
            Z = float(st.normalization(gen_space))
            _log_domain(ctx, case, kind, h, am, rows, E, amp, psi, p1, Z, model, True)
        return
    amp = st.amplitude(space_t).numpy().copy()
    psi = st.psi(space_t).numpy().copy()
    Zt = st.normalization(gen_space)
    Z = float(Zt)
    if A is None or A.aseed is None:
        p1 = st.probability(space_t, 1.0).numpy().copy()
        pZ = st.probability(space_t, Z).numpy().copy()
    else:
        # the normalisation handed to probability as the objects callers have in hand: the 0-d tensor normalization() returned, a Python
        # float, a numpy float; Z = 1 as float / int / default; keyword or positional
        one = A.choice(["default", 1.0, 1, np.float64(1.0), torch.tensor(1.0, dtype=torch.double)])
        zform = A.choice(["tensor", "float", "np.float64"])
        Zo = {"tensor": Zt, "float": Z, "np.float64": np.float64(Z)}[zform]
        ctx.count(f"argform/Z given as {zform}"); ctx.count(f"argform/Z=1 given as {type(one).__name__ if not isinstance(one, str) else one}")
        p1 = (st.probability(space_t) if isinstance(one, str) else st.probability(space_t, Z=one) if A.coin(0.5) else st.probability(space_t, one)).numpy().copy()
        pZ = (st.probability(space_t, Z=Zo) if A.coin(0.5) else st.probability(space_t, Zo)).numpy().copy()
    if model is not None:
        sc = float(np.max(p1))
        ctx.point("amplitude", "property", amp, mget("amplitude"), case, scale=np.sqrt(sc), theorem=THEOREMS["amplitude"], sig=f"{kind}/amplitude")
        ctx.point("psi_re", "property", psi[0], mget("psi_re"), case, scale=np.sqrt(sc), theorem=THEOREMS["psi"], sig=f"{kind}/psi")
        ctx.point("psi_im", "property", psi[1], mget("psi_im"), case, scale=np.sqrt(sc), theorem=THEOREMS["psi"], sig=f"{kind}/psi")
        ctx.point("probability", "property", p1, mget("prob1"), case, scale=sc, theorem=THEOREMS["probability"], sig=f"{kind}/probability")
        ctx.point("normalization", "property", [Z], unbits([model["Z"]]), case, scale=sc, theorem=THEOREMS["normalization"], sig=f"{kind}/normalization")
        ctx.point("probabilityZ", "property", pZ, mget("probZ"), case, scale=1.0, theorem=THEOREMS["probability"], sig=f"{kind}/probabilityZ")
        # p / Z row-wise relative (the point above is absolute on the scale 1)
    ctx.oracle("probability(v, Z) == probability(v, 1) / Z (every row, relative)", bool(np.all(np.abs(pZ * Z - p1)[p1 / Z > 1e-290] <= 1e-9 * np.abs(p1)[p1 / Z > 1e-290])), case,   # (rows whose quotient is a normal double)
               detail={"pZ": pZ.tolist(), "p1": p1.tolist(), "Z": Z}, sig=f"{kind}/probabilityZ-rel", theorem="C01_unit_norm")
    _log_domain(ctx, case, kind, h, am, rows, E, amp, psi, p1, Z, model, False)
    # ---------------- property oracles on the implementation (exp domain; every row compared RELATIVELY to its own magnitude)
    sc = float(np.max(p1))
    tol = lambda x: 1e-7 * abs(x) + 1e-300  # noqa: E731
    modsq = psi[0] ** 2 + psi[1] ** 2
    ctx.oracle("|psi|^2==probability", bool(np.all(np.abs(modsq - p1) <= [tol(x) for x in p1])), case,
               detail={"modsq": modsq.tolist(), "p": p1.tolist()}, sig=f"{kind}/born", theorem="C01_normSq_psi_positive" if kind == "pos" else "C01_normSq_psi_complex")
    ctx.oracle("Z==sum p", abs(Z - p1.sum()) <= 1e-9 * sc * len(rows) + tol(Z) * len(rows), case, detail={"Z": Z, "sum": float(p1.sum())},
               sig=f"{kind}/norm-sum", theorem="C01_normalization")
    ctx.oracle("sum p/Z==1", abs(pZ.sum() - 1) <= 1e-7, case, detail={"sum": float(pZ.sum())}, sig=f"{kind}/unit", theorem="C01_unit_norm")
    if h <= 6:
        bm = np.array([brute_marginal(am, v) for v in rows])
        ctx.oracle("probability==hidden marginal", bool(np.all(np.abs(bm - p1) <= [tol(x) for x in p1])), case,
                   detail={"marginal": bm.tolist(), "p": p1.tolist()}, sig=f"{kind}/marginal", theorem="C01_hidden_marginal")
    if kind == "pos":
        ctx.oracle("positive real nonneg", bool(np.all(psi[1] == 0) and np.all(psi[0] >= 0)), case, sig="pos/real-nonneg", theorem="C01_positive_real_pos")
    else:
        # modulus independent of the phase network: randomise the phase net, amplitude/|psi| unchanged
        ph2 = qc.rand_rbm_params(ctx.rng, n, h, 1.0)
        qc.set_rbm(st.rbm_ph, ph2)
        psi2 = st.psi(space_t).numpy()
        m2 = psi2[0] ** 2 + psi2[1] ** 2
        ctx.oracle("modulus indep of phase net", bool(np.all(np.abs(m2 - modsq) <= [tol(x) for x in p1])), case,
                   sig="cplx/modulus-indep", theorem="C01_modulus_indep_phase_net")
        qc.set_rbm(st.rbm_ph, ph)
    # call forms: 1-D vector form equals the row of the batched form
    for k in range(len(rows)):
        v = space_t[k]
        ok = (abs(float(st.probability(v, 1.0)) - p1[k]) <= tol(p1[k])
              and np.all(np.abs(st.psi(v).numpy().ravel() - psi[:, k]) <= tol(np.sqrt(p1[k])))
              and abs(float(st.amplitude(v)) - amp[k]) <= tol(np.sqrt(p1[k]))
              and abs(float(st.phase(v)) - phase[k]) <= 1e-9 * (1 + abs(phase[k])))
        ctx.oracle("vector form == batched row", bool(ok), {**case, "row": k}, sig=f"{kind}/call-form", theorem="batched form is the map of the vector form (model by construction)")
    # rank-3 "batch of batches" (the shape unitaries._rotate_basis_state feeds to psi): every value has shape v.shape[:-1] and equals the
    # batched rows. PositiveWaveFunction.phase is outside the statement (SCOPE NOTE in notes/C01.md: it returns zeros(v.shape[0]) there);
    # only its values (all zero) are checked and its shape class is counted.
    det3 = None
    try:
        v3 = torch.stack([space_t, space_t.flip(0)])
        sel = lambda x: np.stack([x, x[..., ::-1]], axis=-2)  # noqa: E731
        amp3, psi3, p3 = st.amplitude(v3).numpy(), st.psi(v3).numpy(), st.probability(v3, 1.0).numpy()
        ok3 = (amp3.shape == tuple(v3.shape[:-1]) and p3.shape == tuple(v3.shape[:-1]) and psi3.shape == (2,) + tuple(v3.shape[:-1])
               and np.allclose(amp3, sel(amp), rtol=1e-9, atol=1e-300) and np.allclose(p3, sel(p1), rtol=1e-9, atol=1e-300)
               and np.allclose(psi3, sel(psi), rtol=1e-9, atol=1e-12 * np.sqrt(sc)))
        ph3 = st.phase(v3).numpy()
        if kind == "cplx":
            ok3 = ok3 and ph3.shape == tuple(v3.shape[:-1]) and np.all(np.abs(ph3 - sel(phase)) <= 1e-9 * (1 + np.abs(sel(phase))))
        else:
            ok3 = ok3 and bool(np.all(ph3 == 0))
            ctx.count("pos/phase(rank-3).shape=" + ("v.shape[:-1]" if ph3.shape == tuple(v3.shape[:-1]) else "(v.shape[0],)" if ph3.shape == (v3.shape[0],) else str(ph3.shape)))
        det3 = {"shapes": {"amplitude": list(amp3.shape), "psi": list(psi3.shape), "probability": list(p3.shape), "phase": list(ph3.shape)}}
    except Exception as e:  # noqa: BLE001  (a call form that raises is a failed call form, reported with the case)
        ok3, det3 = False, {"exception": type(e).__name__, "message": str(e)[:200]}
    # rank-3 is outside the quantifier "vector and batched call forms" (third audit B-3): recorded, never judged under C01 (the rank-3 call
    # unitaries._rotate_basis_state makes is covered where it matters, by C04's rotation points)
    ctx.info(f"{kind}: rank-3 batch form == batched rows (shape v.shape[:-1])", bool(ok3), True)


def gen_cases(ctx, thorough):
    archs = [(n, h) for n in range(1, 6) for h in range(1, 7)]
    if not thorough:
        ctx.rng.shuffle(archs)
        archs = sorted(archs[:7] + [(2, 3), (3, 1)])
    for (n, h) in archs:
        scales = qc.SCALES if thorough else [ctx.rng.choice(qc.SCALES[1:]), ctx.rng.choice(qc.SCALES)]
        for scale in scales:
            for kind in ("pos", "cplx"):
                am = qc.rand_rbm_params(ctx.rng, n, h, scale)
                # phase network: capped at scale 3 or (second audit C01-2) at the case's own scale (|E_mu| up to several hundred)
                ph = qc.rand_rbm_params(ctx.rng, n, h, (ctx.rng.choice([min(scale, 3.0), scale]) if scale else 0.0)) if kind == "cplx" else None
                yield kind, n, h, scale, am, ph


def tiny_row_cases(ctx, thorough):
    """strongly negative visible biases with O(1) couplings: the probabilities of one state span 50 .. 300 orders of magnitude inside the
    exp domain (|E| <= 600), so that most rows are far below max p (second audit C01-1: those rows are compared relatively / in the log domain)"""
    for _ in range(6 if thorough else 2):
        for kind in ("pos", "cplx"):
            n, h = ctx.rng.choice([2, 3, 4, 5]), ctx.rng.choice([1, 2, 3, 4])
            am = qc.rand_rbm_params(ctx.rng, n, h, 1.0)
            am["b"] = [-ctx.rng.uniform(25.0, 110.0) for _ in range(n)]
            ph = qc.rand_rbm_params(ctx.rng, n, h, 3.0) if kind == "cplx" else None
            yield kind, n, h, 1.0, am, ph


def overflow_probes(ctx, thorough):
    """scale 100 / 300: |E| > 600 on some rows, so exp(-E) leaves the float64 range in one or both directions (log-domain branch of _eval)"""
    for _ in range(4 if thorough else 1):
        for scale in (100.0, 300.0):
            for kind in ("pos", "cplx"):
                n, h = ctx.rng.choice([2, 3, 4]), ctx.rng.choice([2, 3, 4])
                am = qc.rand_rbm_params(ctx.rng, n, h, scale)
                ph = qc.rand_rbm_params(ctx.rng, n, h, 3.0) if kind == "cplx" else None
                yield kind, n, h, scale, am, ph


# ---------------------------------------------------------------- call forms (extension round 2)
CALLFORM_THEOREM = "C01_call_forms / C01_vector_form_is_row (C01_psiPos_polar for the positive state's phase and psi)"


def callform_case(ctx, case):
    """one state, one tensor argument: every public evaluation method of the REAL state against the model of the decorated method
    (QV.Model.CallShape / States: RBM.effectiveEnergy, Wave.amplitudeCall, phaseCall / phasePosCall, psiCplxCall / psiPosCall,
    probabilityCall).  Vector and batch forms are the property's own quantifier ("vector and batched call forms"): property level;
    rank-3 arguments (and PositiveWaveFunction.phase on them: scope note C01-1) are outside it: recorded with ctx.info, never judged
    (third audit B-3 / B-15: `proposed/C01_phase_rank3.diff`, or an up-front `dim() > 2` refusal, keep the property)."""
    kind, n, h, am, ph, lead = case["kind"], case["n"], case["h"], case["am"], case["ph"], case["lead"]
    ctx.current_case = case
    st = qc.make_positive(n, h, am) if kind == "pos" else qc.make_complex(n, h, am, ph)
    x = torch.tensor(case["rows"], dtype=torch.double).reshape(*lead, n)
    form = "vector" if not lead else ("batch" if len(lead) == 1 else "rank3")
    level = "property" if len(lead) <= 1 else "info"
    ctx.case(case, nontrivial=any(v != 0 for v in am["b"]) and any(v != 0 for v in am["c"]),
             sample={"callform": form, "kind": kind, "n": n, "h": h, "lead": lead})
    ctx.count(f"callform/{kind}/{form}" + ("/B=1" if lead == [1] else ""))
    Z = case["Z"]
    calls = [("energy", "scalar", lambda: st.rbm_am.effective_energy(x), {}),
             ("amplitude", "scalar", lambda: st.amplitude(x), {}),
             ("probability", "scalar", lambda: st.probability(x, Z), {"Z": bits([Z])[0]})]
    if kind == "cplx":
        calls += [("phase", "scalar", lambda: st.phase(x), {"ph": qc.pbits(ph)}), ("psi_cplx", "pair", lambda: st.psi(x), {"ph": qc.pbits(ph)})]
    else:
        calls += [("phase_pos", "scalar", lambda: st.phase(x), {}), ("psi_pos", "pair", lambda: st.psi(x), {})]
    x0 = x.clone()
    for fn, entry, f, extra in calls:
        impl = cs.impl_result(f, entry)
        if len(lead) <= 1:
            # third audit B-3: the oracles are property level, so only for the quantifier's own forms (vector / batch); rank-3 is recorded below.
            ctx.oracle("call form accepted (vector / batch argument)", not impl["refused"], {**case, "fn": fn}, detail=impl.get("exc"),
                       sig=f"{kind}/callform/{fn}/accepted", theorem=CALLFORM_THEOREM)
            if not impl["refused"]:
                # vector form: the sibling docstrings document "(b,) or (1,)" for a 1-D argument; one value is what the property needs
                shp_ok = impl["shape"] == lead or (not lead and int(np.prod(impl["shape"])) == 1)
                ctx.oracle("result shape == v.shape[:-1] (vector form: one value)", shp_ok, {**case, "fn": fn}, detail={"shape": impl["shape"]},
                           sig=f"{kind}/callform/{fn}/shape-oracle", theorem=CALLFORM_THEOREM)
                if not lead:
                    ctx.info(f"{fn} (vector form): result shape is ()", impl["shape"], [])
        if ctx.driver is not None:
            model = cs.model_result(ctx.driver.call("c01.callform", fn=fn, n=n, h=h, am=qc.pbits(am), x=cs.arg(x), **extra))
            lv = "info" if len(lead) > 1 else level   # rank-3: outside "vector and batched call forms" (B-15)
            sc = float(np.max(np.abs(impl["data"]))) + 1e-300 if not impl["refused"] and impl["data"].size else 1.0
            cs.compare(ctx, f"{fn} ({form} form)", lv, impl, model, {**case, "fn": fn}, CALLFORM_THEOREM, f"{kind}/callform/{fn}/{form}", scale=sc,
                       one_value_ok=not lead)
    # C01 says nothing about the caller's argument staying untouched (third audit B-11): recorded, no verdict
    ctx.info("argument unmodified by the call forms", bool(torch.equal(x, x0)), True)
    if kind == "pos" and len(lead) <= 1 and ctx.driver is not None:
        # the base-class formula amplitude*(cos,sin)(phase) evaluated in the MODEL with the decorated zero phase == the real override psi
        base = cs.model_result(ctx.driver.call("c01.callform", fn="psi_pos_base", n=n, h=h, am=qc.pbits(am), x=cs.arg(x)))
        impl = cs.impl_result(lambda: st.psi(x), "pair")
        cs.compare(ctx, f"PositiveWaveFunction.psi == base-class polar formula with phase = 0 ({form} form)", "property", impl, base, case,
                   "C01_psiPos_polar", f"pos/callform/psi-polar/{form}", scale=float(np.max(np.abs(impl["data"]))) + 1e-300, one_value_ok=not lead)


def gen_callforms(ctx, thorough):
    leads = [[], [], [1], [2], [3], [1, 3], [2, 2], [2, 1]]
    for rep in range(6 if thorough else 2):
        for kind in ("pos", "cplx"):
            n, h = ctx.rng.choice([1, 2, 3, 4, 5]), ctx.rng.choice([1, 2, 3, 4, 5, 6])
            scale = ctx.rng.choice([0.1, 1.0, 3.0])
            am = qc.rand_rbm_params(ctx.rng, n, h, scale)
            ph = qc.rand_rbm_params(ctx.rng, n, h, min(scale, 1.0)) if kind == "cplx" else None
            for lead in leads[(rep % 2)::2] if not thorough else leads:
                x = cs.rand_tensor(ctx.rng, lead, n)
                yield {"callform": True, "kind": kind, "n": n, "h": h, "scale": scale, "am": am, "ph": ph, "lead": lead,
                       "rows": cs.rows_of(x), "Z": ctx.rng.choice([1.0, 2.5, 0.125])}


def run(ctx):
    ctx.rule = RULE
    for (kind, n, h, scale, am, ph) in gen_cases(ctx, ctx.tier == "thorough"):
        am2 = qc.rand_rbm_params(ctx.rng, n, h, min(scale, 3.0) if scale else 0.5)
        ph2 = qc.rand_rbm_params(ctx.rng, n, h, 1.0) if kind == "cplx" else None
        one_case(ctx, kind, n, h, scale, am, ph, am2=am2, ph2=ph2, aseed=af.draw_aseed(ctx.rng))
    for (kind, n, h, scale, am, ph) in tiny_row_cases(ctx, ctx.tier == "thorough"):
        am2 = qc.rand_rbm_params(ctx.rng, n, h, 1.0)
        am2["b"] = [-x for x in am["b"]]
        ph2 = qc.rand_rbm_params(ctx.rng, n, h, 1.0) if kind == "cplx" else None
        ctx.count("regime=tiny-rows")
        one_case(ctx, kind, n, h, scale, am, ph, am2=am2, ph2=ph2, aseed=af.draw_aseed(ctx.rng))
    for (kind, n, h, scale, am, ph) in overflow_probes(ctx, ctx.tier == "thorough"):
        am2 = qc.rand_rbm_params(ctx.rng, n, h, scale)
        ph2 = qc.rand_rbm_params(ctx.rng, n, h, 1.0) if kind == "cplx" else None
        one_case(ctx, kind, n, h, scale, am, ph, am2=am2, ph2=ph2, aseed=af.draw_aseed(ctx.rng))
    for case in gen_callforms(ctx, ctx.tier == "thorough"):   # after the older regimes: their seeded streams are unchanged
        callform_case(ctx, case)


def search(ctx):
    """larger oracle-only run used when a proof obligation / auxiliary correspondence is broken"""
    drv, ctx.driver = ctx.driver, None
    try:
        for (kind, n, h, scale, am, ph) in gen_cases(ctx, True):
            am2 = qc.rand_rbm_params(ctx.rng, n, h, 1.0)
            ph2 = qc.rand_rbm_params(ctx.rng, n, h, 1.0) if kind == "cplx" else None
            one_case(ctx, kind, n, h, scale, am, ph, am2=am2, ph2=ph2, aseed=af.draw_aseed(ctx.rng))
    finally:
        ctx.driver = drv


def replay(ctx, case):
    if case.get("callform"):
        return callform_case(ctx, case)
    one_case(ctx, case["kind"], case["n"], case["h"], case["scale"], case["am"], case["ph"], am2=case.get("am2"), ph2=case.get("ph2"), aseed=case.get("aseed"))
