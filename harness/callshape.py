"""Call-form correspondence (extension round 2): the REAL method and the model of `auto_unsqueeze_args` / of the rank tests of
`gamma` / `pi` / `rho` (QV.Model.CallShape, QV.Model.Density `*Call`) are run on the same TENSOR arguments; compared are
accepted-or-refused (never the exception type), the result shape (exact) and the entries.

A tensor argument `(…lead…, n)` crosses the protocol as {"shape": lead, "rows": [[n floats] …]}; a result as
{"shape": […], "data": [[entry floats] …]} | {"error": …} (DriverLib/CallShape.lean)."""
import numpy as np

from .common import bits, unbits
from .qc import torch


def rand_tensor(rng, lead, n):
    """a double tensor (…lead…, n) of random 0/1 entries"""
    numel = int(np.prod(lead)) if lead else 1
    rows = [[float(rng.randrange(2)) for _ in range(n)] for _ in range(numel)]
    return torch.tensor(rows, dtype=torch.double).reshape(*lead, n)


def arg(t):
    """torch tensor (…lead…, n) -> protocol argument"""
    return {"shape": list(t.shape[:-1]), "rows": bits(t.reshape(-1, t.shape[-1]))}


def rows_of(t):
    return t.reshape(-1, t.shape[-1]).tolist()


def impl_result(f, entry):
    """run the real call; entry: 'scalar' (result (…lead…)), 'pair' (complex: (2, …lead…)), 'vec' (result (…lead…, m))"""
    try:
        out = f()
    except Exception as e:  # noqa: BLE001  (a refusal is an outcome here)
        return {"refused": True, "exc": type(e).__name__}
    a = out.detach().numpy().copy()
    if entry == "scalar":
        return {"refused": False, "shape": list(a.shape), "data": a.reshape(-1, 1)}
    if entry == "pair":
        if a.ndim < 1 or a.shape[0] != 2:
            return {"refused": False, "shape": ["not a complex pair"] + list(a.shape), "data": a.reshape(-1, 1)}
        return {"refused": False, "shape": list(a.shape[1:]), "data": np.moveaxis(a, 0, -1).reshape(-1, 2)}
    return {"refused": False, "shape": list(a.shape[:-1]), "data": a.reshape(-1, a.shape[-1])}


def model_result(res):
    if "error" in res:
        return {"refused": True, "exc": res["error"]}
    data = res["data"]
    return {"refused": False, "shape": [int(x) for x in res["shape"]],
            "data": np.array([unbits(e) for e in data], dtype=np.float64) if data else np.zeros((0, 1))}


def compare(ctx, name, level, impl, model, case, theorem, sig, scale=1.0, one_value_ok=False):
    """three points: accepted / refused, shape, entries.
    level "property": a call form of the property's quantifier; "aux": an intermediate (gamma / pi ...) on a form of the quantifier;
    "info": a call form OUTSIDE the quantifier (mixed ranks, rank-3, unequal batches, one-flag quirks of the decorator) - third audit B-15:
    for those not only accepted / refused but ALSO the result shape and the entries are unconstrained (a per-position-flag decorator fix or
    an up-front rank check keeps the property), so all three are recorded with ctx.info and never judged."""
    if level == "info":
        same = ctx.info(name + ": accepted / refused (form outside the quantifier)", impl["refused"], model["refused"])
        if same and not impl["refused"]:
            shp = [int(x) if not isinstance(x, str) else x for x in impl["shape"]]
            if ctx.info(name + ": result shape (form outside the quantifier)", shp, model["shape"]):
                a, b = np.asarray(impl["data"], dtype=np.float64).ravel(), np.asarray(model["data"], dtype=np.float64).ravel()
                ctx.info(name + ": entries (form outside the quantifier)", True,
                         bool(a.shape == b.shape and np.allclose(a, b, rtol=1e-9, atol=1e-9 * scale, equal_nan=True)))
        return
    if level == "aux" and impl["refused"] != model["refused"]:
        # whether a call form OUTSIDE the property's quantifier (mixed ranks, rank-3, unequal batches) is accepted or refused is not
        # constrained: recorded, no verdict (a rewrite that accepts more forms, or refuses earlier, keeps the property)
        ctx.info(name + ": accepted / refused (form outside the quantifier)", impl["refused"], model["refused"])
        return
    ok = ctx.point(name + ": accepted / refused", level, "refused" if impl["refused"] else "accepted",
                   "refused" if model["refused"] else "accepted", case, exact=True, theorem=theorem, sig=sig + "/outcome")
    if not ok or impl["refused"]:
        return
    shp = [int(x) if not isinstance(x, str) else x for x in impl["shape"]]
    if one_value_ok and model["shape"] == [] and shp != [] and all(isinstance(x, int) for x in shp) and int(np.prod(shp)) == 1:
        # vector form: whether the one value comes back as () or (1,) is not constrained (sibling docstrings say "(b,) or (1,)"): recorded only
        ctx.info(name + ": result shape () for the vector form", shp, [])
        ok = True
    else:
        ok = ctx.point(name + ": result shape", level, shp, model["shape"], case, exact=True, theorem=theorem, sig=sig + "/shape")
    if ok:
        ctx.point(name + ": entries", level, impl["data"].ravel(), model["data"].ravel(), case, scale=scale, theorem=theorem, sig=sig + "/entries")
