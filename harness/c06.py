"""C06 — every training step of the real `fit` against the CD-update model (QV.Model.CDStep)."""
import numpy as np

from . import qc
from .c03 import EPS, ORDER_PRBM, ORDER_RBM, dict_np, flat
from .common import bits, f2b, unbits
from .qc import torch

FILES = ["qucumber/nn_states/neural_state.py", "qucumber/utils/gradients_utils.py", "qucumber/nn_states/positive_wavefunction.py",
         "qucumber/nn_states/complex_wavefunction.py", "qucumber/nn_states/density_matrix.py"]
REQUIRED_THEOREMS = ['C06_batch_grad', 'C06_batch_grad_prbm', 'C06_phase_gets_positive_phase_only', 'C06_slices', 'C06_lands_on_parameter', 'C06_lands_on_parameter_prbm', 'C06_sgd_step', 'C06_run_unfold']
RULE = ("case = a real fit() run (state kind, n, h[, a], data with repeats and per-row bases, pos/neg batch sizes equal or different, dividing N or not, "
        "k in 0..3, learning rate, 1-3 epochs) observed through a recording optimizer passed via optimizer=, compute_batch_gradients and "
        "rbm_am.gibbs_steps wrapped on the instance, a counting scheduler; every batch of every epoch is one observation: .grad per parameter, "
        "parameters before/after, chain end states; non-trivial iff the run has >= 2 batches and k >= 1; distinct by hash of the configuration")
TH = {"grad": "C06_batch_grad, C06_phase_gets_positive_phase_only, C06_lands_on_parameter", "after": "C06_sgd_step, C06_run_unfold",
      "sched": "C12_scheduler_once_per_epoch (event-protocol model)"}


def make_state(case):
    kind, n, h, a = case["kind"], case["n"], case["h"], case.get("a", 0)
    if kind == "pos":
        return qc.make_positive(n, h, case["am"])
    if kind == "cplx":
        return qc.make_complex(n, h, case["am"], case["ph"])
    return qc.make_density(n, h, a, case["am"], case["ph"])


def net_params(net, kind):
    if kind == "dm":
        return {"W": net.weights_W.data.numpy().copy(), "U": net.weights_U.data.numpy().copy(), "b": net.visible_bias.data.numpy().copy(),
                "c": net.hidden_bias.data.numpy().copy(), "d": net.aux_bias.data.numpy().copy()}
    return {"W": net.weights.data.numpy().copy(), "b": net.visible_bias.data.numpy().copy(), "c": net.hidden_bias.data.numpy().copy()}


def one_case(ctx, case):
    ctx.current_case = case
    kind, n, h, a = case["kind"], case["n"], case["h"], case.get("a", 0)
    torch.manual_seed(case["seed"])
    st = make_state(case)
    nets = [st.rbm_am] + ([st.rbm_ph] if kind != "pos" else [])
    order = ORDER_PRBM if kind == "dm" else ORDER_RBM
    data = np.asarray(case["data"], dtype=float)
    bases = np.array([list(b) for b in case["bases"]]) if kind != "pos" else None
    log = {"batches": [], "sched": [], "events": []}

    # --- instance-level wrappers (public methods)
    orig_cbg = st.compute_batch_gradients
    orig_gibbs = st.rbm_am.gibbs_steps
    cur = {}

    def cbg(k, samples_batch, neg_batch, bases_batch=None, *args, **kw):
        cur.clear()
        cur.update(k=k, pos=samples_batch.numpy().copy(), neg=neg_batch.numpy().copy(),
                   bases=None if bases_batch is None else ["".join(r) for r in np.asarray(bases_batch)],
                   before=[net_params(x, kind) for x in nets])
        if kind == "pos":
            return orig_cbg(k, samples_batch, neg_batch)
        return orig_cbg(k, samples_batch, neg_batch, bases_batch)

    def gibbs(k, initial_state, overwrite=False):
        out = orig_gibbs(k, initial_state, overwrite=overwrite)
        if "k" in cur and "vk" not in cur:
            cur["vk"] = out.numpy().copy()
            cur["gibbs_k"] = k
        return out

    st.compute_batch_gradients = cbg
    st.rbm_am.gibbs_steps = gibbs

    class RecSGD(torch.optim.SGD):
        def step(self, closure=None):
            grads = [[None if p.grad is None else p.grad.numpy().copy() for p in g["params"]] for g in self.param_groups]
            r = super().step(closure)
            rec = dict(cur)
            rec["grads"] = grads[0]
            rec["after"] = [net_params(x, kind) for x in nets]
            rec["lr"] = self.param_groups[0]["lr"]
            log["batches"].append(rec)
            log["events"].append("opt")
            cur.clear()
            return r

    class CountSched:
        def __init__(self, optimizer, **kw):
            self.optimizer = optimizer

        def step(self):
            log["sched"].append(len(log["batches"]))
            log["events"].append("sched")

    from qucumber.callbacks import LambdaCallback
    cb = LambdaCallback(on_epoch_start=lambda s, e: log["events"].append(f"es{e}"), on_epoch_end=lambda s, e: log["events"].append(f"ee{e}"))
    start = case.get("start", 1)
    last = start + case["epochs"] - 1
    kw = dict(epochs=last, starting_epoch=start, pos_batch_size=case["pos_bs"], neg_batch_size=case["neg_bs"], k=case["k"], lr=case["lr"],
              optimizer=RecSGD, scheduler=CountSched, callbacks=[cb])
    runs = [(case["lr"], data)]
    if case.get("second_lr") is not None:  # a second fit on the SAME object: other learning rate, other (same-shaped) data
        runs.append((case["second_lr"], np.asarray(case["second_data"], dtype=float)))
    run_bounds = []
    for lr_run, data_run in runs:
        kw["lr"] = lr_run
        n_before = len(log["batches"])
        if kind == "pos":
            st.fit(torch.tensor(data_run, dtype=torch.double), **kw)
        else:
            st.fit(torch.tensor(data_run, dtype=torch.double), input_bases=bases, **kw)
        run_bounds.append((n_before, len(log["batches"]), lr_run, data_run))

    N = len(data)
    nb = -(-N // case["pos_bs"])
    neg_bs = case["neg_bs"] if case["neg_bs"] else case["pos_bs"]
    nontriv = nb >= 2 and case["k"] >= 1
    ctx.count("regime=" + case.get("regime", "ordinary")); ctx.count(f"starting_epoch={start}"); ctx.count("second_fit" if len(run_bounds) > 1 else "single_fit")
    ctx.case({k: case.get(k) for k in ("kind", "n", "h", "k", "lr", "epochs", "pos_bs", "neg_bs", "seed", "data", "bases", "start", "second_lr")}, nontrivial=nontriv,
             sample={"kind": kind, "n": n, "h": h, "N": N, "pos_bs": case["pos_bs"], "neg_bs": case["neg_bs"], "k": case["k"], "lr": case["lr"],
                     "epochs": case["epochs"], "batches_seen": len(log["batches"])})
    ctx.count(f"kind={kind}"); ctx.count(f"k={case['k']}"); ctx.count("neg==pos" if neg_bs == case["pos_bs"] else "neg!=pos")
    ctx.count("N%pos==0" if N % case["pos_bs"] == 0 else "N%pos!=0")

    # --- schedule-level oracles (per fit call)
    nruns = len(run_bounds)
    ctx.oracle("one optimizer step per batch", len(log["batches"]) == nb * case["epochs"] * nruns, case,
               detail={"steps": len(log["batches"]), "expected": nb * case["epochs"] * nruns}, sig=f"{kind}/steps-per-epoch", theorem=TH["after"])
    ev = log["events"]
    per_run = nb * case["epochs"]
    ok_sched = len(log["sched"]) == case["epochs"] * nruns and \
        log["sched"] == [r * per_run + nb * (e + 1) for r in range(nruns) for e in range(case["epochs"])]
    pos = 0
    for r in range(nruns):
        for e in range(start, last + 1):
            try:
                i_s = ev.index(f"es{e}", pos); i_e = ev.index(f"ee{e}", i_s)
            except ValueError:
                ok_sched = False
                break
            ok_sched = ok_sched and ev[i_s + 1:i_e] == ["opt"] * nb + ["sched"] and ev[pos:i_s] == []
            pos = i_e + 1
    ctx.oracle("scheduler stepped once per epoch, after the last batch, before epoch end, never outside an epoch", bool(ok_sched), case,
               detail={"sched": log["sched"], "events": ev[:40]}, sig=f"{kind}/scheduler", theorem=TH["sched"])
    for (a0, a1, lr_run, data_run) in run_bounds:
        rows_ok = all(any(np.array_equal(row, d) for d in data_run) for rec in log["batches"][a0:a1] for row in rec["pos"])
        neg_ok = all(any(np.array_equal(row, d) for d in data_run) for rec in log["batches"][a0:a1] for row in rec["neg"])
        ctx.oracle("every batch of a fit call uses the learning rate and the data of THAT call", rows_ok and neg_ok and
                   all(abs(rec["lr"] - lr_run) <= 1e-15 for rec in log["batches"][a0:a1]), case,
                   detail={"lrs": sorted({rec["lr"] for rec in log["batches"][a0:a1]}), "expected_lr": lr_run, "rows_ok": rows_ok, "neg_ok": neg_ok},
                   sig=f"{kind}/per-call-config", theorem=TH["after"])

    D = dict_np()
    dict_enc = {L: [[[f2b(D[L][r][c].real), f2b(D[L][r][c].imag)] for c in range(2)] for r in range(2)] for L in "XYZ"}
    for bi, rec in enumerate(log["batches"]):
        bcase = {**case, "batch_index": bi}
        ok_shape = rec["neg"].shape[0] == neg_bs or (rec["neg"].shape[0] == rec["pos"].shape[0])
        ctx.oracle("k passed to gibbs_steps and chain start = negative batch", rec.get("gibbs_k") == case["k"] and ok_shape and
                   rec["vk"].shape == rec["neg"].shape, bcase, sig=f"{kind}/gibbs-args", theorem=TH["grad"])
        # independent oracle for the parameter move: after = before - lr * grad (per parameter, as seen by the optimizer)
        g_all = rec["grads"]
        before = np.concatenate([flat(p, order) for p in rec["before"]])
        after = np.concatenate([flat(p, order) for p in rec["after"]])
        gflat = np.concatenate([g.ravel() for g in g_all])
        ctx.oracle("after == before - lr*grad", bool(np.allclose(after, before - rec["lr"] * gflat, rtol=1e-12, atol=1e-14)), bcase,
                   sig=f"{kind}/sgd", theorem=TH["after"])
        # independent oracle for the gradient: public positive_phase_gradients at the parameters before, minus mean energy gradient at vk
        ref = make_state({**case, "am": {k2: v.tolist() for k2, v in rec["before"][0].items()},
                          "ph": ({k2: v.tolist() for k2, v in rec["before"][1].items()} if kind != "pos" else None)})
        pos_t = torch.tensor(rec["pos"], dtype=torch.double)
        if kind == "pos":
            pp = ref.positive_phase_gradients(pos_t)
        else:
            pp = ref.positive_phase_gradients(pos_t, np.array([list(b) for b in rec["bases"]]))
        want = [pp[0].numpy() - ref.rbm_am.effective_energy_gradient(torch.tensor(rec["vk"], dtype=torch.double)).numpy() / rec["neg"].shape[0]]
        if kind != "pos":
            want.append(pp[1].numpy())
        ok = bool(np.allclose(gflat, np.concatenate(want), rtol=1e-9, atol=1e-11))
        ctx.oracle("grad == positive phase - mean energy gradient at chain ends (per parameter, parameters() order)", ok, bcase,
                   detail={"maxdiff": float(np.max(np.abs(gflat - np.concatenate(want))))}, sig=f"{kind}/cd-oracle", theorem=TH["grad"])
        if ctx.driver is None:
            continue
        req = dict(kind=kind, n=n, h=h, lr=f2b(rec["lr"]), vk=bits(rec["vk"]))
        if kind == "pos":
            req.update(am=qc.pbits(rec["before"][0]), rows=bits(rec["pos"]))
        else:
            samples = [{"bits": [int(x) for x in row], "basis": b} for row, b in zip(rec["pos"], rec["bases"])]
            req.update(am=qc.pbits(rec["before"][0]), ph=qc.pbits(rec["before"][1]), dict=dict_enc, samples=samples)
            if kind == "dm":
                req.update(a=a, eps=f2b(EPS))
        m = ctx.driver.call("c06.step", **req)
        pi = 0
        for ni in range(len(nets)):
            for si, sl in enumerate(m["grads"][ni]):
                impl_g = g_all[pi].ravel()
                scale = max(1.0, float(np.max(np.abs(impl_g))) if impl_g.size else 1.0)
                ctx.point(f"grad[net{ni}][param{si}]", "property", impl_g, unbits(sl), bcase, scale=scale, rtol=5e-8, atol=1e-10,
                          sig=f"{kind}/grad", theorem=TH["grad"])
                pi += 1
            ctx.point(f"params_after[net{ni}]", "property", flat(rec["after"][ni], order), unbits(m["after"][ni]), bcase, scale=1.0,
                      rtol=5e-8, atol=1e-10, sig=f"{kind}/after", theorem=TH["after"])


def gen_cases(ctx, thorough):
    rng = ctx.rng
    out = []
    kinds = ["pos", "cplx", "dm"]
    reps = 24 if thorough else 2
    for kind in kinds:
        for _ in range(reps):
            n = rng.choice([2, 3]) if kind != "dm" else 2
            h = rng.choice([1, 2, 3])
            a = rng.choice([1, 2])
            N = rng.randint(3, 9)
            pos_bs = rng.choice([2, 3, 4, N, N + 2])
            neg_bs = rng.choice([None, pos_bs, rng.randint(1, 5)])
            data = [[rng.randint(0, 1) for _ in range(n)] for _ in range(N)]
            pool = ["".join(rng.choice("XYZ") for _ in range(n)) for _ in range(2)] + ["Z" * n]
            bases = [rng.choice(pool) for _ in range(N)]
            bases[0] = "Z" * n  # at least one reference-basis row (needed for the negative phase)
            scale = rng.choice([0.3, 0.8])
            if kind == "dm":
                am = qc.rand_prbm_params(rng, n, h, a, scale); ph = qc.rand_prbm_params(rng, n, h, a, scale, d_zero=True)
            else:
                am = qc.rand_rbm_params(rng, n, h, scale); ph = qc.rand_rbm_params(rng, n, h, scale) if kind == "cplx" else None
            second = rng.random() < 0.5
            rows2 = [[rng.randint(0, 1) for _ in range(n)] for _ in range(N)]
            if kind != "pos":  # keep the reference-basis row pattern meaningful for the second data set too
                rows2[0] = data[0]
            out.append({"kind": kind, "n": n, "h": h, "a": a, "am": am, "ph": ph, "data": data, "bases": bases, "pos_bs": pos_bs, "neg_bs": neg_bs,
                        "k": rng.choice([0, 1, 2, 3]), "lr": rng.choice([0.5, 0.05, 1e-3]), "epochs": rng.choice([1, 2, 3]), "seed": rng.randrange(1 << 30),
                        "start": rng.choice([1, 1, 2, 4]), "second_lr": (rng.choice([0.25, 0.01]) if second else None),
                        "second_data": (rows2 if second else None)})
    # small-amplitude regime: strongly negative visible biases, all-ones outcomes measured with exactly one rotated site
    for kind in ("cplx", "dm"):
        for _ in range(4 if thorough else 1):
            n, h, a = 3, rng.choice([1, 2]), 1
            if kind == "dm":
                am = qc.rand_prbm_params(rng, n, h, a, 0.4); ph = qc.rand_prbm_params(rng, n, h, a, 0.6, d_zero=True)
            else:
                am = qc.rand_rbm_params(rng, n, h, 0.4); ph = qc.rand_rbm_params(rng, n, h, 0.6)
            am["b"] = [-rng.uniform(9.0, 14.0) for _ in range(n)]
            data, bases = [], []
            for i in range(5):
                jj = rng.randrange(n)
                data.append([1] * n if i else [0] * n)
                bases.append("".join(rng.choice("XY") if j == jj else "Z" for j in range(n)) if i else "Z" * n)
            out.append({"kind": kind, "n": n, "h": h, "a": a, "am": am, "ph": ph, "data": data, "bases": bases, "pos_bs": 5, "neg_bs": None,
                        "k": 1, "lr": 1e-3, "epochs": 1, "seed": rng.randrange(1 << 30), "start": 1, "second_lr": None, "second_data": None,
                        "regime": "small-amplitude"})
    # one positive batch with more than 256 distinct bases
    import itertools
    n = 6
    strings = ["".join(t) for t in itertools.product("XYZ", repeat=n)]
    rng.shuffle(strings)
    N = 262
    bases = ["Z" * n] + [s_ for s_ in strings if s_ != "Z" * n][:N - 1]
    out.append({"kind": "cplx", "n": n, "h": 1, "a": 1, "am": qc.rand_rbm_params(rng, n, 1, 0.5), "ph": qc.rand_rbm_params(rng, n, 1, 0.5),
                "data": [[rng.randint(0, 1) for _ in range(n)] for _ in range(N)], "bases": bases, "pos_bs": N, "neg_bs": 3, "k": 1, "lr": 0.01,
                "epochs": 1, "seed": rng.randrange(1 << 30), "start": 1, "second_lr": None, "second_data": None, "regime": "many-bases"})
    return out


def run(ctx):
    ctx.rule = RULE
    for case in gen_cases(ctx, ctx.tier == "thorough"):
        one_case(ctx, case)


def search(ctx):
    drv, ctx.driver = ctx.driver, None
    try:
        for case in gen_cases(ctx, True):
            one_case(ctx, case)
    finally:
        ctx.driver = drv


def replay(ctx, case):
    case = dict(case); case.pop("batch_index", None)
    one_case(ctx, case)
