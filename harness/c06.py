"""C06 — every training step of the real `fit` against the CD-update model (QV.Model.CDStep).

A case is a real `fit()` run (optionally two consecutive runs on the same object). Observed per batch:
  * the arguments of `compute_batch_gradients` (k, positive rows, bases, NEGATIVE batch) and the parameters before it,
  * every `torch.bernoulli` call made inside it (C05's scripted-draw recorder: probabilities presented + draws made),
  * the `initial_state` / `k` / result of `rbm_am.gibbs_steps` (instance wrapper, when the implementation goes through it),
  * `.grad` per parameter, the learning rate in the optimizer and the parameters after `optimizer.step()`.
The model (`c06.cdstep`) is fed (parameters before, positive batch, NEGATIVE batch, k, recorded draws) and COMPUTES the chain
end states, the probabilities presented, the gradients and the parameters after the step; `c06.run` recomputes the whole fit
call from the parameters the call started with (history clause) with the scheduler's learning rate per epoch.
Independent oracles on the implementation: numpy replay of the chain from the negative batch, finite differences of an
independently written CD objective, bit-exact continuity of the parameters across batches / epochs / fit calls, StepLR law.
Hardening round 4: feature interactions - stop request x scheduler (event grammar per entered epoch, scheduler step count and learning rate LEFT in
the optimizer, model lrEnd/schedSteps), caller-owned option objects re-used across calls and models, positional call forms in the documented
parameter order (model QV.CallForm.fitBind through c06.bind), user-registered basis letters.
Round 5 (argument forms, harness/argforms.py): epochs / pos_batch_size / neg_batch_size / k / starting_epoch and the sizes of the state are handed over
as Python int, numpy.int64 / int32 / intp / uint8, 0-d integer numpy array or 0-d integer torch tensor, progbar / time / gpu as bool, int, numpy.bool_,
numpy comparison result, 0-d numpy array or 0-d torch tensor - by keyword and in the positional prefix; the model's binder and every oracle are told
the VALUES."""
import contextlib
import io

import numpy as np

from . import argforms as af
from . import qc
from .c03 import EPS, ORDER_PRBM, ORDER_RBM, E_prbm, E_rbm, dense_K, dict_np, fd_grad, flat, idx, rho_np
from .c05 import Recorder
from .common import bits, f2b, unbits
from .qc import torch

FILES = ["qucumber/nn_states/neural_state.py", "qucumber/utils/gradients_utils.py", "qucumber/nn_states/positive_wavefunction.py",
         "qucumber/nn_states/complex_wavefunction.py", "qucumber/nn_states/density_matrix.py"]
REQUIRED_THEOREMS = ['C06_final_lr', 'C06_positional_call', 'C06_batch_grad', 'C06_batch_grad_prbm', 'C06_phase_gets_positive_phase_only', 'C06_slices', 'C06_lands_on_parameter',
                     'C06_lands_on_parameter_prbm', 'C06_sgd_step', 'C06_run_unfold',
                     'C06_chain', 'C06_chain_prbm', 'C06_chain_zero', 'C06_chain_run', 'C06_chain_step', 'C06_chain_law', 'C06_sgd_step_dm',
                     'C06_chain_stationary', 'C06_history', 'C06_run_unfold_cplx', 'C06_run_unfold_dm', 'C06_scheduler_lr', 'C06_steplr', 'C06_fit_trace_length',
                     'C06_slices_exact', 'C06_slices_tail_ignored', 'C06_fit_vector_length']   # extension round 2
RULE = ("case = a real fit() run (state kind, n, h[, a], data with repeats and per-row bases [optionally over X/Y/Z + user-registered letters], pos/neg batch "
        "sizes equal or different, dividing N or not, k in 0..3, learning rate, 1-4 epochs, 1-3 consecutive fits on the same object with other lr/data, the "
        "caller's callbacks list / optimizer_args dict / scheduler_args dict being the SAME objects in every call and optionally in a prior fit of another "
        "model; optimizer given as a recording SGD subclass / omitted (library default, torch.optim.SGD.step patched to record) / with optimizer_args; "
        "scheduler = counting stub or a real torch StepLR(step_size 1..2, gamma) via scheduler_args; optionally a stop request raised at epoch start / batch "
        "start / while the batch is processed / batch end / epoch end of a chosen epoch; the first j = 1..15 documented parameters given positionally; "
        "integer options (epochs, pos/neg batch size, k, starting_epoch, state sizes) as Python / numpy / 0-d array / 0-d tensor integers and progbar / "
        "time / gpu as bool / int / numpy.bool_ / 0-d array / 0-d tensor objects (stream `aseed` of the case); "
        "final pass: calls that leave k / lr to their documented defaults (k = 1, lr = 1e-3, DensityMatrix 1); keywords naming no parameter and "
        "input_bases= on a positive state; optimizers WITH STATE (SGD momentum / weight decay / nesterov, Adam, AdamW, RMSprop, Adagrad) on data whose "
        "batches have an exactly zero phase / whole gradient (all-Z bases, Z rows then rotated rows, identical rows with k = 0), judged by replay with "
        "torch's own optimizer; "
        "bernoulli draws scripted (faithful u<p or fair coins) and recorded) observed through compute_batch_gradients and rbm_am.gibbs_steps wrapped on the "
        "instance; every batch of every epoch is one observation: negative batch, chain start, probabilities presented, chain end states, .grad per "
        "parameter, lr, parameters before/after; per call: events, scheduler step count and learning rate left in the optimizer; non-trivial iff the run "
        "has >= 2 batches and k >= 1; distinct by hash of the configuration")
TH = {"grad": "C06_batch_grad, C06_phase_gets_positive_phase_only, C06_lands_on_parameter", "after": "C06_sgd_step, C06_sgd_step_dm, C06_run_unfold",
      "sched": "C12_scheduler_once_per_epoch (event-protocol model)",
      "chain": "C06_chain, C06_chain_prbm, C06_chain_run, C06_chain_law (with C05_batch_law, C05_k_step_law)", "chain0": "C06_chain_zero",
      "hist": "C06_history, C06_run_unfold, C06_run_unfold_cplx, C06_run_unfold_dm, C06_fit_trace_length", "lr": "C06_scheduler_lr, C06_steplr"}


def user_unitary(theta, phi):
    """a 2x2 unitary in the library's [real, imag] layout: [[cos t, e^{i phi} sin t], [e^{-i phi} sin t, -cos t]]"""
    import math

    c, s_ = math.cos(theta), math.sin(theta)
    return torch.tensor([[[c, math.cos(phi) * s_], [math.cos(phi) * s_, -c]], [[0.0, math.sin(phi) * s_], [-math.sin(phi) * s_, 0.0]]], dtype=torch.double)


def make_state(case):
    kind, n, h, a = case["kind"], case["n"], case["h"], case.get("a", 0)
    fm = af.Forms(case.get("aseed"))   # the constructors' sizes and `gpu` in the case's argument forms (the same objects for every state of the case)
    n, h, a, gpu = fm.i("num_visible", n), fm.i("num_hidden", h), fm.i("num_aux", a), fm.gpu()
    if kind == "pos":
        return qc.make_positive(n, h, case["am"], gpu=gpu)
    ud = None
    if case.get("letters"):  # basis letters the user registers next to X / Y / Z through the public `unitary_dict=` argument
        from qucumber.utils import unitaries

        ud = unitaries.create_dict(**{L["name"]: user_unitary(L["theta"], L["phi"]) for L in case["letters"]})
    if kind == "cplx":
        return qc.make_complex(n, h, case["am"], case["ph"], unitary_dict=ud, gpu=gpu)
    return qc.make_density(n, h, a, case["am"], case["ph"], unitary_dict=ud, gpu=gpu)


class CallRefused(Exception):
    """the call could not be bound to the signature (TypeError raised at the call boundary, before any code of fit ran)"""


# the documented parameter order of `fit` (NOT read from the implementation under test)
DOC_ORDER = {
    False: ["data", "epochs", "pos_batch_size", "neg_batch_size", "k", "lr", "progbar", "starting_epoch", "time", "callbacks", "optimizer",
            "optimizer_args", "scheduler", "scheduler_args"],
    True: ["data", "epochs", "pos_batch_size", "neg_batch_size", "k", "lr", "input_bases", "progbar", "starting_epoch", "time", "callbacks",
           "optimizer", "optimizer_args", "scheduler", "scheduler_args"],
}
DOC_DEFAULT_K = 1                                        # documented default of k (all three fit methods)
DOC_DEFAULT_LR = {"pos": 1e-3, "cplx": 1e-3, "dm": 1}    # documented default of lr (DensityMatrix.fit: the int 1)
DOC_DEFAULT = {"progbar": False, "time": False, "optimizer_args": None, "scheduler_args": None, "scheduler": None, "callbacks": None, "starting_epoch": 1}
REFS = {"data": 10, "lr": 11, "input_bases": 12, "callbacks": 13, "optimizer": 14, "optimizer_args": 15, "scheduler": 16, "scheduler_args": 17}


def split_call(has_bases, named, explicit, npos, objs=None):
    """the call `fit(*pos, **kw)`: the first `npos` documented parameters positionally (those the case does not set explicitly get their
    documented default), the remaining explicitly set ones by keyword; plus the same call on the wire for the model's binder (`c06.bind`).
    `objs`: name -> the OBJECT handed over for that option (argument forms: a numpy / torch integer, a truthy / falsy object); the wire
    carries the VALUES of `named`"""
    order = DOC_ORDER[has_bases]
    objs = objs or {}
    npos = max(1, min(npos, len(order)))
    val = lambda nm: named[nm] if nm in explicit else DOC_DEFAULT[nm]
    obj = lambda nm: objs[nm] if (nm in explicit and nm in objs) else val(nm)
    pos_names = order[:npos]
    pos = [obj(nm) for nm in pos_names]
    kw = {nm: obj(nm) for nm in order[npos:] if nm in explicit}
    enc = lambda nm, v: None if v is None else ({"ref": REFS[nm]} if nm in REFS else v)
    wire = {"has_bases": has_bases, "pos": [enc(nm, val(nm)) for nm in pos_names], "kw": [[nm, enc(nm, named[nm])] for nm in kw]}
    return pos, kw, wire


def net_params(net, kind):
    if kind == "dm":
        return {"W": net.weights_W.data.numpy().copy(), "U": net.weights_U.data.numpy().copy(), "b": net.visible_bias.data.numpy().copy(),
                "c": net.hidden_bias.data.numpy().copy(), "d": net.aux_bias.data.numpy().copy()}
    return {"W": net.weights.data.numpy().copy(), "b": net.visible_bias.data.numpy().copy(), "c": net.hidden_bias.data.numpy().copy()}


def same_params(p, q):
    """bit-exact equality of two lists of parameter dicts"""
    return len(p) == len(q) and all(x.keys() == y.keys() and all(np.array_equal(x[k], y[k]) for k in x) for x, y in zip(p, q))


# ------------------------------------------------------------------ independent numpy restatements
def _sig(x):
    with np.errstate(all="ignore"):
        return 1.0 / (1.0 + np.exp(-np.asarray(x, dtype=np.float64)))


def np_chain(kind, am, neg, calls, k, n, h, a):
    """block-Gibbs chain re-played in numpy FROM THE NEGATIVE BATCH with the recorded draws: in every pass the probabilities presented
    to the sampler must be sigma(W v + c) [, sigma(U v + d)] of the current visible rows (pass 0: the rows of `neg`) and then
    sigma(W^T h [+ U^T a] + b) of this pass's hidden [and auxiliary] draws. returns (pattern_ok, probs_ok, end states | None, detail)"""
    W, b, c = (np.asarray(am[x], dtype=np.float64) for x in ("W", "b", "c"))
    W = W.reshape(len(c), len(b))
    dm = kind == "dm"
    if dm:
        d = np.asarray(am["d"], dtype=np.float64)
        U = np.asarray(am["U"], dtype=np.float64).reshape(len(d), len(b))
    sizes = [h, a, n] if dm else [h, n]
    M = neg.shape[0]
    want_shapes = [[M, m] for _ in range(k) for m in sizes]
    got_shapes = [list(cl["shape"]) for cl in calls]
    if got_shapes != want_shapes:
        return False, False, None, {"bernoulli_shapes": got_shapes[:8], "expected": want_shapes[:8]}
    v = np.asarray(neg, dtype=np.float64).reshape(M, n)
    per = len(sizes)
    for s in range(k):
        cs = calls[per * s: per * s + per]
        ph = _sig(v @ W.T + c)
        if not np.allclose(cs[0]["p"], ph.ravel(), rtol=1e-9, atol=1e-12):
            return True, False, None, {"pass": s, "which": "p(h|v)", "presented": cs[0]["p"][:8].tolist(), "from_current_rows": ph.ravel()[:8].tolist()}
        hd = cs[0]["draw"].reshape(M, h).astype(np.float64)
        if dm:
            pa = _sig(v @ U.T + d)
            if not np.allclose(cs[1]["p"], pa.ravel(), rtol=1e-9, atol=1e-12):
                return True, False, None, {"pass": s, "which": "p(a|v)", "presented": cs[1]["p"][:8].tolist(), "from_current_rows": pa.ravel()[:8].tolist()}
            ad = cs[1]["draw"].reshape(M, a).astype(np.float64)
            pv = _sig(hd @ W + ad @ U + b)
        else:
            pv = _sig(hd @ W + b)
        if not np.allclose(cs[-1]["p"], pv.ravel(), rtol=1e-9, atol=1e-12):
            return True, False, None, {"pass": s, "which": "p(v|h)", "presented": cs[-1]["p"][:8].tolist(), "from_this_pass_draws": pv.ravel()[:8].tolist()}
        v = cs[-1]["draw"].reshape(M, n).astype(np.float64)
    return True, True, v, None


def cd_objective(kind, am, ph, pos, bases, vk, space, D):
    """F(theta) = mean_i -log ptilde(sigma_i in basis b_i) - mean_m E_lambda(vk_m), vk held fixed: its gradient with respect to the amplitude
    parameters is the CD gradient, with respect to the phase parameters the positive phase (independent of the library and of the Lean model)"""
    pos = np.asarray(pos, dtype=float)
    vk = np.asarray(vk, dtype=float)
    if kind == "pos":
        return E_rbm(am, pos).mean() - E_rbm(am, vk).mean()
    tot, cache = 0.0, {}
    if kind == "cplx":
        psi = np.exp(-(E_rbm(am, space) + 1j * E_rbm(ph, space)) / 2)
        for s, b in zip(pos, bases):
            if b not in cache:
                cache[b] = np.abs(dense_K(b, D) @ psi) ** 2
            tot -= np.log(cache[b][idx(s)])
        return tot / len(pos) - E_rbm(am, vk).mean()
    rho = rho_np(am, ph, space)
    for s, b in zip(pos, bases):
        if b not in cache:
            K = dense_K(b, D)
            cache[b] = np.real(np.diag(K @ rho @ K.conj().T))
        tot -= np.log(cache[b][idx(s)] + (EPS if any(ch != "Z" for ch in b) else 0.0))
    return tot / len(pos) - E_prbm(am, vk).mean()


def expected_lr(lr0, sched, e):
    """learning rate in epoch e (0-based within one fit call): StepLR closed form; without a (real) scheduler the rate given to fit"""
    if not sched:
        return lr0
    return lr0 * sched["gamma"] ** (e // sched["step_size"])


# ------------------------------------------------------------------ one case
def parse_events(ev, start):
    """events of ONE fit call -> (well_formed, [number of batches of every entered epoch]).
    Well formed: consecutive epochs start, start+1, ...; every epoch is  es (bs opt be)* {sched ee | ee sched} ; nothing else:
    the optimizer is stepped exactly once per batch (between on_batch_start and on_batch_end), the scheduler exactly once per ENTERED
    epoch, after the epoch's last batch and before the next epoch starts - also in an epoch that a stop request cut short. On which side
    of on_epoch_end the step is made is not constrained by the property ("advanced exactly once per epoch")."""
    pos, e, counts = 0, start, []
    while pos < len(ev):
        if ev[pos] != f"es{e}":
            return False, counts
        pos += 1
        m = 0
        while ev[pos:pos + 3] == ["bs", "opt", "be"]:
            pos += 3
            m += 1
        if ev[pos:pos + 2] not in (["sched", f"ee{e}"], [f"ee{e}", "sched"]):
            counts.append(m)
            return False, counts
        pos += 2
        counts.append(m)
        e += 1
    return True, counts


def one_case(ctx, case):
    import copy

    ctx.current_case = case
    kind, n, h, a = case["kind"], case["n"], case["h"], case.get("a", 0)
    torch.manual_seed(case["seed"])
    st = make_state(case)
    nets = [st.rbm_am] + ([st.rbm_ph] if kind != "pos" else [])
    order = ORDER_PRBM if kind == "dm" else ORDER_RBM
    data = np.asarray(case["data"], dtype=float)
    bases = np.array([list(b) for b in case["bases"]]) if kind != "pos" else None
    sched = case.get("sched")
    opt_form = case.get("opt_form", "class")
    dmode = case.get("dmode", "faithful")
    dseed = case.get("dseed", case["seed"] % (1 << 30))
    stop = case.get("stop")  # {"run", "at": epoch_start | batch_start | mid | batch_end | epoch_end, "epoch" (0-based within the call), "batch"}
    log = {"batches": [], "sched": [], "events": [], "unobserved": 0, "scheds_made": [], "last_opt": None}
    state = {"epoch": None, "batch": None, "run": 0}
    obs = {"on": True}  # False while the caller uses the same option objects for ANOTHER model (prior fit): nothing is recorded

    # --- instance-level wrappers (public methods)
    orig_cbg = st.compute_batch_gradients
    orig_gibbs = st.rbm_am.gibbs_steps
    cur = {}
    start = case.get("start", 1)

    def maybe_stop(where, e, b=None):
        if stop and obs["on"] and stop["run"] == state["run"] and stop["at"] == where and e == start + stop["epoch"] and (b is None or b == stop["batch"]):
            st.stop_training = True

    def cbg(k, samples_batch, neg_batch, bases_batch=None, *args, **kw):
        cur.clear()
        cur.update(k=af.plain(k), pos=samples_batch.numpy().copy(), neg=neg_batch.numpy().copy(),
                   bases=None if bases_batch is None else ["".join(r) for r in np.asarray(bases_batch)],
                   before=[net_params(x, kind) for x in nets], epoch=state["epoch"], run=state["run"])
        with Recorder(dseed + 7919 * len(log["batches"]), dmode) as rec:
            if kind == "pos":
                out = orig_cbg(k, samples_batch, neg_batch)
            else:
                out = orig_cbg(k, samples_batch, neg_batch, bases_batch)
        cur["calls"] = rec.calls
        cur["neg_after"] = neg_batch.numpy().copy()
        try:   # extension round 2: the flat vectors fit hands to vector_to_grads (all_grads[i] for network i) against the parameter counts
            vl = [(tuple(g.shape), str(g.dtype)) for g in out]
            want_vl = [((sum(int(p_.numel()) for p_ in x.parameters()),), "torch.float64") for x in nets]
        except Exception:  # noqa: BLE001
            vl, want_vl = None, "unreadable"
        log.setdefault("vec_lens", []).append((vl, want_vl))
        gc = cur.pop("gibbs_calls", [])
        if len(gc) == 1 and gc[0][1].shape == cur["neg"].shape and gc[0][2].shape == cur["neg"].shape:
            # the chain is ONE gibbs_steps call on a whole batch: observable through the wrapper
            cur["gibbs_k"], cur["gibbs_init"], cur["vk"] = gc[0]
        elif gc and len(gc) == cur["neg"].shape[0] and len({g_[0] for g_ in gc}) == 1 and all(g_[1].shape == cur["neg"].shape[1:] == g_[2].shape for g_ in gc):
            # one gibbs_steps call per chain (row): still observable, by stacking the per-row calls
            cur["gibbs_k"], cur["gibbs_init"], cur["vk"] = gc[0][0], np.stack([g_[1] for g_ in gc]), np.stack([g_[2] for g_ in gc])
        maybe_stop("mid", state["epoch"], state["batch"])  # a stop requested while the batch is being processed
        return out

    def gibbs(k, initial_state, overwrite=False):
        inside = "k" in cur and "neg_after" not in cur
        if inside:
            init = initial_state.detach().to(torch.double).numpy().copy()
        out = orig_gibbs(k, initial_state, overwrite=overwrite)
        if inside:
            cur.setdefault("gibbs_calls", []).append((af.plain(k), init, out.detach().to(torch.double).numpy().copy()))
        return out

    st.compute_batch_gradients = cbg
    st.rbm_am.gibbs_steps = gibbs

    def record_step(opt, do_step):
        if not obs["on"]:
            return do_step()
        # a parameter whose .grad is None when the optimizer is stepped was handed NO gradient: torch skips it (for plain SGD the same as a zero
        # gradient; with weight decay / momentum / Adam it is not: judged by effect in the stateful-optimizer regime). Recorded as zeros + a counter
        missing = sum(1 for g in opt.param_groups for p in g["params"] if p.grad is None)
        grads = [[np.zeros(tuple(p.shape)) if p.grad is None else p.grad.numpy().copy() for p in g["params"]] for g in opt.param_groups]
        r = do_step()
        log["last_opt"] = opt
        if "k" not in cur:  # optimizer stepped without a compute_batch_gradients call since the last step: nothing to tie the model to
            log["unobserved"] += 1
            return r
        rec = dict(cur)
        rec["grads"] = grads[0]
        rec["grads_missing"] = missing
        rec["after"] = [net_params(x, kind) for x in nets]
        rec["lr"] = opt.param_groups[0]["lr"]
        rec["momentum"] = opt.param_groups[0].get("momentum")
        rec["opt_class"] = type(opt).__name__
        log["batches"].append(rec)
        log["events"].append("opt")
        cur.clear()
        return r

    class RecSGD(torch.optim.SGD):
        def step(self, closure=None):
            return record_step(self, lambda: torch.optim.SGD.step(self, closure))

    def rec_class(base):
        """a recording subclass of ANY torch optimizer class (stateful ones: momentum, weight decay, Adam moments)"""
        return type("Rec" + base.__name__, (base,), {"step": lambda self, closure=None: record_step(self, lambda: base.step(self, closure))})

    class CountSched:
        def __init__(self, optimizer, **kw):
            self.optimizer = optimizer
            self.last_epoch = 0  # counts its own steps, like a torch scheduler
            if obs["on"]:
                log["scheds_made"].append(self)

        def step(self, epoch=None):  # torch's scheduler signature: an explicit epoch SETS the counter (deprecated form)
            self.last_epoch = self.last_epoch + 1 if epoch is None else epoch
            if obs["on"]:
                log["sched"].append(len(log["batches"]))
                log["events"].append("sched")

    class RecStepLR(torch.optim.lr_scheduler.StepLR):
        """a REAL torch scheduler; only logs when it is stepped (the constructor's own initial step is not an epoch step)"""

        def __init__(self, optimizer, **kw):
            self._g3_ready = False
            super().__init__(optimizer, **kw)
            self._g3_ready = True
            if obs["on"]:
                log["scheds_made"].append(self)

        def step(self, *a_, **k_):
            if self._g3_ready and obs["on"]:
                log["sched"].append(len(log["batches"]))
                log["events"].append("sched")
            return super().step(*a_, **k_)

    from qucumber.callbacks import LambdaCallback

    def on_es(s, e):
        if obs["on"]:
            state["epoch"] = e
            log["events"].append(f"es{e}")
            maybe_stop("epoch_start", e)

    def on_bs(s, e, b):
        if obs["on"]:
            state["batch"] = b
            log["events"].append("bs")
            maybe_stop("batch_start", e, b)

    def on_be(s, e, b):
        if obs["on"]:
            log["events"].append("be")
            maybe_stop("batch_end", e, b)

    def on_ee(s, e):
        if obs["on"]:
            log["events"].append(f"ee{e}")
            maybe_stop("epoch_end", e)

    cb = LambdaCallback(on_epoch_start=on_es, on_batch_start=on_bs, on_batch_end=on_be, on_epoch_end=on_ee)
    last = start + case["epochs"] - 1
    # the caller's option objects: ONE callbacks list, ONE optimizer_args dict, ONE scheduler_args dict for every fit call of the case
    # (and for the prior fit on another model)
    cb_list = [cb]
    named = dict(epochs=last, starting_epoch=start, pos_batch_size=case["pos_bs"], neg_batch_size=case["neg_bs"], k=case["k"], lr=case["lr"],
                 callbacks=cb_list)
    if sched:
        named.update(scheduler=RecStepLR, scheduler_args={"step_size": sched["step_size"], "gamma": sched["gamma"]})
    else:
        named.update(scheduler=CountSched)
    if opt_form == "class":
        named.update(optimizer=RecSGD)
    elif opt_form == "args":
        named.update(optimizer=RecSGD, optimizer_args={"momentum": 0.0, "dampening": 0.0, "nesterov": False})  # still plain SGD
    elif opt_form == "default-args":  # optimizer omitted (library default), options for it given
        named.update(optimizer_args={"momentum": 0.0, "nesterov": False})
    optim = case.get("optim")  # {"name": torch.optim class name, "args": its options}: an optimizer WITH STATE / weight decay, judged by effect
    if optim:
        named.update(optimizer=rec_class(getattr(torch.optim, optim["name"])), optimizer_args=dict(optim["args"]))
    omit = set(case.get("omit") or [])       # documented defaults: `k` and / or `lr` NOT written in the call (case["k"], case["lr"] hold the documented values)
    extra_kw = case.get("extra_kw") or {}    # keywords naming no documented parameter (collected by **kwargs, ignored); "input_bases" for a positive state
    option_objs = {k_: named[k_] for k_ in ("callbacks", "optimizer_args", "scheduler_args") if k_ in named}
    option_snap = {k_: (list(v) if isinstance(v, list) else copy.deepcopy(v)) for k_, v in option_objs.items()}
    runs = [(case["lr"], data)]
    if case.get("second_lr") is not None:  # a second fit on the SAME object: other learning rate, other (same-shaped) data
        runs.append((case["second_lr"], np.asarray(case["second_data"], dtype=float)))
    for xr in case.get("extra_runs") or []:
        runs.append((xr["lr"], np.asarray(xr["data"], dtype=float)))
    has_bases = kind != "pos"
    npos = case.get("npos", 1)
    if opt_form in ("default", "default-args"):
        npos = min(npos, DOC_ORDER[has_bases].index("optimizer"))  # `optimizer=` stays omitted
    for nm_ in omit:
        npos = min(npos, DOC_ORDER[has_bases].index(nm_))  # an omitted parameter and everything after it cannot be positional
    run_bounds, run_info = [], []
    forms = af.Forms(None if case.get("aseed") is None else case["aseed"] + 1, ctx)   # stream of the fit calls (the state has its own)
    initial = [net_params(x, kind) for x in nets]
    sgd_step_orig = torch.optim.SGD.step
    wire = None
    try:
        if opt_form in ("default", "default-args"):  # `optimizer=` omitted: the library's default optimizer; its step is patched (class level) to record
            def patched(self, closure=None):
                return record_step(self, lambda: sgd_step_orig(self, closure))
            torch.optim.SGD.step = patched

        def call_fit(obj, lr_run, data_run):
            nonlocal wire
            nm = dict(named, lr=lr_run, data=torch.tensor(data_run, dtype=torch.double))
            if has_bases:
                nm["input_bases"] = bases
            for nm_ in omit:
                nm.pop(nm_, None)
            # argument forms (round 5): the integer options as the integer objects callers pass, progbar / time given explicitly as truthy /
            # falsy objects (a progress bar goes to stderr, the Timer's line to stdout: neither is constrained); values stay in `nm`
            objs = {key: forms.i(key, nm[key], allowed) for key, allowed in af.FIT_INT.items() if key in nm}
            if forms.rng is not None:
                for key in ("progbar", "time"):
                    nm[key] = forms.chance(0.2)
                    objs[key] = forms.f(key, nm[key])
            pos_args, kw_args, wire = split_call(has_bases, nm, set(nm), npos, objs)
            for key, v in extra_kw.items():  # a keyword that names no parameter of this `fit` (swallowed by **kwargs); a positive state ignores input_bases
                kw_args[key] = np.array([list("X" * n)] * len(data_run)) if key == "input_bases" else v
                wire["kw"].append([key, {"ref": REFS["input_bases"]} if key == "input_bases" else v])
            try:
                # a progress bar / the Timer's report (should one appear) must not garble the verdict lines
                with contextlib.redirect_stderr(io.StringIO()), contextlib.redirect_stdout(io.StringIO()):
                    obj.fit(*pos_args, **kw_args)
            except TypeError as e:
                if e.__traceback__.tb_next is None:  # refused at the call boundary: Python could not bind the documented call form to the signature
                    raise CallRefused(str(e)[:300])
                raise

        if case.get("prior"):
            # the caller has used the very same option objects before, to train ANOTHER model with another learning rate
            obs["on"] = False
            try:
                call_fit(make_state(case), case["prior"]["lr"], data)
            finally:
                obs["on"] = True
        for r_i, (lr_run, data_run) in enumerate(runs):
            state["run"] = r_i
            n_before = len(log["batches"])
            ev_before, sc_before = len(log["events"]), len(log["scheds_made"])
            log["last_opt"] = None
            p_start = [net_params(x, kind) for x in nets]
            call_fit(st, lr_run, data_run)
            run_bounds.append((n_before, len(log["batches"]), lr_run, data_run, p_start, [net_params(x, kind) for x in nets]))
            opt_o, scheds = log["last_opt"], log["scheds_made"][sc_before:]
            run_info.append({"events": log["events"][ev_before:], "stopped": bool(st.stop_training),
                             "final_lr": None if opt_o is None else opt_o.param_groups[0]["lr"], "n_scheds": len(scheds),
                             "last_epoch": scheds[0].last_epoch if len(scheds) == 1 else None})
            if st.stop_training:
                st.stop_training = False  # the caller clears the flag before training on
    except CallRefused as e:
        ctx.case({"call_refused": True, "seed": case["seed"], "npos": npos, "kind": kind}, nontrivial=False)
        ctx.oracle("fit accepts a call written in its documented form (first j documented parameters positionally, the rest by keyword)", False, case,
                   detail={"TypeError": str(e), "positional": DOC_ORDER[has_bases][:npos]}, sig=f"{kind}/call-form", theorem="C06_positional_call")
        return
    finally:
        torch.optim.SGD.step = sgd_step_orig
        st.compute_batch_gradients = orig_cbg
        st.rbm_am.gibbs_steps = orig_gibbs

    vls = log.get("vec_lens", [])
    bad_vl = [(i, a_, b_) for i, (a_, b_) in enumerate(vls) if a_ != b_]
    ctx.count(f"fit: flat gradient vectors observed with exactly the network's parameter count: {len(vls) - len(bad_vl)} of {len(vls)} batches")
    # third audit B-1: shape / dtype of the RETURN VALUE of compute_batch_gradients is an intermediate (docstring: list[torch.Tensor]); C06
    # constrains the .grad the optimizer sees (judged by the per-batch points below).  A rewrite that returns per-parameter tensors, (1,P) rows or
    # float32 that fit flattens / casts keeps every .grad: recorded only, no verdict.
    ctx.info(f"{kind}: every vector compute_batch_gradients returns is a 1-D double tensor with exactly the network's parameter count", not bad_vl, True)

    if log["unobserved"]:
        # fit no longer goes through the public compute_batch_gradients once per optimizer step: the per-batch model cannot be tied to the code
        ctx.case({"unobserved": True, "seed": case["seed"]}, nontrivial=False)
        ctx.point("every optimizer step is preceded by one compute_batch_gradients call (observation hook of the per-batch model)", "aux",
                  log["unobserved"], 0, case, exact=True, sig=f"{kind}/batch-gradients-not-observable", theorem=TH["grad"])
        return
    N = len(data)
    nb = -(-N // case["pos_bs"])
    neg_bs = case["neg_bs"] if case["neg_bs"] else case["pos_bs"]
    nontriv = nb >= 2 and case["k"] >= 1
    ctx.count("regime=" + case.get("regime", "ordinary")); ctx.count(f"starting_epoch={start}"); ctx.count(f"fit calls on the object={len(run_bounds)}")
    ctx.case({k: case.get(k) for k in ("kind", "n", "h", "k", "lr", "epochs", "pos_bs", "neg_bs", "seed", "data", "bases", "start", "second_lr", "sched",
                                       "opt_form", "dmode", "stop", "prior", "npos", "letters", "extra_runs", "aseed", "optim", "omit", "extra_kw")}, nontrivial=nontriv,
             sample={"kind": kind, "n": n, "h": h, "N": N, "pos_bs": case["pos_bs"], "neg_bs": case["neg_bs"], "k": case["k"], "lr": case["lr"],
                     "epochs": case["epochs"], "batches_seen": len(log["batches"]), "sched": sched, "opt_form": opt_form, "stop": stop, "npos": npos})
    ctx.count(f"kind={kind}"); ctx.count(f"k={case['k']}"); ctx.count("neg==pos" if neg_bs == case["pos_bs"] else "neg!=pos")
    ctx.count("N%pos==0" if N % case["pos_bs"] == 0 else "N%pos!=0")
    ctx.count("scheduler=" + (f"StepLR(step_size={sched['step_size']})" if sched else "counting stub")); ctx.count(f"optimizer form={opt_form}")
    ctx.count(f"draws={dmode}")
    ctx.count("stop request=" + (f"{stop['at']} (with {'StepLR' if sched else 'counting stub'})" if stop else "none"))
    ctx.count("positional arguments (documented order): " + ("data only" if npos == 1 else "through " + DOC_ORDER[has_bases][npos - 1]))
    ctx.count("prior fit of ANOTHER model with the same option objects" if case.get("prior") else "no prior use of the option objects")
    ctx.count("call leaves to their documented defaults: " + (", ".join(sorted(omit)) if omit else "neither k nor lr"))
    ctx.count("optimizer: " + (f"{optim['name']}({optim['args']})" if optim else "plain SGD"))
    if extra_kw:
        ctx.count("call carries keywords that name no parameter of this fit: " + ", ".join(sorted(extra_kw)))
    if has_bases and case.get("letters"):
        ctx.count("bases use a user-registered letter (unitary_dict=)")
    for k_, v in option_objs.items():  # informational: the property constrains the EFFECT (the learning rate / scheduler of THIS call), not the dict
        same = (list(v) == option_snap[k_]) if isinstance(v, list) else (v == option_snap[k_])
        ctx.count(f"caller's {k_} object after the calls: " + ("unchanged" if same else "CHANGED by fit"))

    # --- schedule-level oracles (per fit call)
    nruns = len(run_bounds)
    ok_sched, ok_steps, sched_detail = True, True, None
    entered = []  # per fit call: number of batches of every entered epoch
    for r_i, info in enumerate(run_info):
        wf, counts = parse_events(info["events"], start)
        entered.append(counts)
        cut = bool(stop) and stop["run"] == r_i
        if not wf:
            ok_sched = False
        if not cut and counts != [nb] * case["epochs"]:
            ok_steps = False
        if cut:  # how much of the run a stop request lets through belongs to the event protocol (C12): informational here
            want_e = stop["epoch"] + 1
            want_m = nb if stop["at"] == "epoch_end" else min(nb, stop["batch"] + 1 if stop["at"] != "epoch_start" else 1)
            ctx.count("stopped run: entered epochs / batches of the last epoch " + ("as the event protocol says" if len(counts) == want_e and counts[-1:] == [want_m]
                      and counts[:-1] == [nb] * (want_e - 1) else "differ from the event protocol (C12's concern)"))
        n_e = len(counts)
        # how many scheduler objects a call builds is not constrained by the property: the step count is read when there is exactly one
        steps_ok = info["n_scheds"] != 1 or info["last_epoch"] == n_e
        if info["n_scheds"] != 1:
            ctx.count(f"fit call built {info['n_scheds']} scheduler objects (step count read from the events only)")
        if sched_detail is None and (not wf or not steps_ok):
            sched_detail = {"fit_call": r_i, "events": info["events"][:60], "entered_epochs": n_e, "schedulers_built": info["n_scheds"],
                            "scheduler_steps(last_epoch)": info["last_epoch"]}
        ok_sched = ok_sched and steps_ok
    ctx.oracle("one optimizer step per batch (every epoch of an unstopped call has ceil(N/pos_batch_size) of them)",
               ok_steps and len(log["batches"]) == sum(sum(c) for c in entered), case,
               detail={"steps": len(log["batches"]), "batches_per_entered_epoch": entered, "expected_per_epoch": nb}, sig=f"{kind}/steps-per-epoch", theorem=TH["after"])
    ctx.oracle("scheduler stepped exactly once per ENTERED epoch (also one cut short by a stop request), after the epoch's last batch and before the next "
               "epoch starts; optimizer stepped once per batch", bool(ok_sched), case, detail=sched_detail, sig=f"{kind}/scheduler",
               theorem=TH["sched"] + "; C06_final_lr")
    for r_i, info in enumerate(run_info):  # what the run leaves behind: the rate after exactly one scheduler step per entered epoch
        if info["final_lr"] is None:
            continue
        want = expected_lr(run_bounds[r_i][2], sched, len(entered[r_i]))
        ctx.oracle("learning rate left in the optimizer after the call == lr*gamma^floor(E/step_size), E = number of epochs the call entered "
                   "(lr itself without a real scheduler)", abs(info["final_lr"] - want) <= 1e-15 + 1e-12 * abs(want), {**case, "fit_call": r_i},
                   detail={"lr_in_optimizer": info["final_lr"], "expected": want, "entered_epochs": len(entered[r_i]), "stop": stop},
                   sig=f"{kind}/final-lr", theorem="C06_final_lr, C06_steplr")
    ev = log["events"]
    if opt_form in ("default", "default-args"):  # informational: which optimizer the library built (the verdict is the effect: after == before - lr*grad)
        for cls_ in sorted({f"{rec['opt_class']}(momentum={rec['momentum']})" for rec in log["batches"]}):
            ctx.count(f"default optimizer built by fit: {cls_}")
    for (a0, a1, lr_run, data_run, p_start, p_end) in run_bounds:
        recs = log["batches"][a0:a1]
        rows_ok = all(any(np.array_equal(row, d) for d in data_run) for rec in recs for row in rec["pos"])
        neg_ok = all(any(np.array_equal(row, d) for d in data_run) for rec in recs for row in rec["neg"])
        want_lrs = [expected_lr(lr_run, sched, (rec["epoch"] - start) if rec["epoch"] is not None else 0) for rec in recs]
        lr_ok = all(abs(rec["lr"] - w) <= 1e-15 + 1e-12 * abs(w) for rec, w in zip(recs, want_lrs))
        ctx.oracle("every batch of a fit call uses the data of THAT call and the learning rate lr*gamma^floor(e/step_size) of its epoch e "
                   "(lr itself without a real scheduler), lr/scheduler_args being those given to THAT call", rows_ok and neg_ok and lr_ok, case,
                   detail={"lrs": [rec["lr"] for rec in recs][:12], "expected_lrs": want_lrs[:12], "rows_ok": rows_ok, "neg_ok": neg_ok},
                   sig=f"{kind}/per-call-config", theorem=TH["after"] + "; " + TH["lr"])
        # history clause, bit-exact: the parameters a batch is evaluated at are EXACTLY those the previous optimizer step left
        cont = None
        if recs:
            if not same_params(recs[0]["before"], p_start):
                cont = {"where": "first batch of the call", "batch": a0}
            for t in range(len(recs) - 1):
                if cont is None and not same_params(recs[t + 1]["before"], recs[t]["after"]):
                    cont = {"where": "between consecutive batches", "batch": a0 + t + 1, "epoch_prev": recs[t]["epoch"], "epoch": recs[t + 1]["epoch"]}
            if cont is None and not same_params(p_end, recs[-1]["after"]):
                cont = {"where": "after the last optimizer step of the call"}
        ctx.oracle("parameters before batch t+1 == parameters after batch t (bit-exact), first batch starts from the parameters the call was entered "
                   "with, nothing changes them after the last step", cont is None, case, detail=cont, sig=f"{kind}/continuity", theorem=TH["hist"])
    ctx.oracle("first fit call starts from the parameters the case set", bool(run_bounds) and same_params(run_bounds[0][4], initial), case,
               sig=f"{kind}/continuity-initial", theorem=TH["hist"])
    for r_i in range(1, len(run_bounds)):
        ctx.oracle("a later fit call starts from the parameters the previous one ended with (bit-exact)", same_params(run_bounds[r_i][4], run_bounds[r_i - 1][5]),
                   case, sig=f"{kind}/continuity-across-fits", theorem=TH["hist"])

    D = dict_np()
    for L in case.get("letters") or []:  # user-registered letters: the same matrices for the numpy oracle and for the model's dictionary
        u = user_unitary(L["theta"], L["phi"])
        D[L["name"]] = u[0].numpy() + 1j * u[1].numpy()
    dict_enc = {L: [[[f2b(D[L][r][c].real), f2b(D[L][r][c].imag)] for c in range(2)] for r in range(2)] for L in D}
    # the call as the MODEL's binder reads it (positional prefix in the documented order, keywords, documented defaults): C06_positional_call
    k_model = case["k"]
    if ctx.driver is not None and wire is not None:
        mb = ctx.driver.call("c06.bind", **wire)
        got = None if "error" in mb else {"k": mb["bound"]["k"], "lr": mb["bound"]["lr"], "neg_batch_size": mb["bound"]["neg_batch_size"],
                                          "pos_batch_size": mb["bound"]["pos_batch_size"], "epochs": mb["bound"]["epochs"],
                                          "starting_epoch": mb["bound"]["starting_epoch"], "scheduler": mb["bound"]["scheduler"],
                                          "scheduler_args": mb["bound"]["scheduler_args"], "optimizer_args": mb["bound"]["optimizer_args"]}
        want = {"k": case["k"], "lr": {"ref": 0 if "lr" in omit else REFS["lr"]}, "neg_batch_size": case["neg_bs"], "pos_batch_size": case["pos_bs"], "epochs": last,
                "starting_epoch": start, "scheduler": {"ref": REFS["scheduler"]}, "scheduler_args": {"ref": REFS["scheduler_args"]} if sched else None,
                "optimizer_args": {"ref": REFS["optimizer_args"]} if "optimizer_args" in named else None}
        ctx.point("model binding of the call (QV.CallForm.fitBind) gives k / lr / scheduler / ... the values the case wrote at the documented positions",
                  "aux", want, got, case, exact=True, sig=f"{kind}/call-binding-model", theorem="C06_positional_call")
        if got is not None:
            k_model = got["k"]
    space = np.asarray(qc.all_states(n), dtype=float)
    nbatches = len(log["batches"])
    unmodelled = []
    fd_pick = set(range(nbatches)) if ctx.tier == "thorough" and nbatches <= 12 else {0, 1, nbatches // 2, nbatches - 1}
    for bi, rec in enumerate(log["batches"]):
        bcase = {**case, "batch_index": bi}
        k = case["k"]
        lr_want = expected_lr(run_bounds[rec["run"]][2], sched, (rec["epoch"] - start) if rec["epoch"] is not None else 0)
        # ---------------- the chain: started from the negative batch
        ok_shape = rec["neg"].shape[0] == neg_bs or (rec["neg"].shape[0] == rec["pos"].shape[0])
        ctx.oracle("negative batch has neg_batch_size rows (or mirrors the positive batch)", bool(ok_shape), bcase, sig=f"{kind}/neg-shape", theorem=TH["grad"])
        ctx.oracle("compute_batch_gradients leaves the negative batch it was given unchanged", bool(np.array_equal(rec["neg"], rec["neg_after"])), bcase,
                   sig=f"{kind}/neg-untouched", theorem="C05_overwrite")
        pat_ok, probs_ok, vk_np, cdetail = np_chain(kind, rec["before"][0], rec["neg"], rec["calls"], k, n, h, a)
        if pat_ok:
            ctx.oracle("the chain starts FROM THE NEGATIVE BATCH: pass 1 presents p(h|v) [, p(a|v)] of the rows of neg_batch at the parameters before the "
                       "step, every later conditional follows the draws (k passes; numpy replay of the recorded bernoulli calls)", probs_ok, bcase,
                       detail=cdetail, sig=f"{kind}/chain-from-neg", theorem=TH["chain"])
        else:
            unmodelled.append((bi, cdetail))
        vk = rec.get("vk")
        if "gibbs_k" in rec:
            ctx.oracle("k passed to gibbs_steps and chain start = negative batch (values)", rec["gibbs_k"] == k and rec["gibbs_init"].shape == rec["neg"].shape
                       and bool(np.array_equal(rec["gibbs_init"], rec["neg"])) and vk.shape == rec["neg"].shape, bcase,
                       detail={"k_passed": rec["gibbs_k"], "initial_state": rec["gibbs_init"][:6].tolist(), "neg_batch": rec["neg"][:6].tolist()},
                       sig=f"{kind}/gibbs-args", theorem=TH["chain"])
            if k == 0:
                ctx.oracle("k = 0: chain end states == negative batch, no draw made", bool(np.array_equal(vk, rec["neg"])) and not rec["calls"], bcase,
                           detail={"vk": vk[:6].tolist(), "neg": rec["neg"][:6].tolist(), "bernoulli_calls": len(rec["calls"])}, sig=f"{kind}/k0",
                           theorem=TH["chain0"])
            if vk_np is not None and k >= 1:
                ctx.oracle("chain end states handed to the gradient == last visible draw of the chain from the negative batch", bool(np.array_equal(vk, vk_np)),
                           bcase, sig=f"{kind}/vk-is-last-draw", theorem=TH["chain"])
        else:
            ctx.count("rbm_am.gibbs_steps not called exactly once by compute_batch_gradients (chain taken from the bernoulli recording)")
            vk = vk_np if k >= 1 else rec["neg"].copy()
        if vk is None:
            continue  # neither hook sees the chain: reported once below as a broken correspondence
        # ---------------- independent oracle for the parameter move: after = before - lr * grad (per parameter, as seen by the optimizer)
        g_all = rec["grads"]
        before = np.concatenate([flat(p, order) for p in rec["before"]])
        after = np.concatenate([flat(p, order) for p in rec["after"]])
        gflat = np.concatenate([g.ravel() for g in g_all])
        if rec.get("grads_missing"):
            ctx.count("optimizer stepped with .grad = None on some parameter (no gradient handed over: judged by effect)")
        if not optim:
            ctx.oracle("after == before - lr_e*grad (lr_e = lr*gamma^floor(e/step_size) under StepLR)", bool(np.allclose(after, before - lr_want * gflat, rtol=1e-12, atol=1e-14)),
                       bcase, detail={"lr_in_optimizer": rec["lr"], "lr_expected": lr_want}, sig=f"{kind}/sgd", theorem=TH["after"] + "; " + TH["lr"])
        # consistency with the library's own public pieces at the parameters before (NOT independent: localises only)
        ref = make_state({**case, "am": {k2: v.tolist() for k2, v in rec["before"][0].items()},
                          "ph": ({k2: v.tolist() for k2, v in rec["before"][1].items()} if kind != "pos" else None)})
        pos_t = torch.tensor(rec["pos"], dtype=torch.double)
        if kind == "pos":
            pp = ref.positive_phase_gradients(pos_t)
        else:
            pp = ref.positive_phase_gradients(pos_t, np.array([list(b) for b in rec["bases"]]))
        want = [pp[0].numpy() - ref.rbm_am.effective_energy_gradient(torch.tensor(vk, dtype=torch.double)).numpy() / rec["neg"].shape[0]]
        if kind != "pos":
            want.append(pp[1].numpy())
        rec["want_flat"] = np.concatenate(want)
        ok = bool(np.allclose(gflat, np.concatenate(want), rtol=1e-9, atol=1e-11))
        ctx.oracle("grad == public positive_phase_gradients - mean public effective_energy_gradient at the chain ends (per parameter, parameters() order)", ok, bcase,
                   detail={"maxdiff": float(np.max(np.abs(gflat - np.concatenate(want))))}, sig=f"{kind}/cd-oracle", theorem=TH["grad"])
        # INDEPENDENT oracle (numpy only): central finite differences of F = mean -log ptilde(batch) - mean E_lambda(vk)
        if case.get("regime", "ordinary") not in ("small-amplitude", "many-bases") and n <= 3 and bi in fd_pick:
            am_b = {k2: v for k2, v in rec["before"][0].items()}
            ph_b = {k2: v for k2, v in rec["before"][1].items()} if kind != "pos" else None
            fds = [fd_grad(lambda p: cd_objective(kind, p, ph_b, rec["pos"], rec["bases"], vk, space, D), am_b, order)]
            if kind != "pos":
                fds.append(fd_grad(lambda p: cd_objective(kind, am_b, p, rec["pos"], rec["bases"], vk, space, D), ph_b, order))
            fdv = np.concatenate(fds)
            tol = 2e-5 * max(1.0, float(np.max(np.abs(fdv))))
            if kind == "dm":
                tol = max(tol, 1e-6 * len(fdv))
            okfd = fdv.shape == gflat.shape and bool(np.all(np.abs(gflat - fdv) <= tol))
            ctx.oracle("grad == d/dtheta [ mean -log ptilde(positive batch) - mean E_lambda(chain ends) ] by central finite differences of an independent "
                       "numpy objective (amplitude AND phase network)", okfd, bcase,
                       detail={"maxdiff": float(np.max(np.abs(gflat - fdv))) if fdv.shape == gflat.shape else None, "tol": tol}, sig=f"{kind}/cd-fd",
                       theorem=TH["grad"])
            ctx.count("finite-difference CD oracles")
        if ctx.driver is None:
            continue
        # ---------------- model: one step computed FROM THE NEGATIVE BATCH and the recorded draws
        req = dict(kind=kind, n=n, h=h, lr=f2b(lr_want))
        if kind == "pos":
            req.update(am=qc.pbits(rec["before"][0]), rows=bits(rec["pos"]))
        else:
            samples = [{"bits": [int(x) for x in row], "basis": b} for row, b in zip(rec["pos"], rec["bases"])]
            req.update(am=qc.pbits(rec["before"][0]), ph=qc.pbits(rec["before"][1]), dict=dict_enc, samples=samples)
            if kind == "dm":
                req.update(a=a, eps=f2b(EPS))
        m = None
        if pat_ok:
            draws = [int(x) for cl in rec["calls"] for x in cl["draw"]]
            probs = np.concatenate([cl["p"] for cl in rec["calls"]]) if rec["calls"] else np.zeros(0)
            m = ctx.driver.call("c06.cdstep", **req, neg=[[int(x) for x in r] for r in rec["neg"]], k=k_model, draws=draws)
            if m.get("short"):
                ctx.point("model chain consumes the recording", "property", len(draws), "model needs more draws", bcase, exact=True, sig=f"{kind}/chain-draw-count",
                          theorem=TH["chain"])
                m = None
            else:
                ctx.point("number of draws of the chain", "property", len(draws), len(draws) - m["leftover"], bcase, exact=True, sig=f"{kind}/chain-draw-count",
                          theorem=TH["chain"])
                if m["leftover"] == 0:
                    ctx.point("probabilities presented by the chain from the negative batch", "property", probs, unbits(m["probs"]) if m["probs"] else np.zeros(0),
                              bcase, sig=f"{kind}/chain-probs", theorem=TH["chain"])
                ctx.point("chain end states (model: gibbsStepsB k neg on the recorded draws)", "property", vk.astype(int).tolist(), m["vk"], bcase, exact=True,
                          sig=f"{kind}/chain-end", theorem=TH["chain"] if k else TH["chain0"])
        if m is None:  # recording not interpretable as one batched chain: the model is fed the implementation's chain end states
            m = ctx.driver.call("c06.step", **req, vk=bits(vk))
            ctx.count("model fed the recorded chain end states (c06.step)")
        pi = 0
        for ni in range(len(nets)):
            for si, sl in enumerate(m["grads"][ni]):
                impl_g = g_all[pi].ravel()
                scale = max(1.0, float(np.max(np.abs(impl_g))) if impl_g.size else 1.0)
                ctx.point(f"grad[net{ni}][param{si}]", "property", impl_g, unbits(sl), bcase, scale=scale, rtol=5e-8, atol=1e-10,
                          sig=f"{kind}/grad", theorem=TH["grad"] + "; " + TH["chain"])
                pi += 1
            if not optim:  # the model's update rule is plain SGD; optimizers with state are judged by the torch-replay oracle below
                ctx.point(f"params_after[net{ni}]", "property", flat(rec["after"][ni], order), unbits(m["after"][ni]), bcase, scale=1.0,
                          rtol=5e-8, atol=1e-10, sig=f"{kind}/after", theorem=TH["after"])

    if unmodelled and not ctx.__dict__.get("_c06_unmodelled_reported"):
        ctx._c06_unmodelled_reported = True
        # the sampler is modelled (C05) as ONE bernoulli call per conditional on the whole negative batch, k passes: when the code draws differently
        # the chain of the model cannot be tied to it -> ONE auxiliary mismatch (broken correspondence); the verdict on the property comes from the
        # effect oracles (gibbs_steps arguments, finite differences, sgd, continuity)
        ctx.point("bernoulli draws consumed as the model scripts them (k passes of h[,a],v conditionals on the whole negative batch)", "aux",
                  unmodelled[0][1], None, {**case, "batch_index": unmodelled[0][0]}, exact=True, sig=f"{kind}/chain-draws-not-consumed-as-modelled",
                  theorem=TH["chain"])
    # ---------------- optimizers WITH STATE (momentum, weight decay, Adam moments, ...): every fit call replayed with torch's OWN optimizer of the same
    # class and options on a private copy of the parameters the call started with, fed per batch the CD gradient (public positive phase - mean public
    # effective-energy gradient at the recorded chain ends, at the parameters before the step: the quantity the cd-oracle / cd-fd / model grad points
    # tie to the property) and the learning rate of the epoch. A zero gradient IS a gradient: weight decay, momentum and moment updates still act.
    if optim:
        for r_i, (a0, a1, lr_run, data_run, p_start, p_end) in enumerate(run_bounds):
            recs = log["batches"][a0:a1]
            if not recs or any("want_flat" not in rec for rec in recs):
                ctx.count("stateful optimizer: fit call not replayed (chain unobservable)")
                continue
            shapes = [g_.shape for g_ in recs[0]["grads"]]
            sizes_ = [int(np.prod(shp)) for shp in shapes]
            vec = np.concatenate([flat(p_, order) for p_ in p_start])
            offs = np.cumsum([0] + sizes_)
            bad = None
            if len(vec) != offs[-1]:
                bad = {"where": "parameter list of the optimizer", "optimizer_sees": int(offs[-1]), "state_has": len(vec)}
            else:
                with torch.enable_grad():
                    sh = [torch.tensor(vec[offs[i]:offs[i + 1]].reshape(shapes[i]), dtype=torch.double).requires_grad_(True) for i in range(len(shapes))]
                sh_opt = getattr(torch.optim, optim["name"])(sh, lr=lr_run, **optim["args"])
                for t, rec in enumerate(recs):
                    lr_w = expected_lr(lr_run, sched, (rec["epoch"] - start) if rec["epoch"] is not None else 0)
                    for grp in sh_opt.param_groups:
                        grp["lr"] = lr_w
                    for i, p_ in enumerate(sh):
                        p_.grad = torch.tensor(rec["want_flat"][offs[i]:offs[i + 1]].reshape(shapes[i]), dtype=torch.double)
                    sh_opt.step()
                    sh_after = np.concatenate([p_.detach().numpy().ravel() for p_ in sh])
                    after = np.concatenate([flat(p_, order) for p_ in rec["after"]])
                    if not np.allclose(after, sh_after, rtol=1e-9, atol=1e-12):
                        j = int(np.argmax(np.abs(after - sh_after)))
                        bad = {"batch_of_call": t, "epoch": rec["epoch"], "flat_index": j, "impl_after": float(after[j]), "replayed_after": float(sh_after[j]),
                               "gradient_component": float(rec["want_flat"][j]), "parameters_with_grad_None": rec.get("grads_missing")}
                        break
            ctx.oracle(f"parameters after every step == torch.optim.{optim['name']}({optim['args']}) stepped with the batch's CD gradient on every parameter of "
                       "both networks (a zero gradient still decays / carries momentum / updates the moments)", bad is None, {**case, "fit_call": r_i},
                       detail=bad, sig=f"{kind}/stateful-optimizer", theorem=TH["grad"])
            ctx.count(f"stateful optimizer replays: {optim['name']}")
            zero_ph = sum(1 for rec in recs if kind != "pos" and not np.any(rec["want_flat"][len(flat(rec["before"][0], order)):]))
            if zero_ph:
                ctx.count("stateful optimizer: batches whose phase gradient is exactly zero", zero_ph)
            if any(not np.any(rec["want_flat"]) for rec in recs):
                ctx.count("stateful optimizer: batches whose whole gradient is exactly zero")
    # ---------------- model: every fit call recomputed from the parameters it started with (history clause + learning-rate schedule)
    if ctx.driver is None or optim:
        return
    for r_i, (a0, a1, lr_run, data_run, p_start, p_end) in enumerate(run_bounds):
        recs = log["batches"][a0:a1]
        special = bool(stop) or bool(sched)  # runs whose final scheduler state is of interest are recomputed even when they have one batch
        if len(recs) < (1 if special else 2) or any(rec.get("vk") is None for rec in recs) or len(recs) > 40:
            ctx.count("fit calls not recomputed as a whole (fewer than 2 batches / chain unobservable)")
            continue
        epochs = []
        for e in range(start, start + len(entered[r_i])):  # the epochs the call ENTERED (a stop request may have cut the last one short)
            ebs = []
            for rec in recs:
                if rec["epoch"] != e:
                    continue
                if kind == "pos":
                    ebs.append({"rows": bits(rec["pos"]), "vk": bits(rec["vk"])})
                else:
                    ebs.append({"samples": [{"bits": [int(x) for x in row], "basis": b} for row, b in zip(rec["pos"], rec["bases"])], "vk": bits(rec["vk"])})
            epochs.append(ebs)
        if sum(len(e_) for e_ in epochs) != len(recs):
            continue  # epoch bookkeeping of the implementation is off: reported by the schedule oracles above
        req = dict(kind=kind, n=n, h=h, lr0=f2b(lr_run), epochs=epochs, am=qc.pbits(p_start[0]))
        if sched:
            req["sched"] = {"gamma": f2b(sched["gamma"]), "step_size": sched["step_size"]}
        if kind != "pos":
            req.update(ph=qc.pbits(p_start[1]), dict=dict_enc)
            if kind == "dm":
                req.update(a=a, eps=f2b(EPS))
        m = ctx.driver.call("c06.run", **req)
        rcase = {**case, "fit_call": r_i}
        ctx.point("number of recorded updates of the fit call", "property", len(recs), len(m["trace"]), rcase, exact=True, sig=f"{kind}/run-length", theorem=TH["hist"])
        ctx.point("learning rate in force at every batch (model: lrAfter / tagEpochs)", "property", [rec["lr"] for rec in recs], unbits(m["lrs"]), rcase,
                  rtol=1e-12, atol=1e-18, sig=f"{kind}/run-lr", theorem=TH["lr"])
        info = run_info[r_i]
        if info["final_lr"] is not None:
            ctx.point("learning rate left in the optimizer when fit returns (model: lrEnd = one scheduler step per entered epoch)", "property",
                      info["final_lr"], unbits([m["final_lr"]])[0], rcase, rtol=1e-12, atol=1e-18, sig=f"{kind}/run-final-lr", theorem="C06_final_lr")
        if info["n_scheds"] == 1:
            ctx.point("number of scheduler steps of the fit call (scheduler.last_epoch; model: schedSteps)", "property", info["last_epoch"], m["sched_steps"],
                      rcase, exact=True, sig=f"{kind}/run-sched-steps", theorem="C06_final_lr; " + TH["sched"])
        for t, (rec, tr) in enumerate(zip(recs, m["trace"])):
            for ni in range(len(nets)):
                ctx.point(f"fit call from its initial parameters: params after batch {t} [net{ni}]", "property", flat(rec["after"][ni], order), unbits(tr[ni]),
                          {**rcase, "batch_index": a0 + t}, scale=1.0, rtol=2e-7, atol=1e-9, sig=f"{kind}/run-trace", theorem=TH["hist"])
        ctx.count("fit calls recomputed from their initial parameters")


def gen_cases(ctx, thorough):
    rng = ctx.rng
    out = []
    kinds = ["pos", "cplx", "dm"]
    reps = 40 if thorough else 3

    def base_case(kind, sched=None, opt_form="class"):
        n = rng.choice([2, 3]) if kind != "dm" else rng.choice([2, 2, 2, 3])
        h = rng.choice([1, 2, 3])
        a = rng.choice([1, 2])
        N = rng.randint(3, 9)
        pos_bs = rng.choice([2, 3, 4, N, N + 2])
        neg_bs = rng.choice([None, pos_bs, rng.randint(1, 5)])
        data = [[rng.randint(0, 1) for _ in range(n)] for _ in range(N)]
        pool = ["".join(rng.choice("XYZ") for _ in range(n)) for _ in range(2)] + ["Z" * n]
        bases = [rng.choice(pool) for _ in range(N)]
        bases[0] = "Z" * n  # at least one reference-basis row (needed for the negative phase)
        scale = rng.choice([0.3, 0.8])
        if kind == "dm":
            am = qc.rand_prbm_params(rng, n, h, a, scale); ph = qc.rand_prbm_params(rng, n, h, a, scale, d_zero=True)
        else:
            am = qc.rand_rbm_params(rng, n, h, scale); ph = qc.rand_rbm_params(rng, n, h, scale) if kind == "cplx" else None
        second = rng.random() < 0.5
        rows2 = new_rows(n, N, data)
        letters = None
        if kind != "pos" and rng.random() < 0.25:
            letters = with_letters(n, N, bases)
        c = {"kind": kind, "n": n, "h": h, "a": a, "am": am, "ph": ph, "data": data, "bases": bases, "pos_bs": pos_bs, "neg_bs": neg_bs,
             "k": rng.choice([0, 1, 2, 3]), "lr": rng.choice([0.5, 0.05, 1e-3]), "epochs": rng.choice([1, 2, 3]), "seed": rng.randrange(1 << 30),
             "start": rng.choice([1, 1, 2, 4]), "second_lr": (rng.choice([0.25, 0.01]) if second else None),
             "second_data": (rows2 if second else None), "sched": sched, "opt_form": opt_form,
             "dmode": rng.choice(["faithful", "faithful", "coin"]), "dseed": rng.randrange(1 << 30), "letters": letters, "aseed": af.new_seed(rng)}
        if rng.random() < 0.4:
            positional(c, rng.randint(2, len(DOC_ORDER[kind != "pos"])))
        if rng.random() < 0.25:
            c["prior"] = {"lr": rng.choice([0.7, 0.02])}
        return c

    def new_rows(n, N, data):
        rows = [[rng.randint(0, 1) for _ in range(n)] for _ in range(N)]
        rows[0] = data[0]  # keep the reference-basis row pattern meaningful for the later data sets too
        return rows

    def with_letters(n, N, bases):
        """register 1-2 user letters and use them in the bases; one row is all Z BUT ONE site, that one in a user-registered basis"""
        names = rng.sample(["H", "K", "z", "x", "S"], rng.choice([1, 2]))
        for i in range(1, N):
            if rng.random() < 0.5:
                bases[i] = "".join(rng.choice(list("XYZZ") + names * 2) for _ in range(n))
        if N >= 2:
            j = rng.randrange(n)
            bases[rng.randrange(1, N)] = "".join(rng.choice(names) if t == j else "Z" for t in range(n))
        return [{"name": nm, "theta": round(rng.uniform(0.2, 1.3), 3), "phi": round(rng.uniform(0.0, 3.0), 3)} for nm in names]

    def positional(c, npos):
        """give the first `npos` documented parameters positionally; make the integer arguments pairwise different where possible so that no two
        documented positions can be exchanged unnoticed"""
        c["npos"] = npos
        last = c.get("start", 1) + c["epochs"] - 1
        taken = {last, c["pos_bs"], c["neg_bs"] if c["neg_bs"] else -1}
        if c["k"] in taken:
            c["k"] = next((k_ for k_ in (1, 2, 3, 0) if k_ not in taken), c["k"])

    for kind in kinds:
        for _ in range(reps):
            sched = None
            opt_form = "class"
            if thorough:
                if rng.random() < 0.3:
                    sched = {"step_size": rng.choice([1, 1, 2]), "gamma": rng.choice([0.5, 0.1, 0.9])}
                opt_form = rng.choice(["class", "class", "default", "args", "default-args"])
            out.append(base_case(kind, sched, opt_form))
    # a real torch scheduler (StepLR through scheduler_args) over >= 3 epochs, the library's default optimizer, optimizer_args
    forms = [("pos", "default"), ("cplx", "args"), ("dm", "default")]
    for kind, opt_form in forms * (3 if thorough else 1):
        c = base_case(kind, {"step_size": rng.choice([1, 1, 2]), "gamma": rng.choice([0.5, 0.25])}, opt_form)
        c.update(epochs=rng.choice([3, 4]), k=rng.choice([1, 2]), lr=rng.choice([0.5, 0.05]), regime="steplr")
        c["pos_bs"] = min(c["pos_bs"], max(2, len(c["data"]) // 2))  # at least two batches per epoch
        out.append(c)
    # chain-start regime: positive and negative batch have the SAME shape but (with bases) different rows; distinct data rows; k >= 1 and k = 0
    for kind in kinds:
        for rep_i in range(6 if thorough else 2):
            c = base_case(kind)
            N = len(c["data"])
            c.update(k=(0 if rep_i % 2 else rng.choice([1, 2])), neg_bs=None, pos_bs=rng.choice([2, 3]), epochs=2, second_lr=None, second_data=None, regime="chain-start")
            n = c["n"]
            # distinct rows so that a chain started from the positive batch presents other conditionals than one started from the negative batch
            c["data"] = [[(i >> j) & 1 for j in range(n)] for i in range(N)]
            out.append(c)
    # ---- hardening round 4 --------------------------------------------------------------------------------------------------------------
    # (1) scheduler x stop request: a stop raised at every kind of event, in an epoch that is not the last, with a real StepLR (or the counting
    #     stub); sometimes training is continued afterwards (the caller clears the flag) with a fresh learning rate
    ats = ["epoch_start", "batch_start", "mid", "batch_end", "epoch_end"]
    for rep_i in range(4 if thorough else 1):
        for i, at in enumerate(ats):
            kind = kinds[(i + rep_i) % 3]
            real = not (i == 4 and rep_i % 2 == 0)
            c = base_case(kind, {"step_size": rng.choice([1, 1, 2]), "gamma": rng.choice([0.5, 0.25])} if real else None, rng.choice(["class", "default", "args"]))
            N = len(c["data"])
            c.update(epochs=rng.choice([3, 4]), k=rng.choice([1, 2]), lr=rng.choice([0.5, 0.05]), regime="stop-with-scheduler", prior=None)
            c["pos_bs"] = min(c["pos_bs"], max(2, N // 2))  # at least two batches per epoch
            nb = -(-N // c["pos_bs"])
            c["stop"] = {"run": 0, "at": at, "epoch": rng.randrange(0, c["epochs"] - 1), "batch": rng.randrange(nb)}
            if c["second_lr"] is None and rng.random() < 0.5:
                c.update(second_lr=0.125, second_data=new_rows(c["n"], N, c["data"]))
            if c.get("npos"):
                positional(c, c["npos"])
            out.append(c)
    # (2) caller-owned option objects re-used: ONE optimizer_args dict, ONE scheduler_args dict, ONE callbacks list for three fit calls with
    #     three learning rates on the object, after the same objects served a fit of ANOTHER model with yet another learning rate
    for rep_i in range(3 if thorough else 1):
        for i, kind in enumerate(kinds):
            c = base_case(kind, {"step_size": 1, "gamma": rng.choice([0.5, 0.25])}, ["args", "default-args", "args"][(i + rep_i) % 3])
            N = len(c["data"])
            c.update(epochs=2, k=1, lr=0.4, second_lr=0.05, second_data=new_rows(c["n"], N, c["data"]), regime="shared-option-objects",
                     extra_runs=[{"lr": 0.2, "data": new_rows(c["n"], N, c["data"])}], prior={"lr": 0.9}, start=1)
            c["pos_bs"] = min(c["pos_bs"], max(2, N // 2))
            if c.get("npos"):
                positional(c, c["npos"])
            out.append(c)
    # (3) positional call forms in the documented order: quick = two random prefixes per state type, thorough = every prefix length
    for kind in kinds:
        nparams = len(DOC_ORDER[kind != "pos"])
        for j in (range(2, nparams + 1) if thorough else [rng.randint(4, 6), rng.randint(7, nparams)]):
            c = base_case(kind, {"step_size": 1, "gamma": 0.5} if rng.random() < 0.5 else None, rng.choice(["class", "args", "default"]))
            c.update(epochs=rng.choice([1, 2]), regime="positional-call", second_lr=None, second_data=None)
            positional(c, j)
            out.append(c)
    # (4) user-registered basis letters in the training bases (a row that is all Z but one site is NOT a reference-basis row)
    for kind in ("cplx", "dm"):
        for _ in range(4 if thorough else 1):
            c = base_case(kind)
            c.update(regime="user-letters", k=rng.choice([1, 2]), second_lr=None, second_data=None, epochs=rng.choice([1, 2]))
            if not c.get("letters"):
                c["letters"] = with_letters(c["n"], len(c["data"]), c["bases"])
            out.append(c)
    # small-amplitude regime: strongly negative visible biases, all-ones outcomes measured with exactly one rotated site
    for kind in ("cplx", "dm"):
        for _ in range(4 if thorough else 1):
            n, h, a = 3, rng.choice([1, 2]), 1
            if kind == "dm":
                am = qc.rand_prbm_params(rng, n, h, a, 0.4); ph = qc.rand_prbm_params(rng, n, h, a, 0.6, d_zero=True)
            else:
                am = qc.rand_rbm_params(rng, n, h, 0.4); ph = qc.rand_rbm_params(rng, n, h, 0.6)
            am["b"] = [-rng.uniform(9.0, 14.0) for _ in range(n)]
            data, bases = [], []
            for i in range(5):
                jj = rng.randrange(n)
                data.append([1] * n if i else [0] * n)
                bases.append("".join(rng.choice("XY") if j == jj else "Z" for j in range(n)) if i else "Z" * n)
            out.append({"kind": kind, "n": n, "h": h, "a": a, "am": am, "ph": ph, "data": data, "bases": bases, "pos_bs": 5, "neg_bs": None,
                        "k": 1, "lr": 1e-3, "epochs": 1, "seed": rng.randrange(1 << 30), "start": 1, "second_lr": None, "second_data": None,
                        "regime": "small-amplitude", "aseed": af.new_seed(rng)})
    # ---- final pass ---------------------------------------------------------------------------------------------------------------------
    # (5) the documented defaults of k and lr (k = 1; lr = 1e-3, DensityMatrix.fit: 1 - constants written HERE, not read from the code): calls that
    #     do not write k, lr or both
    for i, kind in enumerate(kinds * (3 if thorough else 1)):
        c = base_case(kind, {"step_size": 1, "gamma": 0.5} if rng.random() < 0.3 else None, rng.choice(["class", "default"]))
        omit = [["k"], ["lr"], ["k", "lr"]][(i + rng.randrange(3)) % 3] if thorough else rng.choice([["k", "lr"], ["k", "lr"], ["k"], ["lr"]])
        c.update(omit=omit, regime="documented-defaults", prior=None)
        if "k" in omit:
            c["k"] = DOC_DEFAULT_K
        if "lr" in omit:
            c["lr"] = DOC_DEFAULT_LR[kind]
            if c["second_lr"] is not None:
                c["second_lr"] = DOC_DEFAULT_LR[kind]
        if c.get("npos"):
            positional(c, c["npos"])
            if "k" in omit:
                c["k"] = DOC_DEFAULT_K
        out.append(c)
    # (6) keywords that name no parameter (swallowed by **kwargs); input_bases= handed to a PositiveWaveFunction (documented as ignored)
    for kind in (kinds if thorough else [rng.choice(kinds), "pos"]):
        c = base_case(kind)
        c.update(extra_kw=({"input_bases": True, "foo": 1} if kind == "pos" else {"foo": 1, "bar": None}), regime="extra-keywords", epochs=rng.choice([1, 2]))
        out.append(c)
    # (7) optimizers WITH STATE on batches whose gradient is exactly zero: all-Z data (phase gradient of every batch = 0), data whose first rows are
    #     all Z and later rows rotated (some batches zero, some not), identical rows with k = 0 (amplitude gradient = 0 too)
    optims = [{"name": "SGD", "args": {"momentum": 0.9, "weight_decay": 0.1}}, {"name": "Adam", "args": {"weight_decay": 0.05}},
              {"name": "SGD", "args": {"weight_decay": 0.2}}, {"name": "SGD", "args": {"momentum": 0.8, "nesterov": True}},
              {"name": "Adam", "args": {"betas": [0.8, 0.9]}}, {"name": "RMSprop", "args": {"momentum": 0.5}}, {"name": "Adagrad", "args": {"weight_decay": 0.1}},
              {"name": "AdamW", "args": {}}]
    shapes_ = ["all-Z", "Z-then-rotated", "identical-rows-k0"]
    for i in range(18 if thorough else 5):
        kind = ["cplx", "dm", "cplx", "dm", "pos"][i % 5]
        shape_ = "identical-rows-k0" if kind == "pos" else shapes_[i % 2] if i % 5 < 4 else shapes_[2]
        c = base_case(kind, {"step_size": 1, "gamma": 0.5} if rng.random() < 0.3 else None, "class")
        N, n_ = len(c["data"]), c["n"]
        c.update(optim=(optims[i % 3] if not thorough else optims[i % len(optims)]), regime="stateful-optimizer/" + shape_, epochs=rng.choice([2, 3]), prior=None,
                 letters=None, lr=rng.choice([0.5, 0.05]))
        if shape_ == "all-Z":
            c["bases"] = ["Z" * n_] * N
        elif shape_ == "Z-then-rotated":
            N = 8
            c["data"] = [[rng.randint(0, 1) for _ in range(n_)] for _ in range(N)]
            c["bases"] = ["Z" * n_] * 6 + ["".join(rng.choice("XY") for _ in range(n_)) for _ in range(2)]
            c.update(pos_bs=2, neg_bs=rng.choice([None, 3]))
        else:
            c["data"] = [list(c["data"][0])] * N
            c["bases"] = ["Z" * n_] * N
            c.update(k=0, neg_bs=None, pos_bs=rng.choice([2, N]))
        if c.get("second_lr") is not None:  # the later call: same shape of data (identical rows again / fresh outcomes in the same bases)
            c["second_data"] = [list(r) for r in c["data"]] if shape_ == "identical-rows-k0" else new_rows(n_, N, c["data"])
        out.append(c)
    # one positive batch with more than 256 distinct bases
    import itertools
    n = 6
    strings = ["".join(t) for t in itertools.product("XYZ", repeat=n)]
    rng.shuffle(strings)
    N = 262
    bases = ["Z" * n] + [s_ for s_ in strings if s_ != "Z" * n][:N - 1]
    out.append({"kind": "cplx", "n": n, "h": 1, "a": 1, "am": qc.rand_rbm_params(rng, n, 1, 0.5), "ph": qc.rand_rbm_params(rng, n, 1, 0.5),
                "data": [[rng.randint(0, 1) for _ in range(n)] for _ in range(N)], "bases": bases, "pos_bs": N, "neg_bs": 3, "k": 1, "lr": 0.01,
                "epochs": 1, "seed": rng.randrange(1 << 30), "start": 1, "second_lr": None, "second_data": None, "regime": "many-bases",
                "aseed": af.new_seed(rng)})
    return out


# ------------------------------------------------------------------ extension round 2: direct vector_to_grads calls (refusals, truncation) vs ArgConv.vectorToGradsE
VTG_VARIANTS = ("exact", "longer", "much_longer", "shorter_by_1", "shorter_mid", "empty", "float32", "int64", "list", "ndarray", "none", "no_params")


def vtg_case(ctx, case):
    import random

    from qucumber.rbm import BinaryRBM, PurificationRBM
    try:
        from qucumber.utils.gradients_utils import vector_to_grads
    except ImportError:   # third audit B-13: the helper may be renamed / inlined by a rewrite (fit's .grad is judged elsewhere): nothing to call
        ctx.count("vtg: qucumber.utils.gradients_utils.vector_to_grads not importable (direct-call probe skipped)")
        return

    ctx.current_case = case
    rng = random.Random(case["seed"])
    n, h, a, variant, net = case["n"], case["h"], case["a"], case["variant"], case["net"]
    rbm = BinaryRBM(n, h, gpu=False) if net == "rbm" else PurificationRBM(n, h, a, gpu=False)
    params = [] if variant == "no_params" else list(rbm.parameters())
    sizes = [int(p_.numel()) for p_ in params]
    total = sum(sizes)
    length = {"exact": total, "longer": total + 1, "much_longer": 2 * total + 3, "shorter_by_1": total - 1,
              "shorter_mid": sizes[0] + max(0, (sizes[1] - 1)) if len(sizes) > 1 else 0, "empty": 0, "no_params": 4}.get(variant, total)
    vals = np.array([rng.randrange(-8, 9) / 4.0 for _ in range(length)], dtype=np.float64)
    if variant == "int64":
        vals = np.rint(vals)
    dt = {"float32": "float32", "int64": "int64"}.get(variant, "float64")
    if variant == "list":
        vec, mvec = vals.tolist(), None
    elif variant == "ndarray":
        vec, mvec = vals.copy(), None
    elif variant == "none":
        vec, mvec = None, None
    else:
        vec, mvec = torch.tensor(vals, dtype=getattr(torch, dt)), {"dt": dt, "vals": bits(vals)}
    ctx.case({k: case[k] for k in ("n", "h", "a", "variant", "net", "seed")}, nontrivial=True, sample={"kind": "vtg", "variant": variant, "sizes": sizes, "len": length})
    ctx.count("kind=vtg"); ctx.count(f"vtg: vector {variant}"); ctx.count(f"vtg: net={net}")
    try:
        vector_to_grads(vec, iter(params)); err = None
    except Exception as e:  # noqa: BLE001
        err = type(e).__name__
    assigned = []
    for p_ in params:
        if p_.grad is None:
            break
        assigned.append(bits(p_.grad.detach().to(torch.double).reshape(-1)))
    later = any(p_.grad is not None for p_ in params[len(assigned):])
    if ctx.driver is not None:
        m = ctx.driver.call("c06.vector_to_grads", vec=mvec, sizes=sizes)
        if variant in ("longer", "much_longer", "no_params") and err is not None:
            # a length check in front of the loop would be a legitimate tightening (C06 does not ask for the truncation): counter, no verdict
            ctx.count("vtg: a vector LONGER than the parameters is refused by the implementation (the model accepts and truncates)")
            return
        # DIRECT calls with a malformed vector are outside C06 (fit always passes exactly-sized vectors: oracle `<kind>/vector-length`):
        # whether they are refused, and which .grad tensors a refused call has already assigned, is recorded, never a verdict
        ctx.info(f"vtg/{variant}: call refused or not", err is None, "ok" in m)
        if variant == "exact" and err is None and "ok" in m:   # over-long vectors are malformed input (third audit B-13): info branch below
            ctx.point("vector_to_grads: the .grad tensors assigned when the call returns (each parameter its slice)", "aux",
                      assigned, m["assigned"], case, exact=True, sig=f"vtg/assigned/{variant}", theorem="C06_slices_exact, C06_slices_tail_ignored")
        else:
            ctx.info(f"vtg/{variant}: .grad tensors assigned before the call raised", assigned, m.get("assigned"))
    ctx.count("vtg: " + ("accepted" if err is None else "refused") + f" ({variant})")
    if variant in ("exact", "longer", "much_longer") and err is None:
        # each value lands on the parameter it belongs to: parameter i holds vec[offset_i : offset_i + numel_i] reshaped, nothing after a gap
        off, ok = 0, not later and len(assigned) == len(params)
        for p_, k_ in zip(params, sizes):
            ok = ok and p_.grad is not None and tuple(p_.grad.shape) == tuple(p_.shape) and np.array_equal(p_.grad.numpy().ravel(), vals[off:off + k_])
            off += k_
        if variant == "exact":
            ctx.oracle("vector_to_grads gives every parameter exactly its slice of the vector, in parameters() order", bool(ok), case,
                       sig=f"vtg/slices/{variant}", theorem="C06_slices_exact, C06_lands_on_parameter")
        else:   # an over-long vector is malformed input (fit never passes one): what an accepting implementation does with it is recorded only
            ctx.info(f"vtg/{variant}: every parameter gets its slice, entries beyond the parameter count are ignored", bool(ok), True)


def gen_vtg_cases(rng, thorough):
    for i, variant in enumerate(VTG_VARIANTS):
        for net in (("rbm", "prbm") if thorough or i % 2 == 0 else ("rbm",)):
            yield {"kind": "vtg", "n": rng.randrange(1, 4), "h": rng.randrange(1, 4), "a": rng.randrange(1, 3), "variant": variant, "net": net,
                   "seed": rng.randrange(1 << 30)}
        if not thorough and i % 2 == 1:
            yield {"kind": "vtg", "n": rng.randrange(1, 4), "h": rng.randrange(1, 4), "a": rng.randrange(1, 3), "variant": variant, "net": "prbm",
                   "seed": rng.randrange(1 << 30)}


def run(ctx):
    ctx.rule = RULE
    for case in gen_vtg_cases(ctx.rng, ctx.tier == "thorough"):
        vtg_case(ctx, case)
    for case in gen_cases(ctx, ctx.tier == "thorough"):
        one_case(ctx, case)


def search(ctx):
    drv, ctx.driver = ctx.driver, None
    try:
        for case in gen_vtg_cases(ctx.rng, True):
            vtg_case(ctx, case)
        for case in gen_cases(ctx, True):
            one_case(ctx, case)
    finally:
        ctx.driver = drv


def replay(ctx, case):
    if case.get("kind") == "vtg":
        return vtg_case(ctx, case)
    case = dict(case); case.pop("batch_index", None); case.pop("fit_call", None)
    one_case(ctx, case)
