"""gen_tie — the translator tie (package X6): part of the model is REGENERATED from the source of the checked tree on every run.

`tools/py2lean.py` translates a fixed list of scalar kernels of `$QV_REPO` into Lean (`lean/QV/Gen/<Name>.lean`); the committed copy is
tied to the hand-written model by the kernel-checked bridge theorems of `lean/QV/GenBridge/<Name>.lean` (built by `lake build QV`,
audited as `QV.Props.Cxx_gen_*`).  `tie(ctx, name, theorem, case)`:

 * regenerated text == committed text (the normal case, < 1 s): the bridge theorem the build has just checked IS about this source;
 * text differs: copy the lake project to a scratch directory outside /verif and /repo, put the regenerated file there and run
   `lake build QV.GenBridge.<Name>`; success = the rewritten source is still proved equal to the model (evidence counter); failure =
   the obligation `theorem` is broken for this source: an AUXILIARY mismatch (the verdict logic of harness/main.py then runs the
   failing-input search on the implementation: a really wrong formula ends in a concrete replay, else `no-failing-input-found`);
 * the translator refuses the source (exit 3 "unsupported", exit 4 "missing"): a counter only, never a verdict.
"""
import os
import shutil
import subprocess
import sys
import tempfile
import time

from . import common
from .common import LEAN_DIR, VERIF

TRANSLATOR = os.path.join(VERIF, "tools", "py2lean.py")
BRIDGE_TIMEOUT = int(os.environ.get("QV_GEN_TIMEOUT", "600"))
_done = {}  # name -> outcome, once per process (run / search / replay all go through the modules' run)


def tie(ctx, name, theorem, case=None):
    if name in _done:
        return _done[name]
    out = _tie(ctx, name, theorem, case)
    _done[name] = out
    return out


def _tie(ctx, name, theorem, case):
    t0 = time.time()
    scratch = tempfile.mkdtemp(prefix="qv_gen_")
    try:
        env = dict(os.environ)
        env["QV_REPO"] = common.REPO
        r = subprocess.run([sys.executable, TRANSLATOR, "--out", scratch, "--only", name], capture_output=True, text=True, env=env,
                           timeout=120)
        msg = (r.stdout + r.stderr).strip().splitlines()
        if r.returncode in (3, 4):
            ctx.count(f"gen_tie[{name}]: source outside the translatable subset (no verdict)")
            ctx.note(f"gen_tie[{name}]: translator exit {r.returncode}: {msg[-1] if msg else ''}")
            return "unsupported"
        if r.returncode != 0:
            ctx.count(f"gen_tie[{name}]: translator failed (exit {r.returncode}; no verdict)")
            ctx.note(f"gen_tie[{name}]: translator exit {r.returncode}: {' | '.join(msg[-3:])}")
            return "translator-error"
        new = open(os.path.join(scratch, name + ".lean"), encoding="utf-8").read()
        committed_path = os.path.join(LEAN_DIR, "QV", "Gen", name + ".lean")
        committed = open(committed_path, encoding="utf-8").read() if os.path.exists(committed_path) else None
        if new == committed:
            ctx.count(f"gen_tie[{name}]: generated model identical to the committed one (bridge theorem {theorem} built by lake)")
            return "identical"
        # the source was rewritten: re-prove the bridge theorem against the regenerated definition, in a copy of the lake project
        proj = os.path.join(scratch, "lean")
        shutil.copytree(LEAN_DIR, proj, symlinks=True, ignore=shutil.ignore_patterns(".build.lock", "audit_*", "bin"))
        with open(os.path.join(proj, "QV", "Gen", name + ".lean"), "w", encoding="utf-8") as f:
            f.write(new)
        try:
            b = subprocess.run(["lake", "build", f"QV.GenBridge.{name}"], cwd=proj, capture_output=True, text=True, timeout=BRIDGE_TIMEOUT)
            ok, log = b.returncode == 0, (b.stdout + b.stderr)
        except subprocess.TimeoutExpired:
            # a build that did not finish says nothing about the proof: no verdict (the correspondence stays the tie)
            ctx.count(f"gen_tie[{name}]: regenerated model differs, re-proof timed out after {BRIDGE_TIMEOUT} s (no verdict)")
            ctx.note(f"gen_tie[{name}]: lake build QV.GenBridge.{name} timed out after {BRIDGE_TIMEOUT} s")
            return "timeout"
        if ok:
            ctx.count(f"gen_tie[{name}]: regenerated model differs textually, bridge theorem {theorem} re-proved")
            ctx.note(f"gen_tie[{name}]: re-proved in {time.time() - t0:.0f} s")
            return "reproved"
        errs = [l for l in log.splitlines() if "error" in l][:6]
        ctx.count(f"gen_tie[{name}]: regenerated model differs, bridge theorem {theorem} NOT re-proved")
        ctx.point(f"gen_tie/{name}", "aux", "bridge proof fails for the regenerated definition", "bridge proof holds",
                  case if case is not None else {"gen_tie": name}, exact=True, sig=f"gen_tie/{name}/{theorem}", theorem=theorem)
        ctx.note(f"gen_tie[{name}]: lake build QV.GenBridge.{name} failed on the regenerated file: {' | '.join(errs)[:600]}")
        return "broken"
    finally:
        shutil.rmtree(scratch, ignore_errors=True)
