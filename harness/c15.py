"""C15 — correspondence of the complex-tensor kernel model (QV.Model.Cplx) with qucumber/utils/cplx.py,
plus the property oracle (numpy complex128 arithmetic on the decoded operands) evaluated on the implementation.

EXACT tier: small Gaussian integers (float64/float32 arithmetic is exact), model over Int, compared exactly.
TOLERANCE tier: Float model for division / inverse / abs / norm / sigmoid (and a sample of the ring operations).
MALFORMED stream: shape mismatches, wrong ranks, aliasing `out=` buffers: error KINDS compared exactly.
"""
import itertools

import numpy as np

from . import qc  # noqa: F401  (sets up sys.path / stubs)
from .common import bits, unbits
from .qc import torch

from qucumber.utils import cplx  # noqa: E402

FILES = ["qucumber/utils/cplx.py"]
RULE = ("case = (function, operand shapes incl. the leading complex axis, operand values, dtype tags, out= mode, einsum equation + flags). "
        "Exact tier: entries are Gaussian integers with parts in [-4,4]; tensor ranks 0-4, axis lengths 1-3, broadcast partners derived from the "
        "base shape (suffix, size-1 axes, scalar), out in {None, fresh, fresh float32, x, y, wrong-shaped}, the library constant cplx.I (float32) as x or y. "
        "Tolerance tier: N(0,1)*scale entries. Malformed stream: non-broadcastable pairs, wrong ranks, contraction mismatches, bad equations, "
        "0-d / short leading axis. non-trivial iff every complex operand has an entry with non-zero real AND imaginary part (so a sign or "
        "conjugation error changes the result) and the call is not a pure error case; distinct by hash of the whole case")
THEOREMS = {
    "make_complex": "C15_make_complex, C15_make_complex_none, C15_rejects_make_complex",
    "make_complex_np": "C15_ofNdarray_numpy",
    "real": "C15_real_imag, C15_rejects_real_imag", "imag": "C15_real_imag, C15_rejects_real_imag",
    "numpy": "C15_numpy, C15_ofNdarray_numpy",
    "scalar_mult": "C15_scalar_mult, C15_scalar_mult_complex, C15_scalar_mult_out, C15_scalar_mult_out_sound, C15_toLike, "
                   "C15_rejects_scalar_mult_alias, C15_scalar_mult_alias_iff, C15_rejects_scalar_mult_out_shape, "
                   "C15_rejects_scalar_mult_shape, C15_broadcast_shape, C15_broadcast_index",
    "elementwise_mult": "C15_elementwise_mult, C15_scalar_mult, C15_rejects_scalar_mult_shape",
    "matmul": "C15_matmul_mat_mat, C15_matmul_mat_vec, C15_matmul_vec_mat, C15_matmul_vec_vec, C15_matmul_batched, "
              "C15_matmul_batched_mat_vec, C15_matmul_is_matrix_product, C15_matmul_is_mulVec, C15_rejects_matmul",
    "inner_prod": "C15_inner_prod_vec, C15_inner_prod_scalar, C15_inner_prod_is_star_dot, C15_rejects_inner_prod",
    "outer_prod": "C15_outer_prod, C15_outer_prod_is_vecMulVec, C15_rejects_outer_prod",
    "einsum": "C15_einsum, C15_einsum_complex, C15_einsum_real_part, C15_einsum_imag_part, C15_einsum_flags, C15_einsum_reads_valid, "
              "C15_allIdx_spec, C15_sumLabels_spec, C15_einsum_ib_ibg, C15_rejects_einsum",
    "conjugate": "C15_conjugate_low_rank, C15_conjugate_transpose, C15_conjugate_is_conjTranspose",
    "conj": "C15_conj",
    "kronecker_prod": "C15_kronecker_prod, C15_kronecker_is_kronecker, C15_rejects_kronecker_prod",
    "norm_sqr": "C15_norm_sqr",
    "elementwise_division": "C15_elementwise_division, C15_rejects_elementwise_division",
    "absolute_value": "C15_absolute_value",
    "sigmoid": "C15_sigmoid, C15_rejects_sigmoid",
    "scalar_divide": "C15_scalar_divide",
    "inverse": "C15_inverse",
    "norm": "C15_norm",
}
REQUIRED_THEOREMS = sorted({t.strip() for v in THEOREMS.values() for t in v.split(",")} | {"C15_dec_ops", "C15_dec_sums"})
EXTRA_TRUSTED = [
    "C15: object identity and dtype of torch tensors are modelled by tags (Obj.id, Obj.dtype); the harness assigns the tags from Python `is`",
]
RING_FNS = ["make_complex", "make_complex_np", "real", "imag", "numpy", "scalar_mult", "elementwise_mult", "matmul", "inner_prod",
            "outer_prod", "einsum", "conjugate", "conj", "kronecker_prod", "norm_sqr"]
FIELD_FNS = ["elementwise_division", "absolute_value", "sigmoid", "scalar_divide", "inverse", "norm"]

ID_X, ID_Y, ID_OUT, ID_CAST, ID_NEW = 1, 2, 3, 4, 5


# ------------------------------------------------------------------ tensors in cases
def T(shape, data, dtype="f64"):
    return {"shape": list(shape), "data": [float(v) for v in data], "dtype": dtype}


def numel(shape):
    n = 1
    for d in shape:
        n *= d
    return n


def to_np(t):
    return np.asarray(t["data"], dtype=np.float64).reshape(t["shape"])


def to_torch(t):
    return torch.tensor(to_np(t), dtype=torch.float32 if t["dtype"] == "f32" else torch.double)


def decode(t):
    """complex ndarray denoted by a real-pair tensor (independent of cplx.numpy)"""
    a = to_np(t)
    return a[0] + 1j * a[1]


def canon(r):
    """canonical form of an implementation return value"""
    if r is None:
        return {"kind": "none"}
    if isinstance(r, (np.ndarray, np.generic)):  # cplx.numpy of a complex scalar gives a numpy scalar
        r = np.asarray(r)
        return {"shape": list(r.shape), "re": np.real(r).astype(np.float64).ravel().tolist(),
                "im": np.imag(r).astype(np.float64).ravel().tolist()}
    return {"shape": list(r.shape), "data": r.detach().double().contiguous().view(-1).tolist(),
            "dtype": "f32" if r.dtype == torch.float32 else "f64"}


def rand_vals(rng, n, num, scale=1.0):
    if num == "int":
        return [float(rng.randint(-4, 4)) for _ in range(n)]
    return [rng.gauss(0.0, 1.0) * scale for _ in range(n)]


def rand_cplx(rng, tshape, num, scale=1.0, dtype="f64", ensure=True):
    """complex tensor (leading axis 2) of tensor shape `tshape`; one entry forced to have both parts non-zero"""
    n = numel(tshape)
    d = rand_vals(rng, 2 * n, num, scale)
    if ensure and n > 0:
        k = rng.randrange(n)
        if d[k] == 0:
            d[k] = 1.0 if num == "int" else 0.7
        if d[n + k] == 0:
            d[n + k] = -2.0 if num == "int" else -0.4
    return T([2] + list(tshape), d, dtype)


def rand_real(rng, shape, num, scale=1.0):
    return T(shape, rand_vals(rng, numel(shape), num, scale))


DIMS = [1, 2, 2, 3, 3]  # axis lengths drawn by the generators (the thorough tier adds 4)


def rand_shape(rng, rank=None):
    if rank is None:
        rank = rng.choice([0, 1, 1, 2, 2, 2, 3, 3, 4])
    return [rng.choice(DIMS) for _ in range(rank)]


def bcast_partner(rng, s):
    """a shape that broadcasts with `s` (right-aligned): suffix, size-1 axes, longer prefix, scalar"""
    mode = rng.choice(["same", "suffix", "ones", "scalar", "longer", "mixed"])
    if mode == "same":
        return list(s)
    if mode == "scalar":
        return []
    if mode == "suffix":
        return list(s[rng.randint(0, len(s)):])
    if mode == "ones":
        return [1 if rng.random() < 0.5 else d for d in s]
    if mode == "longer":
        return [rng.choice([1, 2, 3]) for _ in range(rng.randint(1, max(1, 4 - len(s))))] + list(s)
    t = list(s[rng.randint(0, len(s)):])
    return [1 if rng.random() < 0.4 else d for d in t]


def nontrivial_operand(t):
    a = to_np(t)
    if a.ndim < 1 or a.shape[0] < 2:
        return False
    return bool(np.any((a[0] != 0) & (a[1] != 0)))


# ------------------------------------------------------------------ einsum oracle (explicit loops)
def parse_eq(eq):
    lhs, out = eq.split("->")
    a, b = lhs.split(",")
    return a, b, out


def einsum_loops(eq, A, B):
    """independent complex Einstein summation with broadcasting of size-1 axes; returns None when the equation /
    shapes are invalid (torch raises RuntimeError)"""
    a, b, out = parse_eq(eq)
    if len(a) != A.ndim or len(b) != B.ndim:
        return None
    size = {}
    for labs, arr in ((a, A), (b, B)):
        loc = {}
        for l, d in zip(labs, arr.shape):
            if l in loc and loc[l] != d:
                return None
            loc[l] = d
        for l, d in loc.items():
            if l in size and size[l] != d:
                if size[l] == 1:
                    size[l] = d
                elif d != 1:
                    return None
            else:
                size.setdefault(l, d)
    if len(set(out)) != len(out) or any(l not in size for l in out):
        return None
    sum_l = [l for l in dict.fromkeys(a + b) if l not in out]
    res = np.zeros([size[l] for l in out], dtype=np.complex128)
    for oidx in itertools.product(*[range(size[l]) for l in out]):
        env = dict(zip(out, oidx))
        acc = 0j
        for sidx in itertools.product(*[range(size[l]) for l in sum_l]):
            env.update(zip(sum_l, sidx))
            ia = tuple(0 if A.shape[p] == 1 else env[l] for p, l in enumerate(a))
            ib = tuple(0 if B.shape[p] == 1 else env[l] for p, l in enumerate(b))
            acc += A[ia] * B[ib]
        res[oidx] = acc
    return res


# ------------------------------------------------------------------ the property oracle
def np_broadcast(sa, sb):
    try:
        return list(np.broadcast_shapes(tuple(sa), tuple(sb)))
    except ValueError:
        return None


def oracle_value(case):
    """what native complex arithmetic gives on the decoded operands, or ('err', kind) when the call must be rejected,
    or None when this oracle has no opinion (only for the unsupported-but-accepted corner noted below).
    Value: ('c', complex ndarray) | ('r', real ndarray) | ('none',)"""
    fn = case["fn"]
    x, y = case.get("x"), case.get("y")
    sx = x["shape"] if x else None
    sy = y["shape"] if y else None

    def cplx_ok(s, need=2):
        return len(s) >= 1 and s[0] >= need

    if fn == "make_complex":
        if y is None:
            return ("c", to_np(x) + 0j)
        if sx != sy:
            return ("err", "RuntimeError")
        return ("c", to_np(x) + 1j * to_np(y))
    if fn == "make_complex_np":
        return ("c", np.asarray(case["re"]).reshape(case["shape"]) + 1j * np.asarray(case["im"]).reshape(case["shape"]))
    if fn in ("real", "imag", "numpy"):
        need = 1 if fn == "real" else 2
        if not cplx_ok(sx, need):
            return ("err", "IndexError")
        a = to_np(x)
        if fn == "real":
            return ("r", a[0])
        return ("r", a[1]) if fn == "imag" else ("c", a[0] + 1j * a[1])
    # from here on operands are complex tensors; malformed leading axes are not generated except for the accessors
    if fn in ("scalar_mult", "elementwise_mult"):
        if fn == "scalar_mult" and case.get("out") in ("x", "y"):
            # `out is x or out is y` is tested on the caller's objects, before y = y.to(x): whatever the dtypes
            return ("err", "RuntimeError")
        rs = np_broadcast(sx[1:], sy[1:])
        if rs is None:
            return ("err", "RuntimeError")
        if fn == "scalar_mult" and case.get("out") == "shape" and list(case["out_shape"]) != [2] + rs:
            return ("err", "ValueError")
        return ("c", decode(x) * decode(y))
    if fn == "matmul":
        if len(sx) < 2 or len(sy) < 2:
            return ("err", "RuntimeError")
        try:
            return ("c", np.asarray(np.matmul(decode(x), decode(y))))
        except ValueError:
            return ("err", "RuntimeError")
    if fn == "inner_prod":
        if len(sx) == 2 and len(sy) == 2:
            if sx[1] != sy[1]:
                return ("err", "RuntimeError")
            return ("c", np.asarray(np.sum(np.conj(decode(x)) * decode(y))))
        if len(sx) == 1 and len(sy) == 1:
            return ("c", np.asarray(np.conj(decode(x)) * decode(y)))
        return ("err", "ValueError")
    if fn == "outer_prod":
        if len(sx) != 2 or len(sy) != 2:
            return ("err", "ValueError")
        dx, dy = decode(x), decode(y)
        return ("c", dx[:, None] * np.conj(dy)[None, :])
    if fn == "einsum":
        rp, ip = case["rp"], case["ip"]
        if not rp and not ip:
            return ("none",)
        r = einsum_loops(case["eq"], decode(x), decode(y))
        if r is None:
            return ("err", "RuntimeError")
        if rp and ip:
            return ("c", r)
        return ("r", np.real(r) if rp else np.imag(r))
    if fn == "conj":
        return ("c", np.conj(decode(x)))
    if fn == "conjugate":
        d = decode(x)
        return ("c", np.conj(d) if d.ndim < 2 else np.conj(np.swapaxes(d, 0, 1)))
    if fn == "kronecker_prod":
        if not (len(sx) == 3 and len(sy) == 3):
            return ("err", "ValueError")
        return ("c", np.kron(decode(x), decode(y)))
    if fn == "norm_sqr" or fn == "norm":
        if len(sx) not in (1, 2):
            return ("err", "ValueError")
        d = decode(x)
        v = np.sum(d.real * d.real + d.imag * d.imag)
        return ("r", np.asarray(v if fn == "norm_sqr" else np.sqrt(v)))
    if fn == "elementwise_division":
        if sx != sy:
            return ("err", "ValueError")
        return ("c", decode(x) / decode(y))
    if fn == "absolute_value":
        return ("r", np.abs(decode(x)))
    if fn == "inverse":
        return ("c", 1.0 / decode(x))
    if fn == "scalar_divide":
        if np_broadcast(sx[1:], sy[1:]) is None:
            return ("err", "RuntimeError")
        return ("c", decode(x) / decode(y))
    if fn == "sigmoid":
        if np_broadcast(sx, sy) is None:
            return ("err", "ValueError")
        z = to_np(x) + 1j * to_np(y)
        return ("c", 1.0 / (1.0 + np.exp(-z)))
    raise ValueError(fn)


# ------------------------------------------------------------------ running the implementation
I_PRISTINE = cplx.I.clone()


def run_impl(case):
    """returns (canonical result | {'error': kind}, extra) where extra carries identity information"""
    res, extra = _run_impl(case)
    if case.get("useI"):
        # the library constant must never be written; restore it so that one failure cannot contaminate later cases
        extra["I_intact"] = bool(torch.equal(cplx.I, I_PRISTINE))
        cplx.I.copy_(I_PRISTINE)
    return res, extra


def _run_impl(case):
    fn = case["fn"]
    extra = {}
    try:
        if fn == "make_complex_np":
            z = np.asarray(case["re"], dtype=np.float64).reshape(case["shape"]) + 1j * np.asarray(case["im"], dtype=np.float64).reshape(case["shape"])
            if case.get("np_real"):
                z = np.asarray(case["re"], dtype=np.float64).reshape(case["shape"])
            return canon(cplx.make_complex(np.asarray(z))), extra
        use_i = case.get("useI")
        x = cplx.I if use_i == "x" else to_torch(case["x"])
        if case.get("same"):
            y = x
        elif use_i == "y":
            y = cplx.I
        else:
            y = to_torch(case["y"]) if case.get("y") is not None else None
        if fn == "make_complex":
            r = cplx.make_complex(x, y)
        elif fn == "scalar_mult":
            mode = case.get("out")
            out = None
            if mode == "x":
                out = x
            elif mode == "y":
                out = y
            elif mode in ("fresh", "fresh32"):
                os_ = [2] + np_broadcast(case["x"]["shape"][1:], case["y"]["shape"][1:])
                out = torch.full(os_, 7.0, dtype=torch.float32 if mode == "fresh32" else torch.double)
            elif mode == "shape":
                out = torch.full(case["out_shape"], 7.0, dtype=torch.float32 if case.get("out_dtype") == "f32" else torch.double)
            keep = out.clone() if mode == "shape" else None
            try:
                r = cplx.scalar_mult(x, y, out=out)
            finally:
                # a rejected buffer must not have been written
                extra["out_untouched"] = None if keep is None else bool(torch.equal(keep, out) and list(out.shape) == list(keep.shape))
            extra["id"] = ID_OUT if (mode in ("fresh", "fresh32", "shape") and r is out) else (
                ID_X if r is x else (ID_Y if r is y else ID_NEW))
        elif fn == "einsum":
            r = cplx.einsum(case["eq"], x, y, real_part=case["rp"], imag_part=case["ip"])
        elif fn in ("real", "imag", "numpy", "conjugate", "conj", "norm_sqr", "absolute_value", "inverse", "norm"):
            r = getattr(cplx, fn)(x)
        else:
            r = getattr(cplx, fn)(x, y)
        return canon(r), extra
    except Exception as e:  # the error KIND is an observable of the property
        return {"error": type(e).__name__}, extra


def eq_to_json(eq):
    a, b, out = parse_eq(eq)
    return {"a": [ord(c) for c in a], "b": [ord(c) for c in b], "out": [ord(c) for c in out]}


def run_model(ctx, case):
    fn, num = case["fn"], case["num"]

    def enc(vals):
        return [int(v) for v in vals] if num == "int" else bits(vals)

    def tj(t, tid=None):
        d = {"shape": t["shape"], "data": enc(t["data"])}
        if tid is not None:
            d["id"] = tid
            d["dtype"] = t["dtype"]
        return d

    req = {"fn": fn, "num": num}
    if fn == "make_complex_np":
        req.update(shape=case["shape"], re=enc(case["re"]), im=enc(case["im"]))
    elif fn == "scalar_mult":
        req["x"] = tj(case["x"], ID_X)
        req["y"] = tj(case["x"], ID_X) if case.get("same") else tj(case["y"], ID_Y)
        mode = case.get("out")
        if mode == "x":
            req["out"] = req["x"]
        elif mode == "y":
            req["out"] = req["y"]
        elif mode in ("fresh", "fresh32"):
            os_ = [2] + np_broadcast(case["x"]["shape"][1:], case["y"]["shape"][1:])
            req["out"] = tj(T(os_, [7.0] * numel(os_), "f32" if mode == "fresh32" else "f64"), ID_OUT)
        elif mode == "shape":
            os_ = case["out_shape"]
            req["out"] = tj(T(os_, [7.0] * numel(os_), case.get("out_dtype", "f64")), ID_OUT)
        req["fresh_cast"] = ID_CAST
        req["fresh_out"] = ID_NEW
    else:
        req["x"] = tj(case["x"])
        if case.get("same"):
            req["y"] = tj(case["x"])
        elif case.get("y") is not None:
            req["y"] = tj(case["y"])
        if fn == "einsum":
            req.update(eq=eq_to_json(case["eq"]), real_part=case["rp"], imag_part=case["ip"])
    r = ctx.driver.call("c15.op", **req)

    def dec(vals):
        return [float(v) for v in vals] if num == "int" else unbits(vals).tolist()

    if "error" in r:
        return {"error": r["error"]}, {}
    if r.get("kind") == "none":
        return {"kind": "none"}, {}
    if "kind" in r:
        r = r["t"]
    if "re" in r:
        return {"shape": r["shape"], "re": dec(r["re"]), "im": dec(r["im"])}, {}
    out = {"shape": r["shape"], "data": dec(r["data"])}
    extra = {}
    if "id" in r:
        extra["id"] = r["id"]
        out["dtype"] = r["dtype"]
    return out, extra


def result_dtype_expected(case):
    """dtype of the returned tensor as the kernel defines it (`y.to(x)`: x's dtype; out= keeps the buffer's dtype)"""
    if case["fn"] == "scalar_mult" and case.get("out") in ("fresh", "fresh32"):
        return "f32" if case["out"] == "fresh32" else "f64"
    if case["fn"] == "scalar_mult" and case.get("out") == "shape":
        return case.get("out_dtype", "f64")
    return case["x"]["dtype"]


def flat_of(res):
    if "data" in res:
        return res["data"]
    if "re" in res:
        return list(res["re"]) + list(res["im"])
    return []


def one_case(ctx, case):
    fn, num = case["fn"], case["num"]
    exact = num == "int"
    impl, iextra = run_impl(case)
    is_err = "error" in impl
    ops = [case[k] for k in ("x", "y") if case.get(k) is not None and fn not in ("make_complex", "sigmoid")]
    nontriv = (not is_err) and all(nontrivial_operand(t) for t in ops)
    ctx.case(case, nontrivial=nontriv, sample={"fn": fn, "num": num, "x": (case.get("x") or {}).get("shape"),
                                              "y": (case.get("y") or {}).get("shape"), "eq": case.get("eq"), "out": case.get("out"),
                                              "result": impl.get("error", impl.get("shape", impl.get("kind")))})
    ctx.count(f"fn={fn}")
    ctx.count(f"tier={'exact' if exact else 'tolerance'}")
    ctx.count("outcome=" + (impl["error"] if is_err else "value"))
    if is_err:
        ctx.count(f"error[{fn}]={impl['error']}")
    if case.get("x") is not None:
        ctx.count(f"rank_x={len(case['x']['shape'])}")
    if case.get("out"):
        ctx.count(f"out={case['out']}")
    if case.get("useI") or (case.get("x") or {}).get("dtype") == "f32" or (case.get("y") or {}).get("dtype") == "f32":
        ctx.count("float32_operand")
    sig = f"{fn}/{'err' if is_err else 'value'}"
    th = THEOREMS.get(fn)
    scale = 1.0 + max([abs(v) for v in flat_of(impl)] + [0.0]) if not is_err else 1.0

    # ---------------- correspondence with the Lean model
    if ctx.driver is not None:
        model, mextra = run_model(ctx, case)
        i_struct = {k: impl.get(k) for k in ("error", "shape", "kind")}
        m_struct = {k: model.get(k) for k in ("error", "shape", "kind")}
        if fn == "scalar_mult":
            i_struct["dtype"] = impl.get("dtype")
            m_struct["dtype"] = model.get("dtype")
            i_struct["id"] = iextra.get("id")
            m_struct["id"] = mextra.get("id")
        ctx.point(f"{fn}.kind_shape", "property", i_struct, m_struct, case, exact=True, theorem=th, sig=sig + "/shape")
        if not is_err and "error" not in model and impl.get("kind") != "none":
            if exact:
                ctx.point(f"{fn}.value", "property", flat_of(impl), flat_of(model), case, exact=True, theorem=th, sig=sig)
            else:
                ctx.point(f"{fn}.value", "property", flat_of(impl), flat_of(model), case, scale=scale, theorem=th, sig=sig)

    # ---------------- the property itself on the implementation
    want = oracle_value(case)
    if iextra.get("I_intact") is not None:
        ctx.oracle("cplx.I not overwritten", iextra["I_intact"], case, sig=f"{fn}/cplx.I-intact", theorem="C15_rejects_scalar_mult_alias")
    if iextra.get("out_untouched") is not None and is_err:
        ctx.oracle(f"{fn} rejected out= buffer not written", iextra["out_untouched"], case, sig=f"{fn}/out-untouched",
                   theorem="C15_rejects_scalar_mult_out_shape")
    if want[0] == "err":
        ctx.oracle(f"{fn} rejects", is_err and impl["error"] == want[1], case,
                   detail={"impl": impl if is_err else {"shape": impl.get("shape")}, "expected_error": want[1]},
                   sig=f"{fn}/rejects", theorem=th)
        return
    if want[0] == "none":
        ctx.oracle(f"{fn} none", impl.get("kind") == "none", case, detail={"impl": impl}, sig=f"{fn}/none", theorem=th)
        return
    if is_err:
        ctx.oracle(f"{fn} accepts", False, case, detail={"impl": impl, "expected_shape": list(want[1].shape)}, sig=f"{fn}/accepts", theorem=th)
        return
    arr = np.asarray(want[1])
    if "re" in impl:  # ndarray result of cplx.numpy
        got_shape = impl["shape"]
        got = np.asarray(impl["re"]).reshape(got_shape) + 1j * np.asarray(impl["im"]).reshape(got_shape)
    elif want[0] == "c":
        got_shape = impl["shape"][1:]
        a = np.asarray(impl["data"]).reshape(impl["shape"]) if impl["shape"] and impl["shape"][0] == 2 else None
        got = None if a is None else a[0] + 1j * a[1]
    else:
        got_shape = impl["shape"]
        got = np.asarray(impl["data"]).reshape(got_shape)
    ok = got is not None and list(got_shape) == list(arr.shape)
    detail = None
    if ok:
        if exact:
            ok = bool(np.array_equal(got, arr))
        else:
            sc = 1.0 + float(np.max(np.abs(arr))) if arr.size else 1.0
            ok = bool(np.all(np.abs(got - arr) <= 1e-9 * sc + 1e-6 * np.abs(arr)))
    if not ok:
        detail = {"impl_shape": impl.get("shape"), "expected_shape": list(arr.shape),
                  "impl": str(np.asarray(got).ravel()[:16].tolist()) if got is not None else None, "expected": str(arr.ravel()[:16].tolist())}
    ctx.oracle(f"{fn} == complex arithmetic", ok, case, detail=detail, sig=f"{fn}/oracle", theorem=th)
    if "dtype" in impl and fn in ("scalar_mult", "elementwise_mult", "matmul", "inner_prod"):
        ctx.oracle(f"{fn} dtype", impl["dtype"] == result_dtype_expected(case), case,
                   detail={"impl": impl["dtype"], "expected": result_dtype_expected(case)}, sig=f"{fn}/dtype")


# ------------------------------------------------------------------ generators
I_T = T([2], [0.0, 1.0], "f32")

LIB_EQS = ["ib,ibg->bg", "b,bg->g", "ijb,ijbg->bg", "ab,cd->acbd"]
MORE_EQS = ["ij,jk->ik", "ab,ab->", "a,b->ba", "ab,b->a", "abc,cd->abd", "ii,i->i", "ab,ba->", ",a->a", "a,->a", ",->",
            "ab,ab->ab", "abc,abd->cd", "ab,c->cab", "aab,b->a", "ij,ij->j", "abcd,cd->ab", "ab,bcd->acd"]


def rand_equation(rng):
    labels = "abcde"[: rng.randint(1, 4)]
    size = {l: rng.choice([1, 2, 2, 3]) for l in labels}
    a = "".join(rng.choice(labels) for _ in range(rng.randint(0, 3)))
    b = "".join(rng.choice(labels) for _ in range(rng.randint(0, 3)))
    used = list(dict.fromkeys(a + b))
    rng.shuffle(used)
    out = "".join(used[: rng.randint(0, len(used))])
    return f"{a},{b}->{out}", size


def shapes_for(eq, size, rng, bcast=False):
    a, b, _ = parse_eq(eq)
    sa = [size[l] for l in a]
    sb = [size[l] for l in b]
    if bcast:
        # turn one axis of one operand into a size-1 axis when its label is not repeated inside that operand
        cands = [(0, p) for p, l in enumerate(a) if a.count(l) == 1 and l in b and size[l] > 1] + \
                [(1, p) for p, l in enumerate(b) if b.count(l) == 1 and l in a and size[l] > 1]
        if cands:
            w, p = rng.choice(cands)
            (sa if w == 0 else sb)[p] = 1
    return sa, sb


def eq_sizes(eq, rng):
    a, b, out = parse_eq(eq)
    return {l: rng.choice([1, 2, 2, 3, 3]) for l in sorted(set(a + b + out))}


def gen_exact(ctx, n_scale):
    rng = ctx.rng
    num = "int"
    R = lambda k: range(max(1, int(k * n_scale)))  # noqa: E731

    # construction and conversion
    for _ in R(120):
        s = rand_shape(rng)
        mode = rng.choice(["xy", "xy", "none", "np", "np_real"])
        if mode == "xy":
            yield {"fn": "make_complex", "num": num, "x": rand_real(rng, s, num), "y": rand_real(rng, s, num)}
        elif mode == "none":
            yield {"fn": "make_complex", "num": num, "x": rand_real(rng, s, num), "y": None}
        else:
            n = numel(s)
            yield {"fn": "make_complex_np", "num": num, "shape": s, "re": rand_vals(rng, n, num),
                   "im": [0.0] * n if mode == "np_real" else rand_vals(rng, n, num), "np_real": mode == "np_real"}
    for _ in R(150):
        s = rand_shape(rng)
        yield {"fn": rng.choice(["real", "imag", "numpy"]), "num": num, "x": rand_cplx(rng, s, num)}
    # scalar / elementwise products: broadcasting, out=, dtypes
    for _ in R(700):
        s = rand_shape(rng)
        t = bcast_partner(rng, s)
        if rng.random() < 0.5:
            s, t = t, s
        x, y = rand_cplx(rng, s, num), rand_cplx(rng, t, num)
        r = rng.random()
        case = {"fn": "scalar_mult", "num": num, "x": x, "y": y, "out": None}
        if r < 0.25:
            case["fn"] = "elementwise_mult"
        elif r < 0.45:
            case["out"] = "fresh"
        elif r < 0.5:
            case["out"] = "fresh32"
        elif r < 0.6:
            # mixed dtypes: the operand of the other dtype is replaced by a cast copy inside the kernel
            (x if rng.random() < 0.5 else y)["dtype"] = "f32"
            case["out"] = rng.choice([None, "fresh", "fresh32"])
        elif r < 0.68:
            case["same"] = True
            case["y"] = x
        yield case
    # the library's own float32 constant cplx.I
    for _ in R(80):
        s = rand_shape(rng)
        z = rand_cplx(rng, s, num)
        if rng.random() < 0.7:
            yield {"fn": rng.choice(["scalar_mult", "elementwise_mult"]), "num": num, "x": z, "y": dict(I_T), "useI": "y", "out": None}
        else:
            yield {"fn": "scalar_mult", "num": num, "x": dict(I_T), "y": z, "useI": "x", "out": None}
    for _ in R(20):
        z = rand_cplx(rng, [], num)
        yield {"fn": "inner_prod", "num": num, "x": z, "y": dict(I_T), "useI": "y"}
    # matmul
    for _ in R(420):
        m, k, p = rng.randint(1, 3), rng.randint(1, 3), rng.randint(1, 3)
        b1, b2 = rng.randint(1, 3), rng.randint(1, 2)
        form = rng.choice(["mm", "mm", "mv", "mv", "vm", "vv", "bmm", "bmm1", "bm_m", "m_bm", "v_bm", "bm_v", "b2"])
        sx, sy = {
            "mm": ([m, k], [k, p]), "mv": ([m, k], [k]), "vm": ([k], [k, p]), "vv": ([k], [k]),
            "bmm": ([b1, m, k], [b1, k, p]), "bmm1": ([b1, m, k], [1, k, p]), "bm_m": ([b1, m, k], [k, p]),
            "m_bm": ([m, k], [b1, k, p]), "v_bm": ([k], [b1, k, p]), "bm_v": ([b1, m, k], [k]),
            "b2": ([b2, 1, m, k], [b1, k, p]),
        }[form]
        ctx.count(f"matmul_form={form}")
        yield {"fn": "matmul", "num": num, "x": rand_cplx(rng, sx, num), "y": rand_cplx(rng, sy, num)}
    # inner / outer / norm_sqr
    for _ in R(260):
        n, m = rng.randint(1, 4), rng.randint(1, 4)
        r = rng.random()
        if r < 0.4:
            yield {"fn": "inner_prod", "num": num, "x": rand_cplx(rng, [n], num), "y": rand_cplx(rng, [n], num)}
        elif r < 0.5:
            yield {"fn": "inner_prod", "num": num, "x": rand_cplx(rng, [], num), "y": rand_cplx(rng, [], num)}
        elif r < 0.85:
            yield {"fn": "outer_prod", "num": num, "x": rand_cplx(rng, [n], num), "y": rand_cplx(rng, [m], num)}
        else:
            yield {"fn": "norm_sqr", "num": num, "x": rand_cplx(rng, rng.choice([[], [n]]), num)}
    # einsum
    for _ in R(560):
        r = rng.random()
        if r < 0.35:
            eq = rng.choice(LIB_EQS)
            size = eq_sizes(eq, rng)
        elif r < 0.6:
            eq = rng.choice(MORE_EQS)
            size = eq_sizes(eq, rng)
        else:
            eq, size = rand_equation(rng)
        sa, sb = shapes_for(eq, size, rng, bcast=rng.random() < 0.2)
        rp, ip = rng.choice([(True, True), (True, True), (True, False), (False, True), (False, False)])
        ctx.count(f"einsum_flags={int(rp)}{int(ip)}")
        yield {"fn": "einsum", "num": num, "eq": eq, "x": rand_cplx(rng, sa, num), "y": rand_cplx(rng, sb, num), "rp": rp, "ip": ip}
    # conjugation
    for _ in R(260):
        s = rand_shape(rng)
        if len(s) >= 2 and rng.random() < 0.7 and s[0] == s[1]:
            s[1] = s[0] % 3 + 1  # prefer non-square leading axes
        yield {"fn": rng.choice(["conjugate", "conjugate", "conj"]), "num": num, "x": rand_cplx(rng, s, num)}
    # Kronecker product, non-square
    for _ in R(220):
        sx = [rng.randint(1, 3), rng.randint(1, 3)]
        sy = [rng.randint(1, 3), rng.randint(1, 3)]
        yield {"fn": "kronecker_prod", "num": num, "x": rand_cplx(rng, sx, num), "y": rand_cplx(rng, sy, num)}


def gen_tolerance(ctx, n_scale):
    rng = ctx.rng
    num = "float"
    R = lambda k: range(max(1, int(k * n_scale)))  # noqa: E731
    for _ in R(330):
        s = rand_shape(rng)
        sc = rng.choice([0.1, 1.0, 1.0, 10.0])
        fn = rng.choice(FIELD_FNS)
        if fn == "elementwise_division":
            yield {"fn": fn, "num": num, "x": rand_cplx(rng, s, num, sc), "y": rand_cplx(rng, s, num, sc)}
        elif fn in ("absolute_value", "inverse"):
            yield {"fn": fn, "num": num, "x": rand_cplx(rng, s, num, sc)}
        elif fn == "norm":
            yield {"fn": fn, "num": num, "x": rand_cplx(rng, rng.choice([[], [rng.randint(1, 4)]]), num, sc)}
        elif fn == "scalar_divide":
            t = bcast_partner(rng, s)
            yield {"fn": fn, "num": num, "x": rand_cplx(rng, s, num, sc), "y": rand_cplx(rng, t, num, sc)}
        else:
            t = bcast_partner(rng, s) if rng.random() < 0.3 else list(s)
            yield {"fn": fn, "num": num, "x": rand_real(rng, s, num, min(sc, 3.0)), "y": rand_real(rng, t, num, sc)}
    # the Float instantiation of the ring operations
    for _ in R(120):
        fn = rng.choice(["scalar_mult", "matmul", "inner_prod", "outer_prod", "einsum", "conjugate", "kronecker_prod", "norm_sqr"])
        n, m, k = rng.randint(1, 3), rng.randint(1, 3), rng.randint(1, 3)
        if fn == "scalar_mult":
            s = rand_shape(rng)
            yield {"fn": fn, "num": num, "x": rand_cplx(rng, s, num), "y": rand_cplx(rng, bcast_partner(rng, s), num), "out": None}
        elif fn == "matmul":
            yield {"fn": fn, "num": num, "x": rand_cplx(rng, [n, k], num), "y": rand_cplx(rng, rng.choice([[k, m], [k]]), num)}
        elif fn == "inner_prod":
            yield {"fn": fn, "num": num, "x": rand_cplx(rng, [n], num), "y": rand_cplx(rng, [n], num)}
        elif fn == "outer_prod":
            yield {"fn": fn, "num": num, "x": rand_cplx(rng, [n], num), "y": rand_cplx(rng, [m], num)}
        elif fn == "einsum":
            eq = rng.choice(LIB_EQS)
            size = eq_sizes(eq, rng)
            sa, sb = shapes_for(eq, size, rng)
            yield {"fn": fn, "num": num, "eq": eq, "x": rand_cplx(rng, sa, num), "y": rand_cplx(rng, sb, num), "rp": True, "ip": rng.random() < 0.6}
        elif fn == "conjugate":
            yield {"fn": fn, "num": num, "x": rand_cplx(rng, rand_shape(rng), num)}
        elif fn == "kronecker_prod":
            yield {"fn": fn, "num": num, "x": rand_cplx(rng, [n, k], num), "y": rand_cplx(rng, [m, n], num)}
        else:
            yield {"fn": fn, "num": num, "x": rand_cplx(rng, [n], num)}


def gen_malformed(ctx, n_scale):
    rng = ctx.rng
    num = "int"
    R = lambda k: range(max(1, int(k * n_scale)))  # noqa: E731

    def clash(s):
        """a shape that does NOT broadcast with s (s must contain an axis; its last axis is changed to a different length > 1)"""
        t = list(s)
        t[-1] = t[-1] % 3 + 2 if t[-1] != 1 else 1
        if t[-1] == s[-1] or 1 in (t[-1], s[-1]):
            t[-1], s[-1] = 2, 3
        return t

    for _ in R(60):
        s = rand_shape(rng, rank=rng.randint(1, 4))
        t = clash(s)
        if rng.random() < 0.3:
            t = [2] + t
        yield {"fn": rng.choice(["scalar_mult", "elementwise_mult"]), "num": num, "x": rand_cplx(rng, s, num), "y": rand_cplx(rng, t, num), "out": None}
    for _ in R(90):
        # aliasing output buffers
        s = rand_shape(rng)
        x = rand_cplx(rng, s, num)
        mode = rng.choice(["x", "y", "same_x", "y_f32", "x_f32", "y_is_f32"])
        if mode == "same_x":
            yield {"fn": "scalar_mult", "num": num, "x": x, "y": x, "same": True, "out": "x"}
        elif mode == "y_f32":
            # x float32, y float64, out = y: must be rejected although `y.to(x)` makes a copy (defect fixed by b571e19)
            x["dtype"] = "f32"
            yield {"fn": "scalar_mult", "num": num, "x": x, "y": rand_cplx(rng, s, num), "out": "y"}
        elif mode == "x_f32":
            x["dtype"] = "f32"
            yield {"fn": "scalar_mult", "num": num, "x": x, "y": rand_cplx(rng, s, num), "out": "x"}
        elif mode == "y_is_f32":
            # x float64, y float32, out = y (the float32 buffer): rejected as well
            yield {"fn": "scalar_mult", "num": num, "x": x, "y": rand_cplx(rng, s, num, dtype="f32"), "out": "y"}
        else:
            yield {"fn": "scalar_mult", "num": num, "x": x, "y": rand_cplx(rng, s, num), "out": mode}
    for _ in R(40):
        # the library constant as an aliasing buffer: scalar_mult(z, cplx.I, out=cplx.I) must not overwrite it
        z = rand_cplx(rng, rng.choice([[], [], [2], [1]]), num)
        if rng.random() < 0.6:
            yield {"fn": "scalar_mult", "num": num, "x": z, "y": dict(I_T), "useI": "y", "out": "y"}
        else:
            yield {"fn": "scalar_mult", "num": num, "x": dict(I_T), "y": z, "useI": "x", "out": "x"}
    for _ in R(160):
        # out= buffers that do not have the shape of the result (fix 89aee63): broadcastable-but-different, larger, smaller,
        # wrong rank, missing complex axis — and a few of exactly the right shape through the same code path
        sx_ = rand_shape(rng)
        sy_ = bcast_partner(rng, sx_)
        if rng.random() < 0.5:
            sx_, sy_ = sy_, sx_
        rs = np_broadcast(sx_, sy_)
        full = [2] + rs
        kind = rng.choice(["ones", "prepend1", "larger", "smaller", "drop_axis", "add_axis", "no_cplx", "operand", "transposed", "right"])
        o = list(full)
        if kind == "ones" and any(d > 1 for d in rs):
            k = rng.choice([i for i, d in enumerate(rs) if d > 1])
            o[1 + k] = 1
        elif kind == "prepend1":
            o = [2, 1] + rs
        elif kind == "larger":
            k = rng.randrange(len(o))
            o[k] += 1
        elif kind == "smaller" and any(d > 1 for d in rs):
            k = rng.choice([i for i, d in enumerate(rs) if d > 1])
            o[1 + k] -= 1
        elif kind == "drop_axis" and rs:
            o = [2] + rs[1:]
        elif kind == "add_axis":
            o = full + [rng.choice([1, 2])]
        elif kind == "no_cplx":
            o = list(rs) if rs else [1]
        elif kind == "operand":
            o = [2] + list(sx_ if sx_ != rs else sy_)
        elif kind == "transposed" and len(rs) >= 2:
            o = [2] + rs[::-1]
        ctx.count(f"out_shape_kind={kind}")
        ctx.count("out_shape=" + ("right" if o == full else "wrong"))
        case = {"fn": "scalar_mult", "num": num, "x": rand_cplx(rng, sx_, num), "y": rand_cplx(rng, sy_, num), "out": "shape",
                "out_shape": o, "out_dtype": rng.choice(["f64", "f64", "f32"])}
        if rng.random() < 0.2:
            (case["x"] if rng.random() < 0.5 else case["y"])["dtype"] = "f32"
        yield case
    for _ in R(40):
        s = rand_shape(rng, rank=rng.randint(1, 3))
        t = clash(s) if rng.random() < 0.6 else s[1:] + [s[0]] + [2]
        yield {"fn": "make_complex", "num": num, "x": rand_real(rng, s, num), "y": rand_real(rng, t, num)}
    for _ in R(40):
        # accessors on tensors that are not complex tensors: 0-d, leading axis 1; leading axis 3 is accepted (extra planes ignored)
        s = rng.choice([[], [1], [1, 2], [3], [3, 2], [1, 1, 2]])
        yield {"fn": rng.choice(["real", "imag", "numpy"]), "num": num, "x": rand_real(rng, s, num)}
    for _ in R(110):
        m, k, p = rng.randint(1, 3), rng.randint(2, 3), rng.randint(1, 3)
        form = rng.choice(["mm", "mv", "vv", "s_m", "m_s", "batch", "vm"])
        sx, sy = {"mm": ([m, k], [k + 1, p]), "mv": ([m, k], [k + 1]), "vv": ([k], [k + 1]), "s_m": ([], [k, p]), "m_s": ([m, k], []),
                  "batch": ([2, m, k], [3, k, p]), "vm": ([k], [k + 1, p])}[form]
        yield {"fn": "matmul", "num": num, "x": rand_cplx(rng, sx, num), "y": rand_cplx(rng, sy, num)}
    for _ in R(120):
        n = rng.randint(1, 3)
        fn = rng.choice(["inner_prod", "inner_prod", "outer_prod", "kronecker_prod", "norm_sqr"])
        if fn == "inner_prod":
            sx, sy = rng.choice([([n], [n + 1]), ([n], []), ([], [n]), ([n, 2], [n, 2]), ([n], [n, 1]), ([1, n], [n])])
        elif fn == "outer_prod":
            sx, sy = rng.choice([([], [n]), ([n], []), ([n, 2], [n]), ([n], [2, n]), ([], []), ([1, n], [1, n])])
        elif fn == "kronecker_prod":
            sx, sy = rng.choice([([n], [n]), ([n, 2], [n]), ([n], [n, 2]), ([2, n, 2], [n, 2]), ([], [n, n]), ([2, 2, 2], [2, 2, 2])])
        else:
            sx, sy = rng.choice([[n, 2], [2, n, 2]]), None
        c = {"fn": fn, "num": num, "x": rand_cplx(rng, sx, num)}
        if sy is not None:
            c["y"] = rand_cplx(rng, sy, num)
        yield c
    for _ in R(100):
        # einsum: wrong number of subscripts, clashing lengths, repeated / unknown output label
        kind = rng.choice(["nsub", "clash", "dupout", "unkout", "rep_clash"])
        if kind == "nsub":
            eq, sa, sb = rng.choice([("ab,bc->ac", [2, 2, 2], [2, 2]), ("ab,bc->ac", [2], [2, 2]), ("a,a->a", [2], []), ("ib,ibg->bg", [2, 2], [2, 2])])
        elif kind == "clash":
            eq, sa, sb = rng.choice([("ab,bc->ac", [2, 3], [2, 2]), ("ib,ibg->bg", [2, 3], [2, 2, 2]), ("a,a->", [2], [3]), ("ab,ab->ab", [2, 3], [3, 3])])
        elif kind == "dupout":
            eq, sa, sb = rng.choice([("ab,bc->aa", [2, 2], [2, 2]), ("a,b->abb", [2], [3])])
        elif kind == "unkout":
            eq, sa, sb = rng.choice([("ab,bc->ad", [2, 2], [2, 2]), ("a,b->c", [2], [3])])
        else:
            eq, sa, sb = rng.choice([("aa,a->a", [2, 3], [2]), ("aa,ab->b", [1, 3], [3, 2]), ("a,bb->a", [2], [2, 3])])
        yield {"fn": "einsum", "num": num, "eq": eq, "x": rand_cplx(rng, sa, num), "y": rand_cplx(rng, sb, num),
               "rp": rng.random() < 0.8, "ip": rng.random() < 0.8}
    for _ in R(60):
        s = rand_shape(rng, rank=rng.randint(1, 3))
        t = clash(s) if rng.random() < 0.6 else s + [1]
        fn = rng.choice(["elementwise_division", "elementwise_division", "sigmoid", "scalar_divide"])
        if fn == "sigmoid":
            yield {"fn": fn, "num": "float", "x": rand_real(rng, s, "float"), "y": rand_real(rng, clash(s), "float")}
        elif fn == "scalar_divide":
            yield {"fn": fn, "num": "float", "x": rand_cplx(rng, s, "float"), "y": rand_cplx(rng, clash(s), "float")}
        else:
            # equal-size but differently shaped operands must be rejected too (shape equality, not broadcastability)
            yield {"fn": fn, "num": "float", "x": rand_cplx(rng, s, "float"), "y": rand_cplx(rng, t, "float")}


def gen_all(ctx, n_scale):
    yield from gen_exact(ctx, n_scale)
    yield from gen_tolerance(ctx, n_scale)
    yield from gen_malformed(ctx, n_scale)


def run(ctx):
    global DIMS
    ctx.rule = RULE
    thorough = ctx.tier == "thorough"
    DIMS = [1, 2, 2, 3, 3, 4] if thorough else [1, 2, 2, 3, 3]
    for case in gen_all(ctx, 25.0 if thorough else 1.0):
        one_case(ctx, case)


def search(ctx):
    """larger oracle-only sweep (no model) used when a proof obligation / auxiliary point is broken"""
    drv, ctx.driver = ctx.driver, None
    try:
        for case in gen_all(ctx, 10.0):
            one_case(ctx, case)
    finally:
        ctx.driver = drv


def replay(ctx, case):
    one_case(ctx, case)
