"""C15 — correspondence of the complex-tensor kernel model (QV.Model.Cplx) with qucumber/utils/cplx.py,
plus the property oracle (numpy complex128 arithmetic on the decoded operands) evaluated on the implementation.

EXACT tier: small Gaussian integers (float64/float32 arithmetic is exact), model over Int, compared exactly.
TOLERANCE tier: Float model for division / inverse / abs / norm / sigmoid (and a sample of the ring operations).
MALFORMED stream: shape mismatches, wrong ranks, non-complex operands, aliasing `out=` buffers: compared as REJECTED / ACCEPTED only (the
property says "rejects ... with an error": which exception type is raised is not constrained; the kinds are informational counters
`error[fn]=K`, and the kind-level theorems bind the model only).

Round-2 dimensions (orthogonal to the above, applied with some probability to every case):
LAYOUT   every operand and every `out=` buffer may be a non-contiguous VIEW with the same logical values (permuted axes,
         padded / stepped slices of a larger workspace, a column of a workspace with an extra axis, expanded stride-0 axes,
         non-zero storage offset, several tensors carved out of ONE storage). Values are compared as before; in addition the
         caller's buffer must hold the result afterwards, every other cell of its workspace and all operands must be unchanged.
HISTORY  `prev`: the same tensor OBJECTS are first used for a call with other data, then overwritten in place and used for
         the reported call; the first result is scribbled over before the reported result is read.
RANGE    tolerance tier with saturation / tail arguments of the sigmoid (Re z in [-800, 1000]), moduli 1e-140..1e140, exact zeros;
         comparison per ENTRY relative to the entry's own magnitude (see `entry_scale`), non-finite entries by class.
EXTREME  (audit item C15-1) moduli 1e+-(155..300) for modulus / inverse / division / norm and Re z in (709.78, 1000] for the
         sigmoid: all operands finite, the true result finite and representable. Native complex128 arithmetic (np.abs = hypot,
         Smith division) is exact to rounding there; code that forms |z|^2 or e^z explicitly returns inf / nan / 0. Expected value:
         numpy complex128 on the decoded operands (math.hypot for the norm); signature `<fn>/extreme-range`.
EDGE     (hardening round 4) operands and results AT THE EDGE of the double range, for the same functions: components within a
         factor 4 of the largest double (incl. DBL_MAX itself) / of the smallest normal number, sub-normal operands, the decades
         1e+-(300..308) between EXTREME and the edge, quotients within a factor 4 of overflow (|q| in [MAX/4, MAX/2]) or of
         underflow, sigmoid results from 1e-304 down to the smallest sub-normal (Re z in [-746, -690]). Every operand finite, the
         EXACT result representable. numpy's own complex division overflows there (Smith's algorithm forms c + d*(d/c)), so the
         expected value is exact rational arithmetic on the operands, rounded once (`exact_quotient`; math.hypot for modulus and
         norm, the 40-digit logistic for the sigmoid). Results are compared relative to their own magnitude down to 1e-310
         (`TINY_EDGE`; the general floor `TINY` = 1e-290 would hide a reciprocal that was flushed to 0). Signature `<fn>/edge-of-range`.
"""
import itertools
import math
import os
import sys
from fractions import Fraction

import numpy as np

from . import qc  # noqa: F401  (sets up sys.path / stubs)
from .common import bits, close, unbits
from .qc import torch

from qucumber.utils import cplx  # noqa: E402

FILES = ["qucumber/utils/cplx.py"]
RULE = ("case = (function, operand shapes incl. the leading complex axis, operand values, dtype tags, out= mode, einsum equation + flags). "
        "Exact tier: entries are Gaussian integers with parts in [-4,4]; tensor ranks 0-4, axis lengths 1-3, broadcast partners derived from the "
        "base shape (suffix, size-1 axes, scalar), out in {None, fresh, fresh float32, x, y, wrong-shaped}, the library constant cplx.I (float32) as x or y. "
        "Tolerance tier: N(0,1)*scale entries. Malformed stream: non-broadcastable pairs, wrong ranks, contraction mismatches, bad equations, "
        "0-d / short leading axis. Orthogonal dimensions applied to every case: memory LAYOUT of every operand / out= buffer (permuted, padded, stepped, "
        "column, expanded views; storage offset; one shared storage), storage-sharing out= buffers (views of an operand, overlapping windows), call "
        "HISTORY on the same objects (in-place re-parametrisation, earlier result scribbled), numeric RANGE (sigmoid Re z in [-800,1000], moduli "
        "1e-140..1e140 and, for modulus / inverse / division / norm, 1e+-(155..300) with a representable result; exact zeros; per-entry relative "
        "comparison), EDGE of the double range for the same functions (components in [MAX/4, MAX] incl. DBL_MAX, in [MIN, 4 MIN] incl. the smallest "
        "normal number, sub-normal operands, the decades 1e+-(300..308); divisors with equal / one negligible / one zero component; quotients of "
        "order one, within a factor 4 of overflow (|q| in [MAX/4, MAX/2]) and of underflow; numerator at the edge over an ordinary divisor; sigmoid "
        "with Re z in [-746, -690]; expected value by exact rational arithmetic, results compared relative to their own size down to 1e-310). Einsum equations: explicit, implicit-output and ellipsis forms. Call forms (per-case fseed): einsum real_part / imag_part as every kind of flag object (True/False, 1/0, numpy.bool_, numpy comparison result, 0-dim bool array / tensor), positionally or by keyword in either order or left to the default; out= positionally / by keyword / omitted; make_complex and sigmoid with the second operand by keyword or omitted (y=None). cplx.I as operand of every function that takes a complex scalar. Result dtypes are NOT compared (only: an accepted out= buffer keeps its dtype); exception types are NOT compared (rejected / accepted only). non-trivial iff every complex operand has an entry with non-zero real AND imaginary part (so a sign or "
        "conjugation error changes the result) and the call is not a pure error case; distinct by hash of the whole case")
THEOREMS = {
    "make_complex": "C15_make_complex, C15_make_complex_none, C15_rejects_make_complex",
    "make_complex_np": "C15_ofNdarray_numpy",
    "real": "C15_real_imag, C15_rejects_real_imag", "imag": "C15_real_imag, C15_rejects_real_imag",
    "numpy": "C15_numpy, C15_ofNdarray_numpy",
    "scalar_mult": "C15_scalar_mult, C15_scalar_mult_complex, C15_scalar_mult_out, C15_scalar_mult_out_sound, C15_toLike, "
                   "C15_rejects_scalar_mult_alias, C15_scalar_mult_alias_iff, C15_rejects_scalar_mult_out_shape, "
                   "C15_scalar_mult_out_storage, C15_scalar_mult_out_view, "
                   "C15_rejects_scalar_mult_shape, C15_broadcast_shape, C15_broadcast_index",
    "elementwise_mult": "C15_elementwise_mult, C15_scalar_mult, C15_rejects_scalar_mult_shape",
    "matmul": "C15_matmul_mat_mat, C15_matmul_mat_vec, C15_matmul_vec_mat, C15_matmul_vec_vec, C15_matmul_batched, "
              "C15_matmul_batched_mat_vec, C15_matmul_vec_batched, C15_matmul_is_matrix_product, C15_matmul_is_mulVec, C15_rejects_matmul",
    "inner_prod": "C15_inner_prod_vec, C15_inner_prod_scalar, C15_inner_prod_is_star_dot, C15_rejects_inner_prod",
    "outer_prod": "C15_outer_prod, C15_outer_prod_is_vecMulVec, C15_rejects_outer_prod",
    "einsum": "C15_einsum, C15_einsum_complex, C15_einsum_real_part, C15_einsum_imag_part, C15_einsum_flags, C15_einsum_flag, C15_einsum_reads_valid, "
              "C15_allIdx_spec, C15_sumLabels_spec, C15_einsum_ib_ibg, C15_rejects_einsum, C15_einsum_string, "
              "C15_einsum_explicit_equation, C15_einsum_implicit_output, C15_einsum_ellipsis_spec, C15_einsum_ellipsis_alignment, "
              "C15_einsum_implicit_matmul, C15_einsum_ellipsis_batched",
    "conjugate": "C15_conjugate_low_rank, C15_conjugate_transpose, C15_conjugate_is_conjTranspose",
    "conj": "C15_conj, C15_rejects_conj, C15_rejects_not_complex_planes",
    "kronecker_prod": "C15_kronecker_prod, C15_kronecker_is_kronecker, C15_rejects_kronecker_prod",
    "norm_sqr": "C15_norm_sqr",
    # extension round X2: `*_entry` = the tensor function IS the scalar function of QV.Model.CplxScalar (C.invH, C.divH, C.sdivH, C.absH,
    # C.csigmoidH; shared with the gradient model of C03) at every entry, any carrier; `*H_eq` = that scalar function is the textbook formula over R
    "elementwise_division": "C15_elementwise_division, C15_rejects_elementwise_division, C15_scaled_operand_range, C15_rejects_field_not_complex, "
                            "C15_elementwise_division_entry, C15_divH_eq",
    "absolute_value": "C15_absolute_value, C15_hypot, C15_rejects_field_not_complex, C15_absolute_value_entry, C15_absH_eq",
    "sigmoid": "C15_sigmoid, C15_rejects_sigmoid, C15_sigmoid_exp_bounded, C15_sigmoid_entry, C15_csigmoidH_eq",
    "scalar_divide": "C15_scalar_divide, C15_scaled_operand_range, C15_scalar_divide_entry, C15_sdivH_eq",
    "inverse": "C15_inverse, C15_scaled_operand_range, C15_rejects_field_not_complex, C15_inverse_entry, C15_invH_eq, C15_invH_operand_range",
    "norm": "C15_norm",
}
REQUIRED_THEOREMS = sorted({t.strip() for v in THEOREMS.values() for t in v.split(",")} | {"C15_dec_ops", "C15_dec_sums"})
EXTRA_TRUSTED = [
    "C15: object identity and dtype of torch tensors are modelled by tags (Obj.id, Obj.dtype); the harness assigns the tags from Python `is`",
]
RING_FNS = ["make_complex", "make_complex_np", "real", "imag", "numpy", "scalar_mult", "elementwise_mult", "matmul", "inner_prod",
            "outer_prod", "einsum", "conjugate", "conj", "kronecker_prod", "norm_sqr"]
FIELD_FNS = ["elementwise_division", "absolute_value", "sigmoid", "scalar_divide", "inverse", "norm"]

ID_X, ID_Y, ID_OUT, ID_CAST, ID_NEW = 1, 2, 3, 4, 5


# ------------------------------------------------------------------ tensors in cases
def T(shape, data, dtype="f64"):
    return {"shape": list(shape), "data": [float(v) for v in data], "dtype": dtype}


def numel(shape):
    n = 1
    for d in shape:
        n *= d
    return n


def to_np(t):
    return np.asarray(t["data"], dtype=np.float64).reshape(t["shape"])


def to_torch(t):
    return torch.tensor(to_np(t), dtype=torch.float32 if t["dtype"] == "f32" else torch.double)


# ------------------------------------------------------------------ memory layouts
# A layout spec (JSON, part of the case) describes how the logical tensor sits inside a larger physical workspace:
#   perm   [j -> logical axis held by physical axis j]            (permuted / transposed storage order)
#   pad    per logical axis [pre, post, step]                      (slice of a larger buffer, every step-th element)
#   extra  [position, size, index] of an additional physical axis  (a "column" of a workspace)
#   expand logical axes stored once and expanded with stride 0     (operands only; data must be constant along them)
#   off    number of unused elements in front of the workspace      (storage offset)
# `share` (case level): all workspaces of a dtype are carved out of one 1-D storage (disjoint ranges).
def lay_phys_shape(shape, lay):
    r = len(shape)
    perm = lay.get("perm") or list(range(r))
    pads = lay.get("pad") or [[0, 0, 1]] * r
    exp = set(lay.get("expand") or [])
    plen = [1 if k in exp else pads[k][0] + (shape[k] - 1) * pads[k][2] + 1 + pads[k][1] for k in range(r)]
    phys = [plen[perm[j]] for j in range(r)]
    ex = lay.get("extra")
    if ex:
        phys.insert(ex[0], ex[1])
    return phys


def lay_view(w, shape, lay, expanded=True):
    """the logical view of workspace `w` (torch tensor or ndarray); with expanded=False the stride-0 axes keep length 1"""
    r = len(shape)
    is_np = isinstance(w, np.ndarray)
    v = w
    ex = lay.get("extra")
    if ex:
        v = v[(slice(None),) * ex[0] + (ex[2],)]
    perm = lay.get("perm") or list(range(r))
    if r:
        dims = [perm.index(k) for k in range(r)]
        v = v.transpose(dims) if is_np else v.permute(dims)
    pads = lay.get("pad") or [[0, 0, 1]] * r
    exp = set(lay.get("expand") or [])
    for k in range(r):
        if k in exp:
            continue
        pre, _post, step = pads[k]
        v = v[(slice(None),) * k + (slice(pre, pre + (shape[k] - 1) * step + 1, step),)]
    if exp and expanded:
        v = np.broadcast_to(v, shape) if is_np else v.expand(shape)
    return v


def rand_layout(rng, shape, allow_expand=True, p_plain=0.5):
    """None (plain contiguous tensor) or a layout spec for a tensor of logical shape `shape`"""
    if rng.random() < p_plain:
        return None
    r = len(shape)
    lay = {}
    feats = rng.sample(["perm", "pad", "extra", "off", "expand"], rng.randint(1, 3))
    if "perm" in feats and r >= 2:
        perm = list(range(r))
        if rng.random() < 0.5:
            i, j = rng.sample(range(r), 2)
            perm[i], perm[j] = perm[j], perm[i]
        else:
            rng.shuffle(perm)
        lay["perm"] = perm
    if "pad" in feats and r >= 1:
        pads = [[0, 0, 1] for _ in range(r)]
        for k in rng.sample(range(r), min(r, rng.randint(1, 2))):
            pads[k] = [rng.randint(0, 2), rng.randint(0, 2), rng.choice([1, 1, 2, 3])]
        lay["pad"] = pads
    if "extra" in feats:
        size = rng.randint(2, 3)
        lay["extra"] = [rng.randint(0, r), size, rng.randrange(size)]
    if "off" in feats:
        lay["off"] = rng.randint(1, 5)
    if "expand" in feats and allow_expand and any(d > 1 for d in shape):
        cand = [k for k, d in enumerate(shape) if d > 1]
        lay["expand"] = sorted(rng.sample(cand, rng.randint(1, min(2, len(cand)))))
    return lay or None


def make_expandable(t, lay):
    """make the data of `t` constant along the axes the layout stores only once"""
    if not lay or not lay.get("expand"):
        return
    a = to_np(t)
    for k in lay["expand"]:
        a = np.broadcast_to(np.take(a, [0], axis=k), a.shape)
    t["data"] = [float(v) for v in np.ascontiguousarray(a).ravel()]


class Arena:
    """allocates the tensors of one case and remembers their workspaces for the post-call checks"""

    def __init__(self, share=False):
        self.share = share
        self.pools = {}
        self.items = []   # dicts: role, view, w, w0 (workspace before the call), vals (logical values), shape, lay

    def _workspace(self, phys, dtype, fill, off):
        n = numel(phys) + off
        if self.share:
            pool = self.pools.get(dtype)
            if pool is None:
                pool = self.pools[dtype] = [torch.full((1 << 16,), 11.0, dtype=dtype), 0]
            if pool[1] + n <= pool[0].numel():
                buf = pool[0][pool[1]: pool[1] + n]
                pool[1] += n + 1
            else:
                buf = torch.full((n,), fill, dtype=dtype)
        else:
            buf = torch.full((n,), fill, dtype=dtype)
        buf.fill_(fill)
        return buf[off:].view(phys) if phys else buf[off:off + 1].view([])

    def tensor(self, role, vals, dtype, lay, fill=9.0):
        """vals: float64 ndarray of the logical values. Returns the tensor handed to the implementation."""
        shape = list(vals.shape)
        src = torch.tensor(vals, dtype=dtype)
        if not lay and not self.share:
            v, w = src, src
            lay = {}
        else:
            lay = lay or {}
            w = self._workspace(lay_phys_shape(shape, lay), dtype, fill, lay.get("off", 0))
            base = lay_view(w, shape, lay, expanded=False)
            s0 = src
            for k in lay.get("expand") or []:
                s0 = s0.narrow(k, 0, 1)
            base.copy_(s0)
            v = lay_view(w, shape, lay)
        it = {"role": role, "view": v, "w": w, "shape": shape, "lay": lay, "vals": src}
        self.items.append(it)
        return v

    @staticmethod
    def base_of(it, w=None):
        """the writable logical view (stride-0 axes at length 1) of the item's workspace (or of a copy `w` of it)"""
        if it.get("window") is not None:
            a, n = it["window"]
            return (it["w"] if w is None else w)[a:a + n].view(it["shape"])
        return lay_view(it["w"] if w is None else w, it["shape"], it["lay"], expanded=False)

    def overwrite(self, role, vals):
        """in-place re-parametrisation of the tensor object of `role` (history probe)"""
        for it in self.items:
            if it["role"] == role:
                src = torch.tensor(vals, dtype=it["view"].dtype)
                s0 = src
                for k in it["lay"].get("expand") or []:
                    s0 = s0.narrow(k, 0, 1)
                self.base_of(it).copy_(s0)
                it["vals"] = src

    def freeze(self):
        for it in self.items:
            it["w0"] = it["w"].clone()

    def operands_intact(self, skip=()):
        """every operand still has its logical values and no cell of its workspace was written"""
        for it in self.items:
            if it["role"] in skip:
                continue
            if not torch.equal(it["view"], it["vals"]) or not torch.equal(it["w"], it["w0"]):
                return False
        return True

    def workspace_clean(self, role):
        """no cell of the workspace of `role` outside its logical view was written"""
        for it in self.items:
            if it["role"] == role:
                exp = it["w0"].clone()
                self.base_of(it, exp).copy_(self.base_of(it))
                return bool(torch.equal(it["w"], exp))
        return None


def decode(t):
    """complex ndarray denoted by a real-pair tensor (independent of cplx.numpy)"""
    a = to_np(t)
    return a[0] + 1j * a[1]


def canon(r):
    """canonical form of an implementation return value"""
    if r is None:
        return {"kind": "none"}
    if isinstance(r, (bool, int, float)):   # a Python number is as good as a 0-d tensor (the property constrains the value only)
        return {"shape": [], "data": [float(r)], "dtype": "f64"}
    if isinstance(r, complex):
        r = np.complex128(r)
    if isinstance(r, (np.ndarray, np.generic)):  # cplx.numpy of a complex scalar gives a numpy scalar
        r = np.asarray(r)
        return {"shape": list(r.shape), "re": np.real(r).astype(np.float64).ravel().tolist(),
                "im": np.imag(r).astype(np.float64).ravel().tolist()}
    return {"shape": list(r.shape), "data": r.detach().double().contiguous().view(-1).tolist(),
            "dtype": "f32" if r.dtype == torch.float32 else "f64"}


def rand_vals(rng, n, num, scale=1.0):
    if num == "int":
        return [float(rng.randint(-4, 4)) for _ in range(n)]
    return [rng.gauss(0.0, 1.0) * scale for _ in range(n)]


def rand_cplx(rng, tshape, num, scale=1.0, dtype="f64", ensure=True):
    """complex tensor (leading axis 2) of tensor shape `tshape`; one entry forced to have both parts non-zero"""
    n = numel(tshape)
    d = rand_vals(rng, 2 * n, num, scale)
    if ensure and n > 0:
        k = rng.randrange(n)
        if d[k] == 0:
            d[k] = 1.0 if num == "int" else 0.7
        if d[n + k] == 0:
            d[n + k] = -2.0 if num == "int" else -0.4
    return T([2] + list(tshape), d, dtype)


def rand_real(rng, shape, num, scale=1.0):
    return T(shape, rand_vals(rng, numel(shape), num, scale))


DIMS = [1, 2, 2, 3, 3]  # axis lengths drawn by the generators (the thorough tier adds 4)


def rand_shape(rng, rank=None):
    if rank is None:
        rank = rng.choice([0, 1, 1, 2, 2, 2, 3, 3, 4])
    return [rng.choice(DIMS) for _ in range(rank)]


def bcast_partner(rng, s):
    """a shape that broadcasts with `s` (right-aligned): suffix, size-1 axes, longer prefix, scalar"""
    mode = rng.choice(["same", "suffix", "ones", "scalar", "longer", "mixed"])
    if mode == "same":
        return list(s)
    if mode == "scalar":
        return []
    if mode == "suffix":
        return list(s[rng.randint(0, len(s)):])
    if mode == "ones":
        return [1 if rng.random() < 0.5 else d for d in s]
    if mode == "longer":
        return [rng.choice([1, 2, 3]) for _ in range(rng.randint(1, max(1, 4 - len(s))))] + list(s)
    t = list(s[rng.randint(0, len(s)):])
    return [1 if rng.random() < 0.4 else d for d in t]


def nontrivial_operand(t):
    a = to_np(t)
    if a.ndim < 1 or a.shape[0] < 2:
        return False
    return bool(np.any((a[0] != 0) & (a[1] != 0)))


# ------------------------------------------------------------------ einsum oracle (explicit loops)
def parse_eq(eq):
    """explicit equations without spaces / ellipsis only (used by the generators)"""
    lhs, out = eq.split("->")
    a, b = lhs.split(",")
    return a, b, out


ELL = "..."


def tokenize(sub):
    """subscripts of one operand as a list of labels (letters) and ELL; None when torch rejects the string itself
    (a '.' that is not part of '...', a character that is not a letter)"""
    # torch skips blanks BETWEEN tokens only: the three dots of an ellipsis must be adjacent (". . .j,j" is rejected: "found '.'
    # ... that is not part of any ellipsis"), a tab is an invalid subscript (final pass, audit item C15-6: the blanks used to be
    # removed first, so model and oracle accepted such strings)
    toks, i = [], 0
    while i < len(sub):
        if sub[i] == " ":
            i += 1
        elif sub[i] == ".":
            if sub[i:i + 3] != "...":
                return None
            toks.append(ELL)
            i += 3
        elif sub[i].isascii() and sub[i].isalpha():
            toks.append(sub[i])
            i += 1
        else:
            return None
    return toks


def parse_eq_full(eq):
    """(a, b, out | None) as token lists for any two-operand equation string (implicit output: no '->'), None if malformed"""
    parts = eq.split("->")
    if len(parts) > 2:
        return None
    ops = parts[0].split(",")
    if len(ops) != 2:
        return None
    a, b = tokenize(ops[0]), tokenize(ops[1])
    out = tokenize(parts[1]) if len(parts) == 2 else None
    if a is None or b is None or (len(parts) == 2 and out is None):
        return None
    return a, b, out


def einsum_loops(eq, A, B):
    """independent complex Einstein summation (explicit loops) for explicit, implicit-output and ellipsis equations, with
    broadcasting of size-1 axes; returns None when the equation / shapes are invalid (torch raises RuntimeError).
    Implicit output: ellipsis axes first, then the labels occurring exactly once, sorted. Ellipsis axes are aligned from
    the right; left out of an explicit output they are summed."""
    p = parse_eq_full(eq)
    if p is None:
        return None
    a, b, out = p

    def cover(toks, nd):
        n = sum(1 for t in toks if t != ELL)
        e = toks.count(ELL)
        if e == 0:
            return 0 if n == nd else None
        if e == 1:
            return nd - n if n <= nd else None
        return None

    ka, kb = cover(a, A.ndim), cover(b, B.ndim)
    if ka is None or kb is None:
        return None
    K = max(ka, kb)
    ell = [(ELL, i) for i in range(K)]

    def expand(toks, k):
        r = []
        for t in toks:
            r += ell[K - k:] if t == ELL else [t]
        return r

    named = [t for t in a + b if t != ELL]
    a, b = expand(a, ka), expand(b, kb)
    if out is None:
        out = ell + sorted(l for l in set(named) if named.count(l) == 1)
    else:
        if out.count(ELL) > 1:
            return None
        out = expand(out, K)
    size = {}
    for labs, arr in ((a, A), (b, B)):
        loc = {}
        for l, d in zip(labs, arr.shape):
            if l in loc and loc[l] != d:
                return None
            loc[l] = d
        for l, d in loc.items():
            if l in size and size[l] != d:
                if size[l] == 1:
                    size[l] = d
                elif d != 1:
                    return None
            else:
                size.setdefault(l, d)
    if len(set(out)) != len(out) or any(l not in size for l in out):
        return None
    sum_l = [l for l in dict.fromkeys(a + b) if l not in out]
    res = np.zeros([size[l] for l in out], dtype=np.complex128)
    for oidx in itertools.product(*[range(size[l]) for l in out]):
        env = dict(zip(out, oidx))
        acc = 0j
        for sidx in itertools.product(*[range(size[l]) for l in sum_l]):
            env.update(zip(sum_l, sidx))
            ia = tuple(0 if A.shape[p_] == 1 else env[l] for p_, l in enumerate(a))
            ib = tuple(0 if B.shape[p_] == 1 else env[l] for p_, l in enumerate(b))
            acc += A[ia] * B[ib]
        res[oidx] = acc
    return res


# ------------------------------------------------------------------ the property oracle
try:
    import mpmath as _mp
except Exception:  # noqa: BLE001
    _mp = None


def logistic_reference(z):
    """the logistic function 1/(1+e^-z) of a complex ndarray, independent of any double-precision formula the code might
    use: 40-digit arithmetic (mpmath; the exponent range is unbounded, so neither tail overflows), rounded to complex128.
    Fallback without mpmath: the two-branch stable form in complex128."""
    z = np.asarray(z, dtype=np.complex128)
    if _mp is None:
        pos = z.real >= 0
        ez = np.exp(np.where(pos, -z, z))
        return np.where(pos, 1.0 / (1.0 + ez), ez / (1.0 + ez))
    out = np.empty(z.shape, dtype=np.complex128)
    with _mp.workdps(40):
        for k, v in enumerate(z.ravel()):
            d = 1 + _mp.exp(-_mp.mpc(float(v.real), float(v.imag)))
            w = 1 / d if d != 0 else _mp.mpc("nan", "nan")
            out.reshape(-1)[k] = complex(w)
    return out


DBL_MAX, DBL_MIN = sys.float_info.max, sys.float_info.min   # largest double, smallest NORMAL double
EDGE = ("edge_large", "edge_small", "edge_subnormal", "edge_mixed", "edge_unit", "edge_quotient", "edge_underflow")


def _to_float(q):
    """a rational rounded once to the nearest double; +-inf beyond the range"""
    try:
        return float(q)
    except OverflowError:
        return math.inf if q > 0 else -math.inf


def exact_quotient(x, y):
    """x / y of two (broadcasting) complex ndarrays in exact rational arithmetic on the very doubles given, each part rounded
    once. Independent of every floating-point division algorithm (numpy's Smith division overflows for components beyond
    DBL_MAX/2 and loses everything for sub-normal divisors). A zero divisor gives nan parts."""
    x, y = np.broadcast_arrays(np.asarray(x, dtype=np.complex128), np.asarray(y, dtype=np.complex128))
    out = np.empty(x.shape, dtype=np.complex128)
    for idx in np.ndindex(*x.shape):
        a, b, c, d = (Fraction(float(v)) for v in (x[idx].real, x[idx].imag, y[idx].real, y[idx].imag))
        den = c * c + d * d
        if den == 0:
            out[idx] = complex(math.nan, math.nan)
        else:
            out[idx] = complex(_to_float((a * c + b * d) / den), _to_float((b * c - a * d) / den))
    return out


def exact_product(x, y):
    """x * y (complex scalars) in exact rational arithmetic, each part rounded once"""
    a, b, c, d = (Fraction(float(v)) for v in (x.real, x.imag, y.real, y.imag))
    return complex(_to_float(a * c - b * d), _to_float(a * d + b * c))


def np_broadcast(sa, sb):
    try:
        return list(np.broadcast_shapes(tuple(sa), tuple(sb)))
    except ValueError:
        return None


def oracle_value(case):
    """what native complex arithmetic gives on the decoded operands, or ('err', kind) when the call must be rejected,
    or None when this oracle has no opinion (only for the unsupported-but-accepted corner noted below).
    Value: ('c', complex ndarray) | ('r', real ndarray) | ('none',)"""
    fn = case["fn"]
    x, y = case.get("x"), case.get("y")
    sx = x["shape"] if x else None
    sy = y["shape"] if y else None
    edge = case.get("regime") in EDGE     # at the edge of the double range numpy's complex division itself overflows

    def cplx_ok(s, need=2):
        return len(s) >= 1 and s[0] >= need

    if fn == "make_complex":
        if y is None:
            return ("c", to_np(x) + 0j)
        if sx != sy:
            return ("err", "RuntimeError")
        return ("c", to_np(x) + 1j * to_np(y))
    if fn == "make_complex_np":
        return ("c", np.asarray(case["re"]).reshape(case["shape"]) + 1j * np.asarray(case["im"]).reshape(case["shape"]))
    if fn in ("real", "imag", "numpy"):
        need = 1 if fn == "real" else 2
        if not cplx_ok(sx, need):
            return ("err", "IndexError")
        a = to_np(x)
        if fn == "real":
            return ("r", a[0])
        return ("r", a[1]) if fn == "imag" else ("c", a[0] + 1j * a[1])
    if fn in ("conj", "conjugate", "absolute_value", "inverse", "norm", "norm_sqr") and not cplx_ok(sx):
        # a tensor without an imaginary plane (0-d, leading axis 1) is not a complex tensor: rejected (final pass, C15-5)
        return ("err", "IndexError")
    # from here on operands are complex tensors; malformed leading axes are generated for the accessors and the unary functions only
    if fn in ("scalar_mult", "elementwise_mult"):
        if fn == "scalar_mult" and case.get("out") in ("x", "y"):
            # `out is x or out is y` is tested on the caller's objects, before y = y.to(x): whatever the dtypes
            return ("err", "RuntimeError")
        rs = np_broadcast(sx[1:], sy[1:])
        if rs is None:
            return ("err", "RuntimeError")
        if fn == "scalar_mult" and case.get("out") in ("shape", "alias") and list(case["out_shape"]) != [2] + rs:
            return ("err", "ValueError")
        return ("c", decode(x) * decode(y))
    if fn == "matmul":
        if len(sx) < 2 or len(sy) < 2:
            return ("err", "RuntimeError")
        try:
            return ("c", np.asarray(np.matmul(decode(x), decode(y))))
        except ValueError:
            return ("err", "RuntimeError")
    if fn == "inner_prod":
        if len(sx) == 2 and len(sy) == 2:
            if sx[1] != sy[1]:
                return ("err", "RuntimeError")
            return ("c", np.asarray(np.sum(np.conj(decode(x)) * decode(y))))
        if len(sx) == 1 and len(sy) == 1:
            return ("c", np.asarray(np.conj(decode(x)) * decode(y)))
        return ("err", "ValueError")
    if fn == "outer_prod":
        if len(sx) != 2 or len(sy) != 2:
            return ("err", "ValueError")
        dx, dy = decode(x), decode(y)
        return ("c", dx[:, None] * np.conj(dy)[None, :])
    if fn == "einsum":
        rp, ip = case["rp"], case["ip"]
        if not rp and not ip:
            return ("none",)
        r = einsum_loops(case["eq"], decode(x), decode(y))
        if r is None:
            return ("err", "RuntimeError")
        if rp and ip:
            return ("c", r)
        return ("r", np.real(r) if rp else np.imag(r))
    if fn == "conj":
        return ("c", np.conj(decode(x)))
    if fn == "conjugate":
        d = decode(x)
        return ("c", np.conj(d) if d.ndim < 2 else np.conj(np.swapaxes(d, 0, 1)))
    if fn == "kronecker_prod":
        if not (len(sx) == 3 and len(sy) == 3):
            return ("err", "ValueError")
        return ("c", np.kron(decode(x), decode(y)))
    if fn == "norm_sqr" or fn == "norm":
        if len(sx) not in (1, 2):
            return ("err", "ValueError")
        d = decode(x)
        if fn == "norm":
            # Euclidean norm of all real and imaginary parts; math.hypot scales internally (np.linalg.norm does not)
            return ("r", np.asarray(math.hypot(*[float(v) for v in np.ravel(d.real)], *[float(v) for v in np.ravel(d.imag)])))
        return ("r", np.asarray(np.sum(d.real * d.real + d.imag * d.imag)))
    if fn == "elementwise_division":
        if sx != sy:
            return ("err", "ValueError")
        return ("c", exact_quotient(decode(x), decode(y)) if edge else decode(x) / decode(y))
    if fn == "absolute_value":
        if edge:
            d = decode(x)
            return ("r", np.asarray([math.hypot(float(v.real), float(v.imag)) for v in np.ravel(d)]).reshape(d.shape))
        return ("r", np.abs(decode(x)))
    if fn == "inverse":
        return ("c", exact_quotient(1.0, decode(x)) if edge else 1.0 / decode(x))
    if fn == "scalar_divide":
        if np_broadcast(sx[1:], sy[1:]) is None:
            return ("err", "RuntimeError")
        return ("c", exact_quotient(decode(x), decode(y)) if edge else decode(x) / decode(y))
    if fn == "sigmoid":
        if np_broadcast(sx, sy) is None:
            return ("err", "ValueError")
        z = np.asarray(to_np(x) + 1j * to_np(y))
        return ("c", logistic_reference(z))
    raise ValueError(fn)


# ------------------------------------------------------------------ running the implementation
I_PRISTINE = cplx.I.clone()


class MemImage:
    """the storage cells behind the tensors of one call, as ONE flat address space (for the storage model `c15.mem`):
    every distinct torch storage contributes the range of cells spanned by the workspaces allocated in it"""

    def __init__(self, arena, views):
        self.ranges = {}   # storage data_ptr -> [flat tensor over the whole storage, lo, hi]
        for it in arena.items:
            self._cover(it["w"])
        for v in views:
            self._cover(v)
        self.base = {}
        n = 0
        for key, (flat, lo, hi) in self.ranges.items():
            self.base[key] = n - lo
            n += hi - lo

    @staticmethod
    def _span(t):
        """[lo, hi) of storage cells a tensor can touch"""
        lo = t.storage_offset()
        hi = lo + 1 + sum((d - 1) * st for d, st in zip(t.shape, t.stride()) if d > 0)
        return lo, hi

    def _cover(self, t):
        st = t.untyped_storage()
        key = st.data_ptr()
        lo, hi = self._span(t)
        if key in self.ranges:
            r = self.ranges[key]
            r[1], r[2] = min(r[1], lo), max(r[2], hi)
        else:
            self.ranges[key] = [torch.empty(0, dtype=t.dtype).set_(st), lo, hi]

    def cells(self):
        out = []
        for flat, lo, hi in self.ranges.values():
            out += flat[lo:hi].double().tolist()
        return out

    def view(self, t):
        """{'shape', 'addr'}: the address of every entry in row-major order of the logical index"""
        base = self.base[t.untyped_storage().data_ptr()] + t.storage_offset()
        if t.dim() == 0:
            addr = [base]
        else:
            idx = np.indices(tuple(t.shape)).reshape(t.dim(), -1)
            addr = (base + sum(idx[k] * t.stride(k) for k in range(t.dim()))).tolist()
        return {"shape": list(t.shape), "addr": [int(a) for a in addr]}


def run_impl(case):
    """returns (canonical result | {'error': kind}, extra) where extra carries identity / buffer / operand information"""
    res, extra = _run_impl(case)
    if case.get("useI"):
        # the library constant must never be written; restore it so that one failure cannot contaminate later cases
        extra["I_intact"] = bool(torch.equal(cplx.I, I_PRISTINE))
        cplx.I.copy_(I_PRISTINE)
    return res, extra


def np_operand(case, key_re="re", key_im="im"):
    """the ndarray handed to make_complex(ndarray): optionally a non-contiguous view (Fortran order, slices, …)"""
    shape = case["shape"]
    z = np.asarray(case[key_re], dtype=np.float64).reshape(shape) + 1j * np.asarray(case[key_im], dtype=np.float64).reshape(shape)
    if case.get("np_real"):
        z = np.asarray(case[key_re], dtype=np.float64).reshape(shape)
    lay = (case.get("lay") or {}).get("x")
    if lay and len(shape) > 0:
        w = np.full(lay_phys_shape(list(shape), lay), 9.0, dtype=z.dtype)
        base = lay_view(w, list(shape), lay, expanded=False)
        src = z
        for k in lay.get("expand") or []:
            src = np.take(src, [0], axis=k)
        base[...] = src
        z = lay_view(w, list(shape), lay)
    return np.asarray(z)


def tdtype(t):
    return torch.float32 if t["dtype"] == "f32" else torch.double


def alias_buffer(arena, case, x, y):
    """an out= buffer that is a DIFFERENT object sharing storage with an operand (accepted and value-correct since 96aa40c)"""
    al = case["alias"]
    op = x if al["with"] == "x" else y
    how = al.get("how", "window")
    if how == "slice":
        return op[...]
    if how == "view_as":
        return op.view_as(op)
    if how == "detach":
        return op.detach()
    if how == "data":
        return op.data
    # a window of the operand's own 1-D storage, shifted by `shift` elements (partial overlap)
    it = next(i for i in arena.items if i["role"] == al["with"])
    os_ = case["out_shape"]
    base = it["w"].view(-1)
    start = al["lead"] + al["shift"]
    return base[start:start + numel(os_)].view(os_)


# ------------------------------------------------------------------ call forms (final pass, audit item C15-1)
# HOW the options of a call are handed over is a pure function of the case's "fseed" (stored in the case: a replay hands over the
# same objects in the same positions; a case without it - the corpus of earlier rounds - is called as before: Python singletons by
# keyword).  einsum: real_part / imag_part as every kind of object callers pass for a `bool` (qc.FLAG_FORMS: True/False, 1/0,
# numpy.bool_, the result of a numpy comparison, 0-dim bool array, 0-dim torch.bool tensor), positionally (real_part alone or both)
# with probability 1/2, by keyword in either order, a True one left to its default; scalar_mult: out= positionally with probability
# 1/2, out=None passed or left out; make_complex / sigmoid: second operand positionally or by its documented name.
EINSUM_STYLES = ("kw", "kw_rev", "pos_rp", "pos_both", "pos_both", "pos_rp")


def call_form(case):
    """JSON-able description of the call form of this case (None: the plain form of the earlier rounds)"""
    fseed = case.get("fseed")
    fn = case["fn"]
    if fseed is None or fn not in ("einsum", "scalar_mult", "make_complex", "sigmoid"):
        return None
    import random
    r = random.Random(fseed)
    if fn == "einsum":
        fl = qc.Flags(fseed)
        _, rpd = fl(case["rp"])
        _, ipd = fl(case["ip"])
        style = r.choice(EINSUM_STYLES)
        cf = {"style": style, "rp": {"form": rpd["form"], "value": rpd["value"]}, "ip": {"form": ipd["form"], "value": ipd["value"]},
              "omit_rp": False, "omit_ip": False, "kw_operands": False}
        # a default (True) may be left out: imag_part whenever it is not followed by anything (always), real_part only in keyword forms
        if case["ip"] and r.random() < 0.3:
            cf["omit_ip"] = True
        if case["rp"] and style in ("kw", "kw_rev") and r.random() < 0.3:
            cf["omit_rp"] = True
        if style in ("kw", "kw_rev") and r.random() < 0.15:
            cf["kw_operands"] = True     # the documented names `equation`, `a`, `b`
        return cf
    if fn == "scalar_mult":
        if case.get("out") is None:
            return {"style": r.choice(["omit", "omit", "kw_none", "pos_none"])}
        return {"style": r.choice(["pos", "kw"])}
    if fn == "make_complex":
        if case.get("y") is None:
            return {"style": r.choice(["omit", "omit", "kw_none", "pos_none"])}
        return {"style": r.choice(["pos", "pos", "kw_y", "kw_xy"])}
    return {"style": r.choice(["pos", "pos", "kw_y", "kw_xy"])}


def call_objects(case):
    """the call form with the option OBJECTS built (once per case: the history dimension re-uses them for both calls)"""
    cf = call_form(case)
    if cf is not None and case["fn"] == "einsum":
        cf = dict(cf, rp_obj=qc.flag_value(cf["rp"]), ip_obj=qc.flag_value(cf["ip"]))
    return cf


def call_fn(case, fn, x, y, out, cf=None):
    st = (cf or {}).get("style")
    if fn == "make_complex":
        if st == "omit":
            return cplx.make_complex(x)
        if st in ("kw_none", "kw_y"):
            return cplx.make_complex(x, y=y)
        if st == "kw_xy":
            return cplx.make_complex(y=y, x=x)
        return cplx.make_complex(x, y)
    if fn == "sigmoid":
        if st == "kw_y":
            return cplx.sigmoid(x, y=y)
        if st == "kw_xy":
            return cplx.sigmoid(y=y, x=x)
        return cplx.sigmoid(x, y)
    if fn == "scalar_mult":
        if st == "omit":
            return cplx.scalar_mult(x, y)
        if st in ("pos", "pos_none"):
            return cplx.scalar_mult(x, y, out)
        return cplx.scalar_mult(x, y, out=out)
    if fn == "einsum":
        if cf is None:
            return cplx.einsum(case["eq"], x, y, real_part=case["rp"], imag_part=case["ip"])
        rp, ip = cf["rp_obj"], cf["ip_obj"]
        kw = {}
        if not cf["omit_ip"]:
            kw["imag_part"] = ip
        if st == "pos_both" and not cf["omit_ip"]:
            return cplx.einsum(case["eq"], x, y, rp, ip)
        if st in ("pos_rp", "pos_both"):
            return cplx.einsum(case["eq"], x, y, rp, **kw)
        if not cf["omit_rp"]:
            kw = {"real_part": rp, **kw} if st == "kw" else {**kw, "real_part": rp}
        if cf["kw_operands"]:
            return cplx.einsum(b=y, a=x, equation=case["eq"], **kw)
        return cplx.einsum(case["eq"], x, y, **kw)
    if fn in ("real", "imag", "numpy", "conjugate", "conj", "norm_sqr", "absolute_value", "inverse", "norm"):
        return getattr(cplx, fn)(x)
    return getattr(cplx, fn)(x, y)


def scribble(r):
    """overwrite a value returned by an EARLIER call (it must not be what a later call returns or reads)"""
    try:
        if isinstance(r, np.ndarray) and r.ndim > 0 and r.flags.writeable:
            r[...] = 13.0
        elif hasattr(r, "fill_"):
            r.fill_(13.0)
    except Exception:  # noqa: BLE001
        pass


def _run_impl(case):
    fn = case["fn"]
    extra = {}
    lays = case.get("lay") or {}
    prev = case.get("prev")
    try:
        if fn == "make_complex_np":
            z = np_operand(case)
            if prev:
                r0 = cplx.make_complex(np_operand({**case, "re": prev["re"], "im": prev["im"]}))
                scribble(r0)
            z0 = z.copy()
            r = cplx.make_complex(z)
            extra["operands_intact"] = bool(np.array_equal(z, z0))
            return canon(r), extra
        use_i = case.get("useI")
        arena = Arena(share=bool(case.get("share")))
        first = {k: (prev[k] if prev and prev.get(k) is not None else None) for k in ("x", "y")}

        def build(role):
            t = case[role]
            vals = to_np(t) if first[role] is None else np.asarray(first[role], dtype=np.float64).reshape(t["shape"])
            if case.get("alias") and case["alias"].get("how", "window") == "window" and case["alias"]["with"] == role:
                # the operand sits in a 1-D storage with room before and after it for the overlapping out= window
                al = case["alias"]
                w = torch.full((al["lead"] + numel(t["shape"]) + al["tail"],), 9.0, dtype=tdtype(t))
                v = w[al["lead"]: al["lead"] + numel(t["shape"])].view(t["shape"])
                v.copy_(torch.tensor(vals, dtype=tdtype(t)))
                arena.items.append({"role": role, "view": v, "w": w, "shape": list(t["shape"]), "lay": {}, "vals": v.clone(),
                                    "window": [al["lead"], numel(t["shape"])]})
                return v
            return arena.tensor(role, vals, tdtype(t), lays.get(role))

        x = cplx.I if use_i == "x" else build("x")
        if case.get("same"):
            y = x
        elif use_i == "y":
            y = cplx.I
        else:
            y = build("y") if case.get("y") is not None else None
        mode = case.get("out") if fn == "scalar_mult" else None
        out = None
        if mode == "x":
            out = x
        elif mode == "y":
            out = y
        elif mode == "alias":
            out = alias_buffer(arena, case, x, y)
        elif mode in ("fresh", "fresh32", "shape"):
            if mode == "shape":
                os_, odt = case["out_shape"], (torch.float32 if case.get("out_dtype") == "f32" else torch.double)
            else:
                os_ = [2] + np_broadcast(case["x"]["shape"][1:], case["y"]["shape"][1:])
                odt = torch.float32 if mode == "fresh32" else torch.double
            out = arena.tensor("out", np.full(os_, 7.0), odt, lays.get("out"), fill=7.0)
        cf = call_objects(case)
        if prev:
            # HISTORY: a first call on the same objects with other data, then in-place re-parametrisation
            try:
                r0 = call_fn(case, fn, x, y, out, cf)
            except Exception:  # noqa: BLE001
                r0 = None
            for role in ("x", "y"):
                if first[role] is not None:
                    arena.overwrite(role, to_np(case[role]))
            if mode in ("fresh", "fresh32", "shape"):
                arena.overwrite("out", np.full(list(out.shape), 7.0))
        arena.freeze()
        aliased = (case["alias"]["with"],) if mode == "alias" else ()
        img = None
        if mode in ("fresh", "fresh32", "shape", "alias") and case["num"] == "int" and not use_i:
            img = MemImage(arena, [x, y, out])
            extra["mem"] = {"before": img.cells(), "x": img.view(x), "y": img.view(y), "out": img.view(out)}
        try:
            r = call_fn(case, fn, x, y, out, cf)
            if prev and r0 is not None and r0 is not out and fn not in ("real", "imag"):
                scribble(r0)
            res = canon(r)
        finally:
            if mode == "shape":
                # a rejected buffer must not have been written
                it = next(i for i in arena.items if i["role"] == "out")
                extra["out_untouched"] = bool(torch.equal(it["w"], it["w0"]) and list(out.shape) == list(case["out_shape"]))
            extra["operands_intact"] = arena.operands_intact(skip=("out",) + aliased)
            if img is not None:
                extra["mem"]["after"] = img.cells()
        if fn == "scalar_mult":
            extra["id"] = ID_OUT if (mode in ("fresh", "fresh32", "shape", "alias") and r is out) else (
                ID_X if r is x else (ID_Y if r is y else ID_NEW))
            if mode in ("fresh", "fresh32", "shape"):
                extra["buffer"] = canon(out)
                extra["workspace_clean"] = arena.workspace_clean("out")
        for it in arena.items:
            if it["role"] != "out":
                extra["noncontig"] = extra.get("noncontig", False) or not it["view"].is_contiguous()
            else:
                extra["out_noncontig"] = not it["view"].is_contiguous()
        return res, extra
    except Exception as e:  # rejected; the KIND is kept for the counters only (the property constrains rejected / accepted, not the type)
        return {"error": type(e).__name__}, extra


def eq_to_json(eq):
    """tokenised equation for the model: labels as character codes, 0 for the ellipsis, out = None for an implicit output;
    None when the string itself is malformed (stray '.', wrong number of operands: not expressible in tokens)"""
    p = parse_eq_full(eq)
    if p is None:
        return None
    enc = lambda toks: [0 if t == ELL else ord(t) for t in toks]  # noqa: E731
    a, b, out = p
    return {"a": enc(a), "b": enc(b), "out": None if out is None else enc(out)}


def run_model(ctx, case):
    fn, num = case["fn"], case["num"]

    def enc(vals):
        return [int(v) for v in vals] if num == "int" else bits(vals)

    def tj(t, tid=None):
        d = {"shape": t["shape"], "data": enc(t["data"])}
        if tid is not None:
            d["id"] = tid
            d["dtype"] = t["dtype"]
        return d

    req = {"fn": fn, "num": num}
    if fn == "make_complex_np":
        req.update(shape=case["shape"], re=enc(case["re"]), im=enc(case["im"]))
    elif fn == "scalar_mult":
        req["x"] = tj(case["x"], ID_X)
        req["y"] = tj(case["x"], ID_X) if case.get("same") else tj(case["y"], ID_Y)
        mode = case.get("out")
        if mode == "x":
            req["out"] = req["x"]
        elif mode == "y":
            req["out"] = req["y"]
        elif mode in ("fresh", "fresh32"):
            os_ = [2] + np_broadcast(case["x"]["shape"][1:], case["y"]["shape"][1:])
            req["out"] = tj(T(os_, [7.0] * numel(os_), "f32" if mode == "fresh32" else "f64"), ID_OUT)
        elif mode == "shape":
            os_ = case["out_shape"]
            req["out"] = tj(T(os_, [7.0] * numel(os_), case.get("out_dtype", "f64")), ID_OUT)
        elif mode == "alias":
            # a different OBJECT (own id) whose storage overlaps an operand: the model has no storage, only objects
            os_ = case["out_shape"]
            req["out"] = tj(T(os_, [7.0] * numel(os_), case[case["alias"]["with"]]["dtype"]), ID_OUT)
        req["fresh_cast"] = ID_CAST
        req["fresh_out"] = ID_NEW
    else:
        req["x"] = tj(case["x"])
        if case.get("same"):
            req["y"] = tj(case["x"])
        elif case.get("y") is not None:
            req["y"] = tj(case["y"])
        if fn == "einsum":
            cf = call_form(case)
            # the flag OBJECTS go to the model (QV.PyFlag via DriverLib.Flag.parseFlag; a plain bool = the Python singleton)
            req.update(eq=eq_to_json(case["eq"]), real_part=cf["rp"] if cf else bool(case["rp"]),
                       imag_part=cf["ip"] if cf else bool(case["ip"]))
    r = ctx.driver.call("c15.op", **req)

    def dec(vals):
        return [float(v) for v in vals] if num == "int" else unbits(vals).tolist()

    if "error" in r:
        return {"error": r["error"]}, {}
    if r.get("kind") == "none":
        return {"kind": "none"}, {}
    if "kind" in r:
        r = r["t"]
    if "re" in r:
        return {"shape": r["shape"], "re": dec(r["re"]), "im": dec(r["im"])}, {}
    out = {"shape": r["shape"], "data": dec(r["data"])}
    extra = {}
    if "id" in r:
        extra["id"] = r["id"]
        out["dtype"] = r["dtype"]
    return out, extra


OUT_BUFFER_MODES = ("fresh", "fresh32", "shape", "alias")   # out= is an object of the caller's that is not an operand


def result_dtype_expected(case):
    """dtype of an accepted out= buffer (it is returned as it is); for calls without a buffer the kernel's own choice
    (`y.to(x)`: x's dtype), which is NOT demanded by any point or oracle"""
    if case["fn"] == "scalar_mult" and case.get("out") in ("fresh", "fresh32"):
        return "f32" if case["out"] == "fresh32" else "f64"
    if case["fn"] == "scalar_mult" and case.get("out") == "shape":
        return case.get("out_dtype", "f64")
    if case["fn"] == "scalar_mult" and case.get("out") == "alias":
        return case[case["alias"]["with"]]["dtype"]
    return case["x"]["dtype"]


def flat_of(res):
    if "data" in res:
        return res["data"]
    if "re" in res:
        return list(res["re"]) + list(res["im"])
    return []


SUM_FNS = ("matmul", "inner_prod", "einsum")


def abs_case(case):
    """the same call on the moduli of the operands (real, non-negative): for the summing operations its value is
    sum |a||b|, the natural magnitude of each result entry"""
    c = dict(case)
    for k in ("x", "y"):
        t = case.get(k)
        if t is not None:
            a = to_np(t)
            m = np.sqrt(a[0] ** 2 + a[1] ** 2)
            c[k] = T(t["shape"], np.concatenate([m.ravel(), np.zeros(m.size)]), t["dtype"])
    if c["fn"] == "einsum":
        c["rp"], c["ip"] = True, True
    return c


def entry_scale(case, want):
    """per-entry magnitude against which an error is measured in the tolerance tier: the modulus of the entry itself,
    for sums the sum of the moduli of the terms. Non-finite where the true value is."""
    arr = np.asarray(want[1])
    with np.errstate(all="ignore"):
        sc = np.abs(arr).astype(np.float64)
        if case["fn"] in SUM_FNS:
            w2 = oracle_value(abs_case(case))
            if w2[0] in ("c", "r") and np.asarray(w2[1]).shape == arr.shape:
                sc = np.maximum(sc, np.abs(np.asarray(w2[1])))
    return sc


TINY = 1e-290  # floor of the per-entry normaliser (sub-normal results are compared absolutely at this level)
TINY_EDGE = 1e-310  # the same floor in the EDGE regimes, whose results may lie just above / inside the sub-normal range: a result of
#                     1e-310 still has 13 significant digits; below it the comparison is absolute at 1e-319 (~ 2e4 sub-normal ulps)


def floor_of(case):
    return TINY_EDGE if case.get("regime") in EDGE else TINY


def normalised(vals, nrm, floor=TINY):
    out = []
    for v, n_ in zip(vals, nrm):
        if math.isfinite(v) and math.isfinite(n_):
            out.append(v / max(n_, floor))
        else:
            out.append(v)
    return out


EXTREME = ("extreme_large", "extreme_small", "extreme_mixed", "overflow_right")


def sig_of(case, fn, what):
    """stable signature; the EXTREME regimes (audit item C15-1 / finding F17, fixed in /repo by 7038bfb) get one signature per function"""
    if case.get("regime") in EXTREME:
        return f"{fn}/extreme-range"
    if case.get("regime") in EDGE:
        return f"{fn}/edge-of-range"
    return f"{fn}/{what}"


def one_case(ctx, case):
    fn, num = case["fn"], case["num"]
    exact = num == "int"
    with np.errstate(all="ignore"):
        impl, iextra = run_impl(case)
    is_err = "error" in impl
    ops = [case[k] for k in ("x", "y") if case.get(k) is not None and fn not in ("make_complex", "sigmoid")]
    nontriv = (not is_err) and all(nontrivial_operand(t) for t in ops)
    ctx.case(case, nontrivial=nontriv, sample={"fn": fn, "num": num, "x": (case.get("x") or {}).get("shape"),
                                              "y": (case.get("y") or {}).get("shape"), "eq": case.get("eq"), "out": case.get("out"),
                                              "lay": case.get("lay"), "result": impl.get("error", impl.get("shape", impl.get("kind")))})
    ctx.count(f"fn={fn}")
    ctx.count(f"tier={'exact' if exact else 'tolerance'}")
    ctx.count("outcome=" + (impl["error"] if is_err else "value"))
    if is_err:
        ctx.count(f"error[{fn}]={impl['error']}")
    if case.get("x") is not None:
        ctx.count(f"rank_x={len(case['x']['shape'])}")
    if case.get("out"):
        ctx.count(f"out={case['out']}")
    if case.get("useI") or (case.get("x") or {}).get("dtype") == "f32" or (case.get("y") or {}).get("dtype") == "f32":
        ctx.count("float32_operand")
    for k, lay in (case.get("lay") or {}).items():
        if lay:
            for feat in lay:
                ctx.count(f"layout[{'out' if k == 'out' else 'operand'}]={feat}")
    if iextra.get("noncontig"):
        ctx.count("operand_noncontiguous")
    if iextra.get("out_noncontig"):
        ctx.count("out_buffer_noncontiguous")
    if case.get("share"):
        ctx.count("shared_storage")
    if case.get("prev"):
        ctx.count("history=second_call_after_inplace_update")
    if case.get("regime"):
        ctx.count(f"regime[{fn}]={case['regime']}")
    cform = call_form(case)
    if cform is not None:
        ctx.count(f"call_form[{fn}]={cform['style']}")
        if fn == "einsum":
            ctx.count(f"flag_form[real_part]={'omitted' if cform['omit_rp'] else cform['rp']['form']}")
            ctx.count(f"flag_form[imag_part]={'omitted' if cform['omit_ip'] else cform['ip']['form']}")
            if cform["kw_operands"]:
                ctx.count("call_form[einsum]=operands_by_keyword")
    sig = sig_of(case, fn, 'err' if is_err else 'value')
    th = THEOREMS.get(fn)
    with np.errstate(all="ignore"):
        want = oracle_value(case)
    finite_impl = [abs(v) for v in flat_of(impl) if math.isfinite(v)] if not is_err else []
    scale = 1.0 + max(finite_impl + [0.0])
    # tolerance tier: per-entry normaliser (flat, aligned with flat_of(impl))
    nrm = None
    if not exact and not is_err and want[0] in ("c", "r"):
        sc = entry_scale(case, want).ravel().tolist()
        nrm = sc + sc if want[0] == "c" else sc
        if len(nrm) != len(flat_of(impl)):
            nrm = None

    def vpoint(name, ivals, mvals, sg):
        if exact:
            ctx.point(name, "property", ivals, mvals, case, exact=True, theorem=th, sig=sg)
        elif nrm is not None and len(mvals) == len(nrm) == len(ivals):
            # relative to the magnitude of each entry, not to the largest entry of the tensor
            ni, nm_ = normalised(ivals, nrm, floor_of(case)), normalised(mvals, nrm, floor_of(case))
            # a Float model value that overflowed (inf / nan) where the implementation returns a finite number carries no verdict
            # (the rule of Ctx.point, DESIGN 13.8: the theorems are about reals; a rewrite MORE stable than the modelled algorithm
            # must not alarm - the independent exact-rational / numpy oracle below decides those entries)
            skip = {k for k in range(len(ni)) if not math.isfinite(mvals[k]) and math.isfinite(ivals[k])}
            if skip:
                ctx.count("model_nonfinite_skipped(vpoint)")
            bad = [k for k in range(len(ni)) if k not in skip and not close(ni[k], nm_[k])]
            if not bad:
                ctx.point(name, "property", ni, nm_, case, scale=1.0, theorem=th, sig=sg)
            else:
                # report the RAW values of the offending entry (the comparison itself was made on value / entry magnitude)
                k = bad[0]
                ctx.point(name, "property", {"index": k, "value": ivals[k], "entry_magnitude": nrm[k], "all": ivals[:64]},
                          {"index": k, "value": mvals[k], "entry_magnitude": nrm[k], "all": mvals[:64]}, case, exact=True, theorem=th, sig=sg)
        else:
            ctx.point(name, "property", ivals, mvals, case, scale=scale, theorem=th, sig=sg)

    # ---------------- correspondence with the Lean model
    untok = fn == "einsum" and eq_to_json(case["eq"]) is None
    if untok:
        # the STRING is malformed (stray '.', wrong number of operands): not expressible in the model's tokens; oracle only
        ctx.count("einsum_untokenisable(oracle-only)")
    if fn == "einsum":
        pe = parse_eq_full(case["eq"])
        form = "malformed-string" if pe is None else (
            ("ellipsis+" if any(ELL in t for t in (pe[0], pe[1], pe[2] or [])) else "") + ("implicit" if pe[2] is None else "explicit"))
        ctx.count(f"einsum_form={form}")
    if ctx.driver is not None and not untok:
        model, mextra = run_model(ctx, case)
        i_struct = {k: impl.get(k) for k in ("error", "shape", "kind")}
        m_struct = {k: model.get(k) for k in ("error", "shape", "kind")}
        # the property says unsupported operands are rejected "with an error rather than a wrong value": WHICH exception type
        # is raised is not constrained, so only rejected / not rejected is compared
        i_struct["error"] = i_struct["error"] is not None
        m_struct["error"] = m_struct["error"] is not None
        if fn == "scalar_mult":
            # result DTYPE: the property speaks of values and of rejection only, so the dtype of a NEW result tensor is not demanded
            # (a rewrite that promotes mixed float32 / float64 operands to the wider type still returns the right value); the
            # only dtype statement kept is the documented "overwrites `out`": an accepted out= buffer comes back with its own dtype
            if case.get("out") in OUT_BUFFER_MODES:
                i_struct["dtype"] = impl.get("dtype")
                m_struct["dtype"] = model.get("dtype")
            i_struct["id"] = iextra.get("id")
            m_struct["id"] = mextra.get("id")
        ctx.point(f"{fn}.kind_shape", "property", i_struct, m_struct, case, exact=True, theorem=th, sig=sig + "/shape")
        if iextra.get("mem") is not None and "after" in iextra["mem"]:
            # the storage model: the whole memory behind the call (operands, buffer, padding cells of the workspaces)
            mm = iextra["mem"]
            ctx.count("storage_model_cases")
            mr = ctx.driver.call("c15.mem", num="int", mem=[int(v) for v in mm["before"]], x=mm["x"], y=mm["y"], out=mm["out"])
            if True:
                ctx.point("scalar_mult.storage.kind", "property", impl.get("error") is not None, mr.get("error") is not None, case, exact=True,
                          theorem="C15_scalar_mult_out_storage, C15_scalar_mult_out_view", sig="scalar_mult/storage/kind")
            mem_model = mm["before"] if "error" in mr else [float(v) for v in mr["mem"]]
            ctx.point("scalar_mult.storage.memory_after", "property", mm["after"], mem_model, case, exact=True,
                      theorem="C15_scalar_mult_out_storage, C15_scalar_mult_out_view", sig="scalar_mult/storage/memory")
            if not is_err and "error" not in mr:
                ctx.point("scalar_mult.storage.value", "property", flat_of(impl), [float(v) for v in mr["data"]], case, exact=True,
                          theorem="C15_scalar_mult_out_storage, C15_scalar_mult_out_view", sig="scalar_mult/storage/value")
        if not is_err and "error" not in model and impl.get("kind") != "none":
            vpoint(f"{fn}.value", flat_of(impl), flat_of(model), sig)
            if iextra.get("buffer") is not None and iextra["buffer"].get("shape") == model.get("shape"):
                # the caller's buffer (read through the caller's own view) holds the model's value
                vpoint(f"{fn}.out_buffer", flat_of(iextra["buffer"]), flat_of(model), f"{fn}/out-buffer")

    # ---------------- the property itself on the implementation
    if iextra.get("I_intact") is not None:
        ctx.oracle("cplx.I not overwritten", iextra["I_intact"], case, sig=f"{fn}/cplx.I-intact", theorem="C15_rejects_scalar_mult_alias")
    if iextra.get("out_untouched") is not None and is_err:
        ctx.oracle(f"{fn} rejected out= buffer not written", iextra["out_untouched"], case, sig=f"{fn}/out-untouched",
                   theorem="C15_rejects_scalar_mult_out_shape")
    if iextra.get("operands_intact") is not None:
        ctx.oracle(f"{fn} leaves its operands (and their workspaces) unchanged", iextra["operands_intact"], case,
                   sig=f"{fn}/operands-intact", theorem=th)
    if iextra.get("workspace_clean") is not None and not is_err:
        ctx.oracle(f"{fn} writes only the cells of the out= view", iextra["workspace_clean"], case,
                   sig=f"{fn}/out-workspace", theorem="C15_scalar_mult_out")
    if want[0] == "err":
        ctx.oracle(f"{fn} rejects", is_err, case,
                   detail={"impl": impl if is_err else {"shape": impl.get("shape")}, "expected_error": want[1]},
                   sig=f"{fn}/rejects", theorem=th)
        return
    if want[0] == "none":
        ctx.oracle(f"{fn} none", impl.get("kind") == "none", case, detail={"impl": impl}, sig=f"{fn}/none", theorem=th)
        return
    if is_err:
        ctx.oracle(f"{fn} accepts", False, case, detail={"impl": impl, "expected_shape": list(want[1].shape)}, sig=f"{fn}/accepts", theorem=th)
        return
    arr = np.asarray(want[1])
    edge_regime = case.get("regime") in EDGE

    def against_oracle(res, label, sg):
        if "re" in res:  # ndarray result of cplx.numpy
            got_shape = res["shape"]
            got = np.asarray(res["re"]).reshape(got_shape) + 1j * np.asarray(res["im"]).reshape(got_shape)
        elif want[0] == "c":
            got_shape = res["shape"][1:]
            a = np.asarray(res["data"]).reshape(res["shape"]) if res["shape"] and res["shape"][0] == 2 else None
            got = None if a is None else a[0] + 1j * a[1]
        else:
            got_shape = res["shape"]
            got = np.asarray(res["data"]).reshape(got_shape)
        ok = got is not None and list(got_shape) == list(arr.shape)
        detail = None
        if ok:
            if exact:
                ok = bool(np.array_equal(got, arr))
            else:
                with np.errstate(all="ignore"):
                    sc = entry_scale(case, want)
                    fin = np.isfinite(arr) & np.isfinite(sc)
                    # non-finite true value (division by an exact zero, …): only the class is compared
                    ok = bool(np.all(np.isfinite(got) == fin)) and \
                        bool(np.all(np.abs(got[fin] - arr[fin]) <= 1e-7 * sc[fin] + (1e-9 * TINY_EDGE if edge_regime else TINY)))
        if not ok:
            detail = {"impl_shape": res.get("shape"), "expected_shape": list(arr.shape),
                      "impl": str(np.asarray(got).ravel()[:16].tolist()) if got is not None else None, "expected": str(arr.ravel()[:16].tolist())}
        ctx.oracle(label, ok, case, detail=detail, sig=sg, theorem=th)

    against_oracle(impl, f"{fn} == complex arithmetic", sig_of(case, fn, "oracle"))
    if iextra.get("buffer") is not None:
        against_oracle(iextra["buffer"], f"{fn}: the out= buffer holds the product", f"{fn}/out-buffer-oracle")
    if "dtype" in impl:
        # informational only (final pass, audit item C15-4): the dtype of a newly created result is not part of the property
        ctx.count(f"result_dtype[{fn}]={impl['dtype']}")
        if fn == "scalar_mult" and case.get("out") in OUT_BUFFER_MODES:
            ctx.oracle(f"{fn}: an accepted out= buffer keeps its dtype", impl["dtype"] == result_dtype_expected(case), case,
                       detail={"impl": impl["dtype"], "expected": result_dtype_expected(case)}, sig=f"{fn}/out-dtype",
                       theorem="C15_scalar_mult_out")


# ------------------------------------------------------------------ generators
I_T = T([2], [0.0, 1.0], "f32")

LIB_EQS = ["ib,ibg->bg", "b,bg->g", "ijb,ijbg->bg", "ab,cd->acbd"]
MORE_EQS = ["ij,jk->ik", "ab,ab->", "a,b->ba", "ab,b->a", "abc,cd->abd", "ii,i->i", "ab,ba->", ",a->a", "a,->a", ",->",
            "ab,ab->ab", "abc,abd->cd", "ab,c->cab", "aab,b->a", "ij,ij->j", "abcd,cd->ab", "ab,bcd->acd"]


IMPLICIT_EQS = ["ij,jk", "ba,ac", "ji,jk", "ii,i", "ij,ij", "i,j", "Ba,aC", "aB,Ba", "a,B", "ab,cd", "a,a", ",", "a,", ",a", "abc,cb",
                "i j , j k", "ab , bc -> ac", "aab,b", "ib,ibg", "bg,b", "zy,yx", "ab,ba"]
ELLIPSIS_EQS = ["...j,jk->...k", "...j,jk", "...ij,...jk->...ik", "...ij,...jk", "i...,i...->...", "i...j,j->i...", "ij,jk->...ik", "...,...",
                "j...,j", "b...a,a", "...j,jk->k", "a...,...a->...", "a...b,b...->a...", "...a,...a->...", "...,...->...", "...ab,...->...ba",
                "...i,i->i...", "...a,...b", "...,", ",...", "ij,jk->...", "... j , j k -> ... k", "i...i,i->...", "...a,...a", "a...,a...->a",
                "...b,...bg->...g", "i...b,i...bg->...bg", "...,...->", "a...,b...->ba..."]


def general_shapes(rng, eq, bcast=False):
    """operand shapes for a well-formed general equation: named labels get lengths 1-3, the ellipsis stands for the last k
    of K <= 2 shared axes (aligned from the right, some of them of length 1 in one operand: broadcasting)"""
    a, b, _ = parse_eq_full(eq)
    size = {l: rng.choice([1, 2, 2, 3]) for l in set(a + b) if l != ELL}
    K = rng.choice([0, 1, 1, 2, 2])
    E = [rng.choice([1, 2, 3]) for _ in range(K)]
    full = rng.choice([0, 1])   # this operand gets all K axes (if it has an ellipsis)
    shapes = []
    for w, toks in enumerate((a, b)):
        k = K if w == full else rng.randint(0, K)
        ed = [1 if rng.random() < 0.2 else d for d in E[K - k:]]
        sh = []
        for t in toks:
            sh += ed if t == ELL else [size[t]]
        shapes.append(sh)
    if bcast:
        cands = [(0, p_) for p_, l in enumerate(a) if l != ELL and ELL not in a and a.count(l) == 1 and l in b and size[l] > 1] + \
                [(1, p_) for p_, l in enumerate(b) if l != ELL and ELL not in b and b.count(l) == 1 and l in a and size[l] > 1]
        if cands:
            w, p_ = rng.choice(cands)
            shapes[w][p_] = 1
    return shapes[0], shapes[1]


def rand_general_equation(rng):
    """a random explicit equation turned into an implicit-output and / or ellipsis equation"""
    eq, _size = rand_equation(rng)
    a, b, out = parse_eq(eq)

    def ins(sub, p=0.5):
        if rng.random() < p:
            k = rng.randint(0, len(sub))
            return sub[:k] + "..." + sub[k:], True
        return sub, False
    a, ea = ins(a)
    b, eb = ins(b)
    if rng.random() < 0.45:
        return f"{a},{b}"
    if ea or eb or rng.random() < 0.15:
        out, _ = ins(out, 0.75)
    return f"{a},{b}->{out}"


def rand_equation(rng):
    labels = "abcde"[: rng.randint(1, 4)]
    size = {l: rng.choice([1, 2, 2, 3]) for l in labels}
    a = "".join(rng.choice(labels) for _ in range(rng.randint(0, 3)))
    b = "".join(rng.choice(labels) for _ in range(rng.randint(0, 3)))
    used = list(dict.fromkeys(a + b))
    rng.shuffle(used)
    out = "".join(used[: rng.randint(0, len(used))])
    return f"{a},{b}->{out}", size


def shapes_for(eq, size, rng, bcast=False):
    a, b, _ = parse_eq(eq)
    sa = [size[l] for l in a]
    sb = [size[l] for l in b]
    if bcast:
        # turn one axis of one operand into a size-1 axis when its label is not repeated inside that operand
        cands = [(0, p) for p, l in enumerate(a) if a.count(l) == 1 and l in b and size[l] > 1] + \
                [(1, p) for p, l in enumerate(b) if b.count(l) == 1 and l in a and size[l] > 1]
        if cands:
            w, p = rng.choice(cands)
            (sa if w == 0 else sb)[p] = 1
    return sa, sb


def eq_sizes(eq, rng):
    a, b, out = parse_eq(eq)
    return {l: rng.choice([1, 2, 2, 3, 3]) for l in sorted(set(a + b + out))}


def gen_exact(ctx, n_scale):
    rng = ctx.rng
    num = "int"
    R = lambda k: range(max(1, int(k * n_scale)))  # noqa: E731

    # construction and conversion
    for _ in R(120):
        s = rand_shape(rng)
        mode = rng.choice(["xy", "xy", "none", "np", "np_real"])
        if mode == "xy":
            yield {"fn": "make_complex", "num": num, "x": rand_real(rng, s, num), "y": rand_real(rng, s, num)}
        elif mode == "none":
            yield {"fn": "make_complex", "num": num, "x": rand_real(rng, s, num), "y": None}
        else:
            n = numel(s)
            yield {"fn": "make_complex_np", "num": num, "shape": s, "re": rand_vals(rng, n, num),
                   "im": [0.0] * n if mode == "np_real" else rand_vals(rng, n, num), "np_real": mode == "np_real"}
    for _ in R(150):
        s = rand_shape(rng)
        yield {"fn": rng.choice(["real", "imag", "numpy"]), "num": num, "x": rand_cplx(rng, s, num)}
    # scalar / elementwise products: broadcasting, out=, dtypes
    for _ in R(700):
        s = rand_shape(rng)
        t = bcast_partner(rng, s)
        if rng.random() < 0.5:
            s, t = t, s
        x, y = rand_cplx(rng, s, num), rand_cplx(rng, t, num)
        r = rng.random()
        case = {"fn": "scalar_mult", "num": num, "x": x, "y": y, "out": None}
        if r < 0.25:
            case["fn"] = "elementwise_mult"
        elif r < 0.45:
            case["out"] = "fresh"
        elif r < 0.5:
            case["out"] = "fresh32"
        elif r < 0.6:
            # mixed dtypes: the operand of the other dtype is replaced by a cast copy inside the kernel
            (x if rng.random() < 0.5 else y)["dtype"] = "f32"
            case["out"] = rng.choice([None, "fresh", "fresh32"])
        elif r < 0.68:
            case["same"] = True
            case["y"] = x
        yield case
    # the library's own float32 constant cplx.I
    for _ in R(80):
        s = rand_shape(rng)
        z = rand_cplx(rng, s, num)
        if rng.random() < 0.7:
            yield {"fn": rng.choice(["scalar_mult", "elementwise_mult"]), "num": num, "x": z, "y": dict(I_T), "useI": "y", "out": None}
        else:
            yield {"fn": "scalar_mult", "num": num, "x": dict(I_T), "y": z, "useI": "x", "out": None}
    for _ in R(20):
        z = rand_cplx(rng, [], num)
        yield {"fn": "inner_prod", "num": num, "x": z, "y": dict(I_T), "useI": "y"}
    # matmul
    for _ in R(420):
        m, k, p = rng.randint(1, 3), rng.randint(1, 3), rng.randint(1, 3)
        b1, b2 = rng.randint(1, 3), rng.randint(1, 2)
        form = rng.choice(["mm", "mm", "mv", "mv", "vm", "vv", "bmm", "bmm1", "bm_m", "m_bm", "v_bm", "bm_v", "b2"])
        sx, sy = {
            "mm": ([m, k], [k, p]), "mv": ([m, k], [k]), "vm": ([k], [k, p]), "vv": ([k], [k]),
            "bmm": ([b1, m, k], [b1, k, p]), "bmm1": ([b1, m, k], [1, k, p]), "bm_m": ([b1, m, k], [k, p]),
            "m_bm": ([m, k], [b1, k, p]), "v_bm": ([k], [b1, k, p]), "bm_v": ([b1, m, k], [k]),
            "b2": ([b2, 1, m, k], [b1, k, p]),
        }[form]
        ctx.count(f"matmul_form={form}")
        yield {"fn": "matmul", "num": num, "x": rand_cplx(rng, sx, num), "y": rand_cplx(rng, sy, num)}
    # inner / outer / norm_sqr
    for _ in R(260):
        n, m = rng.randint(1, 4), rng.randint(1, 4)
        r = rng.random()
        if r < 0.4:
            yield {"fn": "inner_prod", "num": num, "x": rand_cplx(rng, [n], num), "y": rand_cplx(rng, [n], num)}
        elif r < 0.5:
            yield {"fn": "inner_prod", "num": num, "x": rand_cplx(rng, [], num), "y": rand_cplx(rng, [], num)}
        elif r < 0.85:
            yield {"fn": "outer_prod", "num": num, "x": rand_cplx(rng, [n], num), "y": rand_cplx(rng, [m], num)}
        else:
            yield {"fn": "norm_sqr", "num": num, "x": rand_cplx(rng, rng.choice([[], [n]]), num)}
    # einsum
    for _ in R(560):
        r = rng.random()
        if r < 0.35:
            eq = rng.choice(LIB_EQS)
            size = eq_sizes(eq, rng)
        elif r < 0.6:
            eq = rng.choice(MORE_EQS)
            size = eq_sizes(eq, rng)
        else:
            eq, size = rand_equation(rng)
        sa, sb = shapes_for(eq, size, rng, bcast=rng.random() < 0.2)
        rp, ip = rng.choice([(True, True), (True, True), (True, False), (False, True), (False, False)])
        ctx.count(f"einsum_flags={int(rp)}{int(ip)}")
        yield {"fn": "einsum", "num": num, "eq": eq, "x": rand_cplx(rng, sa, num), "y": rand_cplx(rng, sb, num), "rp": rp, "ip": ip}
    # einsum: implicit-output and ellipsis equations (audit item C15-2), all four flag combinations
    for _ in R(420):
        r = rng.random()
        if r < 0.3:
            eq = rng.choice(IMPLICIT_EQS)
        elif r < 0.65:
            eq = rng.choice(ELLIPSIS_EQS)
        else:
            eq = rand_general_equation(rng)
        sa, sb = general_shapes(rng, eq, bcast=rng.random() < 0.15)
        rp, ip = rng.choice([(True, True), (True, True), (True, False), (False, True), (False, False)])
        ctx.count(f"einsum_flags={int(rp)}{int(ip)}")
        yield {"fn": "einsum", "num": num, "eq": eq, "x": rand_cplx(rng, sa, num), "y": rand_cplx(rng, sb, num), "rp": rp, "ip": ip}
    # conjugation
    for _ in R(260):
        s = rand_shape(rng)
        if len(s) >= 2 and rng.random() < 0.7 and s[0] == s[1]:
            s[1] = s[0] % 3 + 1  # prefer non-square leading axes
        yield {"fn": rng.choice(["conjugate", "conjugate", "conj"]), "num": num, "x": rand_cplx(rng, s, num)}
    # Kronecker product, non-square
    for _ in R(220):
        sx = [rng.randint(1, 3), rng.randint(1, 3)]
        sy = [rng.randint(1, 3), rng.randint(1, 3)]
        yield {"fn": "kronecker_prod", "num": num, "x": rand_cplx(rng, sx, num), "y": rand_cplx(rng, sy, num)}


def gen_tolerance(ctx, n_scale):
    rng = ctx.rng
    num = "float"
    R = lambda k: range(max(1, int(k * n_scale)))  # noqa: E731
    for _ in R(330):
        s = rand_shape(rng)
        sc = rng.choice([0.1, 1.0, 1.0, 10.0])
        fn = rng.choice(FIELD_FNS)
        if fn == "elementwise_division":
            yield {"fn": fn, "num": num, "x": rand_cplx(rng, s, num, sc), "y": rand_cplx(rng, s, num, sc)}
        elif fn in ("absolute_value", "inverse"):
            yield {"fn": fn, "num": num, "x": rand_cplx(rng, s, num, sc)}
        elif fn == "norm":
            yield {"fn": fn, "num": num, "x": rand_cplx(rng, rng.choice([[], [rng.randint(1, 4)]]), num, sc)}
        elif fn == "scalar_divide":
            t = bcast_partner(rng, s)
            yield {"fn": fn, "num": num, "x": rand_cplx(rng, s, num, sc), "y": rand_cplx(rng, t, num, sc)}
        else:
            t = bcast_partner(rng, s) if rng.random() < 0.3 else list(s)
            yield {"fn": fn, "num": num, "x": rand_real(rng, s, num, min(sc, 3.0)), "y": rand_real(rng, t, num, sc)}
    # the Float instantiation of the ring operations
    for _ in R(120):
        fn = rng.choice(["scalar_mult", "matmul", "inner_prod", "outer_prod", "einsum", "conjugate", "kronecker_prod", "norm_sqr"])
        n, m, k = rng.randint(1, 3), rng.randint(1, 3), rng.randint(1, 3)
        if fn == "scalar_mult":
            s = rand_shape(rng)
            yield {"fn": fn, "num": num, "x": rand_cplx(rng, s, num), "y": rand_cplx(rng, bcast_partner(rng, s), num), "out": None}
        elif fn == "matmul":
            yield {"fn": fn, "num": num, "x": rand_cplx(rng, [n, k], num), "y": rand_cplx(rng, rng.choice([[k, m], [k]]), num)}
        elif fn == "inner_prod":
            yield {"fn": fn, "num": num, "x": rand_cplx(rng, [n], num), "y": rand_cplx(rng, [n], num)}
        elif fn == "outer_prod":
            yield {"fn": fn, "num": num, "x": rand_cplx(rng, [n], num), "y": rand_cplx(rng, [m], num)}
        elif fn == "einsum":
            if rng.random() < 0.5:
                eq = rng.choice(LIB_EQS)
                size = eq_sizes(eq, rng)
                sa, sb = shapes_for(eq, size, rng)
            else:
                eq = rng.choice(IMPLICIT_EQS + ELLIPSIS_EQS)
                sa, sb = general_shapes(rng, eq)
            yield {"fn": fn, "num": num, "eq": eq, "x": rand_cplx(rng, sa, num), "y": rand_cplx(rng, sb, num), "rp": True, "ip": rng.random() < 0.6}
        elif fn == "conjugate":
            yield {"fn": fn, "num": num, "x": rand_cplx(rng, rand_shape(rng), num)}
        elif fn == "kronecker_prod":
            yield {"fn": fn, "num": num, "x": rand_cplx(rng, [n, k], num), "y": rand_cplx(rng, [m, n], num)}
        else:
            yield {"fn": fn, "num": num, "x": rand_cplx(rng, [n], num)}


def rand_cplx_mag(rng, tshape, lo, hi, zeros=0.0, mixed=True):
    """complex tensor whose entries have moduli 10^U(lo,hi) (one exponent per entry when `mixed`, else one per tensor +-1),
    random phases, a share of purely real / purely imaginary entries and exact zeros"""
    n = numel(tshape)
    base = rng.uniform(lo, hi)
    re, im = [], []
    for _ in range(n):
        e = rng.uniform(lo, hi) if mixed else min(hi, max(lo, base + rng.uniform(-1.0, 1.0)))
        m = 10.0 ** e
        u = rng.random()
        if u < zeros:
            a, b = 0.0, 0.0
        elif u < zeros + 0.08:
            a, b = m * rng.choice([-1.0, 1.0]), 0.0
        elif u < zeros + 0.16:
            a, b = 0.0, m * rng.choice([-1.0, 1.0])
        else:
            phi = rng.uniform(0.0, 2.0 * math.pi)
            a, b = m * math.cos(phi), m * math.sin(phi)
        re.append(a)
        im.append(b)
    return T([2] + list(tshape), re + im)


SIG_REGIMES = ["left_tail", "left_tail", "right_tail", "far_right", "underflow", "mixed", "real_axis", "overflow_right", "overflow_right"]
EXP_MAX = 709.782712893384  # log(DBL_MAX): e^x overflows beyond


def rand_sigmoid_args(rng, s, t, regime):
    """real and imaginary part tensors for the sigmoid in a given regime of Re z. `overflow_right`: Re z in (709.78, 1000],
    where e^z overflows although the sigmoid is 1 to rounding (the formula e^z/(1+e^z) gives inf/inf = nan there: F17)."""
    def re_val():
        r = regime if regime not in ("mixed", "overflow_right") else rng.choice(
            ["left_tail", "right_tail", "moderate", "far_right", "underflow", "zero"] if regime == "mixed" else
            ["overflow_right", "overflow_right", "overflow_right", "left_tail", "far_right", "moderate", "edge"])
        if r == "overflow_right":
            return rng.uniform(EXP_MAX + 1e-3, 1000.0)
        if r == "edge":
            return EXP_MAX + rng.choice([1e-6, 0.01, 0.5, 1.0, 35.0, 36.1, 40.0])
        if r == "left_tail":
            return -rng.uniform(30.0, 700.0)
        if r == "right_tail":
            return rng.uniform(30.0, 350.0)
        if r == "far_right":
            return rng.uniform(350.0, 700.0)
        if r == "underflow":
            return -rng.uniform(700.0, 800.0)
        if r == "zero":
            return 0.0
        return rng.gauss(0.0, 5.0)

    def im_val():
        u = rng.random()
        if regime == "real_axis" or u < 0.1:
            return 0.0
        if u < 0.6:
            return rng.uniform(-math.pi, math.pi) * 0.97
        if u < 0.8:
            return rng.gauss(0.0, 50.0)
        return rng.gauss(0.0, 1.0)
    if regime == "real_axis":
        xs = [rng.choice([-1.0, 1.0]) * rng.choice([rng.uniform(0, 5), rng.uniform(30, 350), rng.uniform(350, 700)]) for _ in range(numel(s))]
    else:
        xs = [re_val() for _ in range(numel(s))]
    if regime == "overflow_right" and numel(s) > 0 and max(xs) <= EXP_MAX:
        xs[rng.randrange(len(xs))] = rng.uniform(EXP_MAX + 1e-3, 1000.0)   # at least one entry beyond the overflow point
    return T(s, xs), T(t, [im_val() for _ in range(numel(t))])


def gen_ranges(ctx, n_scale):
    """RANGE dimension of the tolerance tier: saturation / tails of the sigmoid, very large / small / mixed moduli and exact
    zeros for division, inverse, modulus, norms and products (moduli 1e-140..1e140; the range beyond is `gen_extreme`)."""
    rng = ctx.rng
    num = "float"
    R = lambda k: range(max(1, int(k * n_scale)))  # noqa: E731
    for _ in R(160):
        s = rand_shape(rng)
        t = bcast_partner(rng, s) if rng.random() < 0.3 else list(s)
        regime = rng.choice(SIG_REGIMES)
        x, y = rand_sigmoid_args(rng, s, t, regime)
        yield {"fn": "sigmoid", "num": num, "x": x, "y": y, "regime": regime}
    for _ in R(420):
        s = rand_shape(rng)
        fn = rng.choice(["elementwise_division", "elementwise_division", "inverse", "inverse", "absolute_value", "absolute_value",
                         "norm", "scalar_divide", "scalar_divide", "norm_sqr", "scalar_mult", "elementwise_mult", "conj", "matmul",
                         "inner_prod", "outer_prod", "kronecker_prod"])
        regime = rng.choice(["large", "small", "wide_mixed", "wide_mixed", "unit", "with_zeros"])
        lo, hi = {"large": (20.0, 140.0), "small": (-140.0, -20.0), "wide_mixed": (-140.0, 140.0), "unit": (-3.0, 3.0),
                  "with_zeros": (-30.0, 30.0)}[regime]
        if fn in ("norm_sqr", "scalar_mult", "elementwise_mult", "matmul", "inner_prod", "outer_prod", "kronecker_prod"):
            lo, hi = lo / 2.0, hi / 2.0   # products of two entries (and |x|^2) must stay finite
        zeros = 0.25 if regime == "with_zeros" else 0.0
        mixed = regime in ("wide_mixed", "with_zeros") or rng.random() < 0.3
        mk = lambda shape: rand_cplx_mag(rng, shape, lo, hi, zeros=zeros, mixed=mixed)  # noqa: E731
        c = {"fn": fn, "num": num, "regime": regime}
        if fn == "elementwise_division":
            c.update(x=mk(s), y=mk(s))
        elif fn in ("inverse", "absolute_value", "conj"):
            c.update(x=mk(s))
        elif fn in ("norm", "norm_sqr"):
            c.update(x=mk(rng.choice([[], [rng.randint(1, 4)]])))
        elif fn in ("scalar_divide", "scalar_mult", "elementwise_mult"):
            c.update(x=mk(s), y=mk(bcast_partner(rng, s)))
            if fn == "scalar_mult":
                c["out"] = rng.choice([None, None, "fresh"])
        elif fn == "matmul":
            n, k, m = rng.randint(1, 3), rng.randint(1, 3), rng.randint(1, 3)
            c.update(x=mk([n, k]), y=mk(rng.choice([[k, m], [k]])))
        elif fn == "inner_prod":
            n = rng.randint(1, 4)
            c.update(x=mk([n]), y=mk([n]))
        elif fn == "outer_prod":
            c.update(x=mk([rng.randint(1, 3)]), y=mk([rng.randint(1, 3)]))
        else:
            c.update(x=mk([rng.randint(1, 3), rng.randint(1, 3)]), y=mk([rng.randint(1, 2), rng.randint(1, 3)]))
        yield c


def cplx_with_exps(rng, tshape, exps):
    """complex tensor whose entry k has modulus 10**exps[k]: random phase, sometimes purely real / imaginary"""
    re, im = [], []
    for e in exps:
        m = 10.0 ** e
        u = rng.random()
        if u < 0.12:
            a, b = m * rng.choice([-1.0, 1.0]), 0.0
        elif u < 0.24:
            a, b = 0.0, m * rng.choice([-1.0, 1.0])
        elif u < 0.32:
            # one component negligible against the other (but non-zero)
            a, b = m * rng.choice([-1.0, 1.0]), m * 10.0 ** -rng.uniform(20.0, 200.0) * rng.choice([-1.0, 1.0])
            if rng.random() < 0.5:
                a, b = b, a
        else:
            phi = rng.uniform(0.0, 2.0 * math.pi)
            a, b = m * math.cos(phi), m * math.sin(phi)
        re.append(a)
        im.append(b)
    return T([2] + list(tshape), re + im)


EXT_LO, EXT_HI, EXT_SMALL = 155.0, 300.0, 280.0   # results below 1e-280 are too close to TINY for a relative comparison


def ext_exponent(rng, regime):
    if regime == "extreme_large" or (regime == "extreme_mixed" and rng.random() < 0.5):
        return rng.uniform(EXT_LO, EXT_HI)
    return -rng.uniform(EXT_LO, EXT_SMALL)


def gen_extreme(ctx, n_scale):
    """EXTREME regime (audit item C15-1): moduli 1e+-(155..300); every operand finite, every true result finite and a
    normal number. |z|^2 formed explicitly overflows / underflows here; hypot and scaled division do not."""
    rng = ctx.rng
    num = "float"
    R = lambda k: range(max(1, int(k * n_scale)))  # noqa: E731
    for _ in R(260):
        fn = rng.choice(["absolute_value", "absolute_value", "inverse", "inverse", "elementwise_division", "elementwise_division",
                         "norm", "norm", "scalar_divide"])
        regime = rng.choice(["extreme_large", "extreme_small", "extreme_mixed"])
        s = rand_shape(rng)
        n = numel(s)
        c = {"fn": fn, "num": num, "regime": regime}
        if fn in ("absolute_value", "inverse"):
            c.update(x=cplx_with_exps(rng, s, [ext_exponent(rng, regime) for _ in range(n)]))
        elif fn == "norm":
            s = rng.choice([[], [rng.randint(1, 4)]])
            # mixed: one extreme entry dominates, the others may be of any size (they underflow against it harmlessly)
            ex = [ext_exponent(rng, regime) for _ in range(numel(s))]
            if regime == "extreme_mixed" and len(ex) > 1:
                big = rng.uniform(EXT_LO, EXT_HI)
                ex = [big if k == 0 else rng.uniform(-EXT_HI, big) for k in range(len(ex))]
                rng.shuffle(ex)
            c.update(x=cplx_with_exps(rng, s, ex))
        elif fn == "elementwise_division":
            ey = [ext_exponent(rng, regime) for _ in range(n)]
            # the quotient must be representable (and normal): |e_x - e_y| <= 280, |e_x| <= 300
            ex = [min(EXT_HI, max(-EXT_HI, e + rng.uniform(-EXT_SMALL, EXT_SMALL))) for e in ey]
            ex = [e if abs(e - f) <= EXT_SMALL else f + math.copysign(EXT_SMALL, e - f) for e, f in zip(ex, ey)]
            c.update(x=cplx_with_exps(rng, s, ex), y=cplx_with_exps(rng, s, ey))
        else:
            # scalar_divide with broadcasting: one exponent per tensor (+-1), quotient representable
            t = bcast_partner(rng, s)
            ey = ext_exponent(rng, regime)
            ex = min(EXT_HI - 2, max(-EXT_HI + 2, ey + rng.uniform(-EXT_SMALL + 5, EXT_SMALL - 5)))
            c.update(x=cplx_with_exps(rng, s, [ex + rng.uniform(-1, 1) for _ in range(n)]),
                     y=cplx_with_exps(rng, t, [ey + rng.uniform(-1, 1) for _ in range(numel(t))]))
        yield c


# ------------------------------------------------------------------ EDGE of the double range (hardening round 4)
RECIP_MIN = 0.3 / DBL_MAX   # smallest component of a divisor whose reciprocal must be representable: 1/z = z* / |z|^2 is finite from
#                             about 0.5 / MAX (equal components) or 1 / MAX (one component) on; `recip=True` doubles an entry until it is
SIG_UNDERFLOW = -708.3964185322641   # log(DBL_MIN): the sigmoid (~ e^z there) leaves the normal range below


def edge_mag(rng, side, lo_sub=RECIP_MIN):
    """a magnitude at the edge of the double range. large: [MAX/4, MAX] (DBL_MAX itself, its predecessor, round fractions) or
    the decades 1e300..1e308.25; small: [MIN, 4 MIN] (the smallest normal number, its successor) or 1e-300..1e-307.65;
    subnormal: [lo_sub, MIN)"""
    u = rng.random()
    if side == "large":
        if u < 0.2:
            return DBL_MAX * rng.choice([1.0, 1.0 - 2.0 ** -53, 0.99, 0.75, 0.55, 0.5, 0.3, 0.25])
        if u < 0.75:
            return DBL_MAX * rng.uniform(0.25, 1.0)
        return 10.0 ** rng.uniform(300.0, 308.25)
    if side == "small":
        if u < 0.2:
            return DBL_MIN * rng.choice([1.0, 1.0 + 2.0 ** -52, 1.5, 2.0, 3.0, 4.0])
        if u < 0.75:
            return DBL_MIN * rng.uniform(1.0, 4.0)
        return 10.0 ** -rng.uniform(300.0, 307.65)
    if side == "unit":
        return rng.uniform(0.25, 4.0)
    if u < 0.15:
        return rng.choice([lo_sub, DBL_MIN * (1.0 - 2.0 ** -52), DBL_MIN * 0.5])
    return rng.uniform(lo_sub, DBL_MIN)


def edge_pair(rng, side, lo_sub=RECIP_MIN):
    """(re, im) of one entry whose LARGER component is an edge magnitude: both at the edge, equal components (|z/scale|^2 = 2),
    one component negligible or exactly zero; random signs"""
    m1, m2 = edge_mag(rng, side, lo_sub), edge_mag(rng, side, lo_sub)
    u = rng.random()
    if u < 0.12:
        m2 = 0.0
    elif u < 0.3:
        m2 = m1
    elif u < 0.4:
        m2 = m1 * 10.0 ** -rng.uniform(1.0, 300.0)
    a, b = m1 * rng.choice([-1.0, 1.0]), m2 * rng.choice([-1.0, 1.0])
    return (b, a) if rng.random() < 0.5 else (a, b)


def edge_side(rng, regime):
    if regime == "edge_mixed":
        return rng.choice(["large", "small", "subnormal"])
    return regime[len("edge_"):]


def edge_tensor(rng, tshape, regime, lo_sub=RECIP_MIN, norm_cap=False, joint=False, recip=False):
    """complex tensor of edge entries. norm_cap: every modulus (joint: the Euclidean norm of ALL parts) must be representable
    with a little room (<= DBL_MAX (1 - 1e-9)): entries are shrunk by 0.7 until it is. recip: the exact reciprocal of every
    entry must be representable: a (sub-normal) entry is doubled until it is"""
    n = numel(tshape)
    ent = [edge_pair(rng, edge_side(rng, regime), lo_sub) for _ in range(n)]
    if recip:
        for k, (a, b) in enumerate(ent):
            while True:
                w = exact_quotient(1.0, complex(a, b))[()]
                if math.isfinite(w.real) and math.isfinite(w.imag) and math.hypot(w.real, w.imag) <= DBL_MAX * (1.0 - 1e-9):
                    break
                a, b = a * 2.0, b * 2.0
            ent[k] = (a, b)
    cap = DBL_MAX * (1.0 - 1e-9)
    if norm_cap and not joint:
        ent = [list(e) for e in ent]
        for e in ent:
            while not math.hypot(e[0], e[1]) <= cap:
                e[0], e[1] = e[0] * 0.7, e[1] * 0.7
    if joint:
        while n and not math.hypot(*[v for e in ent for v in e]) <= cap:
            ent = [(a * 0.7, b * 0.7) for a, b in ent]
    return T([2] + list(tshape), [e[0] for e in ent] + [e[1] for e in ent])


def edge_numerators(rng, s, ydec, qclass):
    """numerators x (complex ndarray of shape s) for the divisors `ydec` (broadcast to s): x = fl(q * y) with the quotient q of the
    class asked for -- unit: |q| = 10^U(-2,2); over: |q| in [MAX/4, MAX/2] (within a factor 4 of overflow; beyond MAX/2 the
    components of q |y/scale|^2, which every division algorithm forms, are no longer representable); under: |q| in [MIN, 4 MIN].
    Entries whose exact quotient would leave [0, MAX/2] are halved until it does not."""
    yb = np.broadcast_to(ydec, tuple(s))
    x = np.empty(tuple(s), dtype=np.complex128)
    for idx in np.ndindex(*tuple(s)):
        qm = {"unit": 10.0 ** rng.uniform(-2.0, 2.0), "over": DBL_MAX * rng.uniform(0.25, 0.5),
              "under": DBL_MIN * rng.uniform(1.0, 4.0)}[qclass]
        u = rng.random()
        phi = rng.choice([0.0, 0.5, 1.0, 1.5]) * math.pi if u < 0.15 else rng.uniform(0.0, 2.0 * math.pi)
        q = complex(qm * math.cos(phi), qm * math.sin(phi))
        v = exact_product(q, complex(yb[idx]))
        for _ in range(12):
            if math.isfinite(v.real) and math.isfinite(v.imag):
                w = exact_quotient(v, yb[idx])[()]
                if math.isfinite(w.real) and math.isfinite(w.imag) and math.hypot(w.real, w.imag) <= DBL_MAX / 2.0:
                    break
                v = complex(v.real / 2.0, v.imag / 2.0)
            else:
                q = complex(q.real / 2.0, q.imag / 2.0)
                v = exact_product(q, complex(yb[idx]))
        x[idx] = v
    return x


def cplx_T(arr):
    arr = np.asarray(arr, dtype=np.complex128)
    return T([2] + list(arr.shape), np.real(arr).ravel().tolist() + np.imag(arr).ravel().tolist())


def gen_edge(ctx, n_scale):
    """EDGE regime (hardening round 4): operands / results within a factor 4 of the largest double or of the smallest normal
    number (and sub-normal operands, and the decades 1e+-(300..308)), for every function of the EXTREME regime. All operands
    finite, every exact result representable; see the module docstring."""
    rng = ctx.rng
    num = "float"
    R = lambda k: range(max(1, int(k * n_scale)))  # noqa: E731
    for _ in R(150):
        fn = rng.choice(["absolute_value", "inverse", "inverse", "elementwise_division", "elementwise_division", "norm",
                         "scalar_divide", "scalar_divide"])
        regime = rng.choice(["edge_large", "edge_large", "edge_small", "edge_subnormal", "edge_mixed"])
        s = rand_shape(rng)
        c = {"fn": fn, "num": num, "regime": regime}
        if fn == "absolute_value":
            # any sub-normal component is admissible here (the modulus is representable)
            c.update(x=edge_tensor(rng, s, regime, lo_sub=5e-324, norm_cap=True))
        elif fn == "norm":
            c.update(x=edge_tensor(rng, rng.choice([[], [rng.randint(1, 4)]]), regime, lo_sub=5e-324, norm_cap=True, joint=True))
        elif fn == "inverse":
            c.update(x=edge_tensor(rng, s, regime, recip=True))
        else:
            if fn == "elementwise_division":
                t = list(s)
                # the divisor may also be an ordinary number with the NUMERATOR at the edge
                yreg = regime if rng.random() < 0.75 else "edge_unit"
                y = edge_tensor(rng, t, yreg, lo_sub=5e-324 if yreg != "edge_mixed" else RECIP_MIN)
            else:
                # scalar_divide = x * inverse(y): the divisor's reciprocal must itself be representable;
                # one side per divisor tensor, broadcast over x
                t = rng.choice([[], [], list(s), list(s[rng.randint(0, len(s)):]), [1 if rng.random() < 0.5 else d for d in s]])
                yreg = (regime if regime != "edge_mixed" else rng.choice(["edge_large", "edge_small"])) if rng.random() < 0.8 else "edge_unit"
                y = edge_tensor(rng, t, yreg, recip=True)
            side = yreg[len("edge_"):]
            qclass = rng.choice({"large": ["unit", "unit", "under"], "small": ["unit", "over", "over"],
                                 "subnormal": ["unit", "over"], "unit": ["over", "over", "under"], "mixed": ["unit"]}[side])
            c.update(x=cplx_T(edge_numerators(rng, s, decode(y), qclass)), y=y)
            if qclass != "unit" or yreg == "edge_unit":
                c["regime"] = "edge_quotient"
            c["qclass"] = qclass
        yield c
    # the sigmoid where its value leaves the normal range: Re z in [-746, -690] (values 1e-300 .. 5e-324), densest around log(DBL_MIN)
    for _ in R(40):
        s = rand_shape(rng)
        t = bcast_partner(rng, s) if rng.random() < 0.3 else list(s)

        def re_val():
            u = rng.random()
            if u < 0.45:
                return SIG_UNDERFLOW + rng.uniform(-1.5, 1.5)    # within a factor ~4 of the smallest normal number
            if u < 0.8:
                return rng.uniform(-746.0, -690.0)
            return rng.choice([-rng.uniform(30.0, 690.0), rng.gauss(0.0, 5.0), rng.uniform(30.0, 700.0)])

        def im_val():
            u = rng.random()
            return 0.0 if u < 0.1 else (rng.uniform(-math.pi, math.pi) * 0.97 if u < 0.7 else rng.gauss(0.0, 50.0))
        xs = [re_val() for _ in range(numel(s))]
        if xs and not any(-746.0 <= v <= -690.0 for v in xs):
            xs[rng.randrange(len(xs))] = SIG_UNDERFLOW + rng.uniform(-1.5, 1.5)
        yield {"fn": "sigmoid", "num": num, "x": T(s, xs), "y": T(t, [im_val() for _ in range(numel(t))]), "regime": "edge_underflow"}


POW2_UNITS = [(1, 0), (-1, 0), (0, 1), (0, -1), (2, 0), (0, -2), (1, 1), (1, -1), (-1, 1), (-1, -1), (2, 2), (-2, 2), (4, 0), (0, 4),
              (0.5, 0), (0, -0.5), (0.5, 0.5), (0.25, -0.25)]   # |z|^2 a power of two: 1/z and i/z are exact in float32


def pow2_cplx(rng, tshape, dtype="f64"):
    n = numel(tshape)
    zs = [rng.choice(POW2_UNITS) for _ in range(n)]
    return T([2] + list(tshape), [float(z[0]) for z in zs] + [float(z[1]) for z in zs], dtype)


def gen_const(ctx, n_scale):
    """the library's own float32 constant `cplx.I` (a quantifier item) as an operand of EVERY function that takes a complex scalar
    (final pass, audit item C15-3): einsum (either side, scalar subscripts / ellipsis), inner_prod on the left, the unary functions,
    scalar_divide on both sides, elementwise_division on both sides.  Values and - through `I_intact` - that the constant is never
    written.  Where the result is float32 (x = cplx.I: `y.to(x)`) the partner's entries have |z|^2 a power of two, so that every
    intermediate and the quotient are exact in float32 and the usual tolerances apply."""
    rng = ctx.rng
    R = lambda k: range(max(1, int(k * n_scale)))  # noqa: E731
    num = "int"
    for _ in R(70):
        side = rng.choice(["x", "y"])
        if side == "x":
            eq, k = rng.choice([(",a->a", 1), (",ab->ba", 2), (",->", 0), (",a", 1), (",ab", 2), ("...,...", None), (",...->...", None),
                                (",aa->a", "sq"), (",a->", 1)])
        else:
            eq, k = rng.choice([("a,->a", 1), ("ab,->ab", 2), (",->", 0), ("a,", 1), ("ba,", 2), ("...,...", None), ("...,->...", None),
                                ("ab,->b", 2), ("a...,->...a", "ge1")])
        if k is None:
            s = rand_shape(rng)
        elif k == "sq":
            d = rng.choice(DIMS)
            s = [d, d]
        elif k == "ge1":
            s = rand_shape(rng, rank=rng.randint(1, 3))
        else:
            s = [rng.choice(DIMS) for _ in range(k)]
        z = rand_cplx(rng, s, num)
        rp, ip = rng.choice([(True, True), (True, True), (True, False), (False, True), (False, False)])
        ctx.count(f"cplx.I_operand=einsum[{side}]")
        yield {"fn": "einsum", "num": num, "eq": eq, "x": dict(I_T) if side == "x" else z, "y": z if side == "x" else dict(I_T),
               "useI": side, "rp": rp, "ip": ip}
    for _ in R(60):
        fn = rng.choice(["conj", "conjugate", "norm_sqr", "real", "imag", "numpy", "inner_prod", "scalar_mult", "elementwise_mult"])
        ctx.count(f"cplx.I_operand={fn}")
        if fn == "inner_prod":
            yield {"fn": fn, "num": num, "x": dict(I_T), "y": rand_cplx(rng, [], num), "useI": "x"}
        elif fn in ("scalar_mult", "elementwise_mult"):
            # the constant as BOTH operands (the same object twice)
            c = {"fn": fn, "num": num, "x": dict(I_T), "y": dict(I_T), "same": True, "useI": "x"}
            if fn == "scalar_mult":
                c["out"] = rng.choice([None, "fresh", "fresh32"])
            yield c
        else:
            yield {"fn": fn, "num": num, "x": dict(I_T), "useI": "x"}
    num = "float"
    for _ in R(70):
        fn = rng.choice(["scalar_divide", "scalar_divide", "elementwise_division", "inverse", "absolute_value", "norm"])
        side = rng.choice(["x", "y"])
        ctx.count(f"cplx.I_operand={fn}" + (f"[{side}]" if fn in ("scalar_divide", "elementwise_division") else ""))
        if fn in ("inverse", "absolute_value", "norm"):
            yield {"fn": fn, "num": num, "x": dict(I_T), "useI": "x"}
        elif fn == "scalar_divide":
            s = rand_shape(rng)
            if side == "y":
                yield {"fn": fn, "num": num, "x": rand_cplx(rng, s, num, rng.choice([0.1, 1.0, 10.0])), "y": dict(I_T), "useI": "y"}
            else:
                yield {"fn": fn, "num": num, "x": dict(I_T), "y": pow2_cplx(rng, s), "useI": "x"}
        else:
            if side == "y":
                yield {"fn": fn, "num": num, "x": rand_cplx(rng, [], num), "y": dict(I_T), "useI": "y"}
            else:
                yield {"fn": fn, "num": num, "x": dict(I_T), "y": pow2_cplx(rng, []), "useI": "x"}


def gen_alias(ctx, n_scale):
    """out= buffers that are DIFFERENT objects sharing storage with an operand (x[...], view_as, detach, .data, an overlapping
    window of the same 1-D storage): accepted, and the returned value is the product of the operands as they were (fix 96aa40c)"""
    rng = ctx.rng
    num = "int"
    R = lambda k: range(max(1, int(k * n_scale)))  # noqa: E731
    for _ in R(140):
        s = rand_shape(rng)
        t = list(s)
        for _try in range(8):
            t = bcast_partner(rng, s)
            if np_broadcast(s, t) == s:
                break
        else:
            t = list(s)
        which = rng.choice(["x", "y"])
        big, small = rand_cplx(rng, s, num), rand_cplx(rng, t, num)
        how = rng.choice(["slice", "view_as", "detach", "data", "window", "window", "window"])
        al = {"with": which, "how": how}
        if how == "window":
            n = 2 * numel(s)
            shift = rng.choice([0, 1, -1, rng.randint(-n + 1, n - 1), rng.randint(-n + 1, n - 1), n // 2])
            al.update(shift=shift, lead=max(0, -shift) + rng.randint(0, 2), tail=max(0, shift) + rng.randint(0, 2))
        case = {"fn": "scalar_mult", "num": num, "x": big if which == "x" else small, "y": small if which == "x" else big,
                "out": "alias", "alias": al, "out_shape": [2] + s}
        if rng.random() < 0.15:
            # wrong-shaped storage-sharing buffer: still ValueError, nothing written
            case["out_shape"] = [2] + s + [1] if how == "window" else case["out_shape"]
        ctx.count(f"storage_alias={how}")
        yield case


def decorate(ctx, case):
    """LAYOUT / HISTORY dimensions, applied to any generated case (same logical values, same expected result)"""
    rng = ctx.rng
    fn = case["fn"]
    num = case["num"]
    lay = {}
    if fn in ("einsum", "scalar_mult", "make_complex", "sigmoid"):
        case["fseed"] = rng.randrange(2 ** 31)     # seed of the call form (see `call_form`)
    if fn == "make_complex_np":
        l = rand_layout(rng, case["shape"], allow_expand=False, p_plain=0.6)
        if l:
            l.pop("off", None)
            if l:
                lay["x"] = l
        if lay:
            case["lay"] = lay
        if rng.random() < 0.15:
            n = numel(case["shape"])
            case["prev"] = {"re": rand_vals(rng, n, num), "im": rand_vals(rng, n, num)}
        return case
    alias = case.get("alias")
    for role in ("x", "y"):
        t = case.get(role)
        if t is None or case.get("useI") == role or (role == "y" and case.get("same")):
            continue
        if alias and alias["with"] == role and alias["how"] == "window":
            continue
        # (an expanded layout copies entries along the expanded axes: not for the EXTREME cases, whose operands are paired
        # entry by entry so that every quotient is representable)
        l = rand_layout(rng, t["shape"], allow_expand=not (alias and alias["with"] == role) and case.get("regime") not in EXTREME + EDGE)
        if l:
            if case.get("same") and role == "x":
                pass
            make_expandable(t, l)
            lay[role] = l
    if fn == "scalar_mult" and case.get("out") in ("fresh", "fresh32", "shape"):
        os_ = case["out_shape"] if case["out"] == "shape" else [2] + (np_broadcast(case["x"]["shape"][1:], case["y"]["shape"][1:]) or [])
        if case["out"] == "shape" or np_broadcast(case["x"]["shape"][1:], case["y"]["shape"][1:]) is not None:
            l = rand_layout(rng, os_, allow_expand=False, p_plain=0.4)
            if l:
                lay["out"] = l
    if lay:
        case["lay"] = lay
    if rng.random() < 0.2 and not alias:
        case["share"] = True
    if rng.random() < 0.15 and not case.get("useI"):
        prev = {}
        for role in ("x", "y"):
            t = case.get(role)
            if t is None or (role == "y" and case.get("same")):
                continue
            p = T(t["shape"], rand_vals(rng, numel(t["shape"]), num), t["dtype"])
            make_expandable(p, lay.get(role))
            prev[role] = p["data"]
        case["prev"] = prev
    return case


def gen_malformed(ctx, n_scale):
    rng = ctx.rng
    num = "int"
    R = lambda k: range(max(1, int(k * n_scale)))  # noqa: E731

    def clash(s):
        """a shape that does NOT broadcast with s (s must contain an axis; its last axis is changed to a different length > 1)"""
        t = list(s)
        t[-1] = t[-1] % 3 + 2 if t[-1] != 1 else 1
        if t[-1] == s[-1] or 1 in (t[-1], s[-1]):
            t[-1], s[-1] = 2, 3
        return t

    for _ in R(60):
        s = rand_shape(rng, rank=rng.randint(1, 4))
        t = clash(s)
        if rng.random() < 0.3:
            t = [2] + t
        yield {"fn": rng.choice(["scalar_mult", "elementwise_mult"]), "num": num, "x": rand_cplx(rng, s, num), "y": rand_cplx(rng, t, num), "out": None}
    for _ in R(90):
        # aliasing output buffers
        s = rand_shape(rng)
        x = rand_cplx(rng, s, num)
        mode = rng.choice(["x", "y", "same_x", "y_f32", "x_f32", "y_is_f32"])
        if mode == "same_x":
            yield {"fn": "scalar_mult", "num": num, "x": x, "y": x, "same": True, "out": "x"}
        elif mode == "y_f32":
            # x float32, y float64, out = y: must be rejected although `y.to(x)` makes a copy (defect fixed by b571e19)
            x["dtype"] = "f32"
            yield {"fn": "scalar_mult", "num": num, "x": x, "y": rand_cplx(rng, s, num), "out": "y"}
        elif mode == "x_f32":
            x["dtype"] = "f32"
            yield {"fn": "scalar_mult", "num": num, "x": x, "y": rand_cplx(rng, s, num), "out": "x"}
        elif mode == "y_is_f32":
            # x float64, y float32, out = y (the float32 buffer): rejected as well
            yield {"fn": "scalar_mult", "num": num, "x": x, "y": rand_cplx(rng, s, num, dtype="f32"), "out": "y"}
        else:
            yield {"fn": "scalar_mult", "num": num, "x": x, "y": rand_cplx(rng, s, num), "out": mode}
    for _ in R(40):
        # the library constant as an aliasing buffer: scalar_mult(z, cplx.I, out=cplx.I) must not overwrite it
        z = rand_cplx(rng, rng.choice([[], [], [2], [1]]), num)
        if rng.random() < 0.6:
            yield {"fn": "scalar_mult", "num": num, "x": z, "y": dict(I_T), "useI": "y", "out": "y"}
        else:
            yield {"fn": "scalar_mult", "num": num, "x": dict(I_T), "y": z, "useI": "x", "out": "x"}
    for _ in R(160):
        # out= buffers that do not have the shape of the result (fix 89aee63): broadcastable-but-different, larger, smaller,
        # wrong rank, missing complex axis — and a few of exactly the right shape through the same code path
        sx_ = rand_shape(rng)
        sy_ = bcast_partner(rng, sx_)
        if rng.random() < 0.5:
            sx_, sy_ = sy_, sx_
        rs = np_broadcast(sx_, sy_)
        full = [2] + rs
        kind = rng.choice(["ones", "prepend1", "larger", "smaller", "drop_axis", "add_axis", "no_cplx", "operand", "transposed", "right"])
        o = list(full)
        if kind == "ones" and any(d > 1 for d in rs):
            k = rng.choice([i for i, d in enumerate(rs) if d > 1])
            o[1 + k] = 1
        elif kind == "prepend1":
            o = [2, 1] + rs
        elif kind == "larger":
            k = rng.randrange(len(o))
            o[k] += 1
        elif kind == "smaller" and any(d > 1 for d in rs):
            k = rng.choice([i for i, d in enumerate(rs) if d > 1])
            o[1 + k] -= 1
        elif kind == "drop_axis" and rs:
            o = [2] + rs[1:]
        elif kind == "add_axis":
            o = full + [rng.choice([1, 2])]
        elif kind == "no_cplx":
            o = list(rs) if rs else [1]
        elif kind == "operand":
            o = [2] + list(sx_ if sx_ != rs else sy_)
        elif kind == "transposed" and len(rs) >= 2:
            o = [2] + rs[::-1]
        ctx.count(f"out_shape_kind={kind}")
        ctx.count("out_shape=" + ("right" if o == full else "wrong"))
        case = {"fn": "scalar_mult", "num": num, "x": rand_cplx(rng, sx_, num), "y": rand_cplx(rng, sy_, num), "out": "shape",
                "out_shape": o, "out_dtype": rng.choice(["f64", "f64", "f32"])}
        if rng.random() < 0.2:
            (case["x"] if rng.random() < 0.5 else case["y"])["dtype"] = "f32"
        yield case
    for _ in R(40):
        s = rand_shape(rng, rank=rng.randint(1, 3))
        t = clash(s) if rng.random() < 0.6 else s[1:] + [s[0]] + [2]
        yield {"fn": "make_complex", "num": num, "x": rand_real(rng, s, num), "y": rand_real(rng, t, num)}
    for _ in R(40):
        # accessors on tensors that are not complex tensors: 0-d, leading axis 1; leading axis 3 is accepted (extra planes ignored)
        s = rng.choice([[], [1], [1, 2], [3], [3, 2], [1, 1, 2]])
        yield {"fn": rng.choice(["real", "imag", "numpy"]), "num": num, "x": rand_real(rng, s, num)}
    for _ in R(60):
        # unary functions on tensors that are not complex tensors (0-d, leading axis 1), norm of a matrix / higher rank (final pass, C15-5)
        fn = rng.choice(["conj", "conjugate", "absolute_value", "inverse", "norm", "norm_sqr"])
        tnum = "float" if fn in FIELD_FNS else num
        if fn == "norm" and rng.random() < 0.5:
            yield {"fn": fn, "num": tnum, "x": rand_cplx(rng, rng.choice([[2, 2], [1, 3], [2, 1, 2]]), tnum)}
        else:
            yield {"fn": fn, "num": tnum, "x": rand_real(rng, rng.choice([[], [1], [1, 2], [1, 3], [1, 2, 2]]), tnum)}
    for _ in R(110):
        m, k, p = rng.randint(1, 3), rng.randint(2, 3), rng.randint(1, 3)
        form = rng.choice(["mm", "mv", "vv", "s_m", "m_s", "batch", "vm"])
        sx, sy = {"mm": ([m, k], [k + 1, p]), "mv": ([m, k], [k + 1]), "vv": ([k], [k + 1]), "s_m": ([], [k, p]), "m_s": ([m, k], []),
                  "batch": ([2, m, k], [3, k, p]), "vm": ([k], [k + 1, p])}[form]
        yield {"fn": "matmul", "num": num, "x": rand_cplx(rng, sx, num), "y": rand_cplx(rng, sy, num)}
    for _ in R(120):
        n = rng.randint(1, 3)
        fn = rng.choice(["inner_prod", "inner_prod", "outer_prod", "kronecker_prod", "norm_sqr"])
        if fn == "inner_prod":
            sx, sy = rng.choice([([n], [n + 1]), ([n], []), ([], [n]), ([n, 2], [n, 2]), ([n], [n, 1]), ([1, n], [n])])
        elif fn == "outer_prod":
            sx, sy = rng.choice([([], [n]), ([n], []), ([n, 2], [n]), ([n], [2, n]), ([], []), ([1, n], [1, n])])
        elif fn == "kronecker_prod":
            sx, sy = rng.choice([([n], [n]), ([n, 2], [n]), ([n], [n, 2]), ([2, n, 2], [n, 2]), ([], [n, n]), ([2, 2, 2], [2, 2, 2])])
        else:
            sx, sy = rng.choice([[n, 2], [2, n, 2]]), None
        c = {"fn": fn, "num": num, "x": rand_cplx(rng, sx, num)}
        if sy is not None:
            c["y"] = rand_cplx(rng, sy, num)
        yield c
    for _ in R(100):
        # einsum: wrong number of subscripts, clashing lengths, repeated / unknown output label
        kind = rng.choice(["nsub", "clash", "dupout", "unkout", "rep_clash"])
        if kind == "nsub":
            eq, sa, sb = rng.choice([("ab,bc->ac", [2, 2, 2], [2, 2]), ("ab,bc->ac", [2], [2, 2]), ("a,a->a", [2], []), ("ib,ibg->bg", [2, 2], [2, 2])])
        elif kind == "clash":
            eq, sa, sb = rng.choice([("ab,bc->ac", [2, 3], [2, 2]), ("ib,ibg->bg", [2, 3], [2, 2, 2]), ("a,a->", [2], [3]), ("ab,ab->ab", [2, 3], [3, 3])])
        elif kind == "dupout":
            eq, sa, sb = rng.choice([("ab,bc->aa", [2, 2], [2, 2]), ("a,b->abb", [2], [3])])
        elif kind == "unkout":
            eq, sa, sb = rng.choice([("ab,bc->ad", [2, 2], [2, 2]), ("a,b->c", [2], [3])])
        else:
            eq, sa, sb = rng.choice([("aa,a->a", [2, 3], [2]), ("aa,ab->b", [1, 3], [3, 2]), ("a,bb->a", [2], [2, 3])])
        yield {"fn": "einsum", "num": num, "eq": eq, "x": rand_cplx(rng, sa, num), "y": rand_cplx(rng, sb, num),
               "rp": rng.random() < 0.8, "ip": rng.random() < 0.8}
    for _ in R(90):
        # einsum, implicit-output / ellipsis forms: two ellipses, stray dots, more subscripts than axes, ellipsis axes that
        # do not broadcast, ellipsis twice in the output, wrong number of operands in the string, non-letters
        eq, sa, sb = rng.choice([
            ("...i...,i->i", [2, 2], [2]), ("i...j...,j", [2, 2, 2], [2]), ("..i,i->i", [2, 2], [2]), ("i.,i->i", [2], [2]),
            (".i,i", [2], [2]), ("...ij,j->i", [2], [2]), ("...ij,j", [2], [2]), ("ab...,c", [2], [2]),
            ("...i,...i->...i", [2, 3], [3, 3]), ("...,...", [2], [3]), ("...a,...a", [2, 3, 2], [3, 2, 2]),
            ("...i,i->......", [2, 2], [2]), ("ij,jk", [2, 2, 2], [2, 2]), ("ij,jk", [2], [2, 2]), ("i,i,i", [2], [2]),
            ("ij", [2, 2], [2, 2]), ("i1,1", [2, 3], [3]), ("ij,jk->ik->", [2, 2], [2, 2]), ("ii,i", [2, 3], [2]),
            ("...ii,i", [2, 2, 3], [2]), ("a...,a->...b", [2, 2], [2]), ("a...,a...->aa", [2, 2], [2, 2]), ("i,j->...ij...", [2], [2]),
            # blanks inside an ellipsis / inside the arrow, a tab: the string itself is rejected
            (". . .j,j", [2, 2], [2]), (".. .j,j", [2, 2], [2]), ("ij,j->. ..", [2, 2], [2]), ("ij,j - > i", [2, 2], [2]), ("ij ,\tj", [2, 2], [2]),
        ])
        yield {"fn": "einsum", "num": num, "eq": eq, "x": rand_cplx(rng, sa, num), "y": rand_cplx(rng, sb, num),
               "rp": rng.random() < 0.85, "ip": rng.random() < 0.85}
    for _ in R(60):
        s = rand_shape(rng, rank=rng.randint(1, 3))
        t = clash(s) if rng.random() < 0.6 else s + [1]
        fn = rng.choice(["elementwise_division", "elementwise_division", "sigmoid", "scalar_divide"])
        if fn == "sigmoid":
            yield {"fn": fn, "num": "float", "x": rand_real(rng, s, "float"), "y": rand_real(rng, clash(s), "float")}
        elif fn == "scalar_divide":
            yield {"fn": fn, "num": "float", "x": rand_cplx(rng, s, "float"), "y": rand_cplx(rng, clash(s), "float")}
        else:
            # equal-size but differently shaped operands must be rejected too (shape equality, not broadcastability)
            yield {"fn": fn, "num": "float", "x": rand_cplx(rng, s, "float"), "y": rand_cplx(rng, t, "float")}


def gen_all(ctx, n_scale):
    for gen in (gen_exact, gen_const, gen_alias, gen_tolerance, gen_ranges, gen_extreme, gen_edge, gen_malformed):
        for case in gen(ctx, n_scale):
            yield decorate(ctx, case)


def run(ctx):
    global DIMS
    ctx.rule = RULE
    thorough = ctx.tier == "thorough"
    DIMS = [1, 2, 2, 3, 3, 4] if thorough else [1, 2, 2, 3, 3]
    for case in gen_all(ctx, 25.0 if thorough else 1.0):
        one_case(ctx, case)


def search(ctx):
    """larger oracle-only sweep (no model) used when a proof obligation / auxiliary point is broken"""
    drv, ctx.driver = ctx.driver, None
    try:
        for case in gen_all(ctx, 10.0):
            one_case(ctx, case)
    finally:
        ctx.driver = drv


def replay(ctx, case):
    one_case(ctx, case)
