"""C04 — correspondence of QV.Model.Unitaries with qucumber/utils/unitaries.py and dense-Kronecker oracles."""
import itertools

import numpy as np

from . import qc
from .common import bits, f2b, unbits
from .qc import torch

from qucumber.utils import cplx, unitaries  # noqa: E402

FILES = ["qucumber/utils/unitaries.py", "qucumber/utils/cplx.py", "qucumber/nn_states/neural_state.py"]
RULE = ("case = (n, per-letter dictionary (default X,Y,Z plus user-added random unitaries / Gaussian-integer matrices), basis string, "
        "explicit or model-derived psi / rho, batch of outcome states with repeats); all 3^n strings for n<=3 (quick) / n<=4 (thorough), sampled beyond; "
        "exact tier (Gaussian integers, model over Int, compared exactly) and tolerance tier (default dictionary); "
        "the fast paths' internals (_rotate_basis_state: expanded states and coefficients, in order) compared as auxiliary points with the model's enumeration; "
        "non-trivial iff the basis has a non-Z letter and psi/rho has a non-real entry; distinct by hash of (dictionary, basis, operand, path)")
TH = {"rotate_psi": "C04_rotate_psi", "rotate_rho": "C04_rotate_rho / C04_rotate_rho_hermitian",
      "inner": "C04_inner_prod_enum_dense", "probs": "C04_rho_probs_enum_dense",
      "expand": "C04_expand_enumerates / C04_rotate_basis_state"}

REQUIRED_THEOREMS = ["C04_index_convention", "C04_rotate_psi", "C04_rotate_rho", "C04_rotate_rho_hermitian", "C04_rotate_psi_loop",
                     "C04_rotate_rho_loop", "C04_dense_eq_kronecker", "C04_fastK_eq_dense", "C04_expand_enumerates", "C04_rotate_basis_state",
                     "C04_inner_prod_enum", "C04_inner_prod_enum_dense", "C04_rho_probs_enum", "C04_rho_probs_enum_dense",
                     "C04_dense_unitary", "C04_psi_probs_sum", "C04_rho_probs_nonneg", "C04_rho_probs_sum",
                     "C04_dZ", "C04_dX_unitary", "C04_dX_eigen", "C04_dY_unitary", "C04_dY_eigen"]


# ------------------------------------------------------------------ helpers
def cenc(z, exact):
    z = complex(z)
    return [int(round(z.real)), int(round(z.imag))] if exact else [f2b(z.real), f2b(z.imag)]


def cdec(p, exact):
    if exact:
        return complex(p[0], p[1])
    a = unbits(p)
    return complex(a[0], a[1])


def m2enc(m, exact):
    return [[cenc(m[r][c], exact) for c in range(2)] for r in range(2)]


def to_pair_tensor(a):
    a = np.asarray(a, dtype=complex)
    return torch.tensor(np.stack([a.real, a.imag]), dtype=torch.double)


def from_pair_tensor(t):
    t = t.detach().numpy()
    return t[0] + 1j * t[1]


def rand_unitary(rng):
    a = np.array([[complex(rng.gauss(0, 1), rng.gauss(0, 1)) for _ in range(2)] for _ in range(2)])
    q, r = np.linalg.qr(a)
    return q * (np.diag(r) / np.abs(np.diag(r)))


def rand_gint(rng, shape, lo=-3, hi=3):
    return np.array([complex(rng.randint(lo, hi), rng.randint(lo, hi)) for _ in range(int(np.prod(shape)))]).reshape(shape)


def dense_K(mats):
    K = np.array([[1.0 + 0j]])
    for m in mats:
        K = np.kron(K, m)
    return K


class FakeState:
    """minimal nn_state for the explicit-operand paths (unitaries.py only needs these attributes)"""

    def __init__(self, n, udict):
        self.num_visible = n
        self.device = torch.device("cpu")
        self.unitary_dict = udict
        self._h = qc.PositiveWaveFunction(n, 1, gpu=False)

    def generate_hilbert_space(self, size=None, device=None):
        return self._h.generate_hilbert_space(size=size, device=device)


def make_dict(rng, exact):
    """letter -> complex 2x2; returns (numpy dict, torch dict)"""
    if exact:
        d = {L: rand_gint(rng, (2, 2)) for L in "XYABZ"}
        d["Z"] = np.eye(2, dtype=complex)
    else:
        base = unitaries.create_dict()
        d = {k: from_pair_tensor(v) for k, v in base.items()}
        d["A"] = rand_unitary(rng)
        d["B"] = rand_unitary(rng)
    td = unitaries.create_dict(**{k: to_pair_tensor(v) for k, v in d.items()})
    return d, td


def expand_points(ctx, case, st, basis, td, states, n, us_enc, rot, exact, kind):
    """auxiliary: the internals of the fast paths — `Ut, v = _rotate_basis_state(...)` (expanded states and coefficients IN THE
    CODE'S ORDER) against the model's enumeration `Unitaries.rotateBasisState` (= expandStates + rotCoeff)"""
    Ut, v = unitaries._rotate_basis_state(st, basis, torch.tensor(states, dtype=torch.double), unitaries=td)
    Ut = np.asarray(Ut)
    v = v.detach().cpu().numpy()
    m = sum(rot)
    shape_ok = Ut.shape == (2 ** m, len(states)) and v.shape == (2 ** m, len(states), n)
    ctx.count(f"rotated_sites={m}")
    if ctx.driver is None:
        return
    sfx = "_int" if exact else ""
    r = ctx.driver.call("c04.expand" + sfx, n=n, us=us_enc, rot=rot, states=states)
    mv = [e["v"] for e in r]                                   # B x 2^m x n
    mU = np.array([[cdec(p, exact) for p in e["Ut"]] for e in r])  # B x 2^m
    iv = np.rint(np.moveaxis(v, 0, 1)).astype(int).tolist() if shape_ok else {"shape": list(v.shape)}
    ctx.point("_rotate_basis_state: expanded states v (order)", "aux", iv, mv, case, exact=True, theorem=TH["expand"],
              sig=f"_rotate_basis_state.v/{kind}")
    iU = np.moveaxis(Ut, 0, 1).ravel() if shape_ok else Ut.ravel()
    ctx.point("_rotate_basis_state: coefficients Ut (order)", "aux", np.r_[iU.real, iU.imag], np.r_[mU.real.ravel(), mU.imag.ravel()], case,
              scale=float(np.max(np.abs(mU))) + 1e-300, theorem=TH["expand"], sig=f"_rotate_basis_state.Ut/{kind}",
              **({"rtol": 0, "atol": 0} if exact else {}))


# ------------------------------------------------------------------ one case
def one_case(ctx, case):
    n, basis, exact, kind = case["n"], case["basis"], case["exact"], case["kind"]
    ctx.current_case = case
    rng_seed = case["seed"]
    import random as _r
    rng = _r.Random(rng_seed)
    d, td = make_dict(rng, exact)
    mats = [d[b] for b in basis]
    K = dense_K(mats)
    N = 2 ** n
    space = qc.all_states(n)
    space_t = torch.tensor(space, dtype=torch.double)
    sfx = "_int" if exact else ""
    us_enc = [m2enc(d[b], exact) for b in basis]
    rot = [b != "Z" for b in basis]
    st = None
    # ---- operand
    if kind in ("psi_explicit", "psi_model"):
        if kind == "psi_model":
            am = qc.rand_rbm_params(rng, n, 2, 0.7)
            ph = qc.rand_rbm_params(rng, n, 2, 1.0)
            st = qc.make_complex(n, 2, am, ph, unitary_dict=td) if case.get("cplx", True) else qc.make_positive(n, 2, am)
            if not hasattr(st, "unitary_dict"):
                st.unitary_dict = td
            psi = from_pair_tensor(st.psi(space_t))
            psi_arg = None
        else:
            st = FakeState(n, td)
            psi = rand_gint(rng, (N,)) if exact else np.array([complex(rng.gauss(0, 1), rng.gauss(0, 1)) for _ in range(N)])
            psi_arg = to_pair_tensor(psi)
        nontriv = any(rot) and bool(np.any(np.abs(psi.imag) > 0))
        ctx.case({"n": n, "basis": basis, "kind": kind, "seed": rng_seed, "exact": exact}, nontrivial=nontriv,
                 sample={"n": n, "basis": basis, "kind": kind, "exact": exact, "psi0": str(psi[0])})
        ctx.count(f"kind={kind}"); ctx.count(f"n={n}"); ctx.count("exact" if exact else "tolerance")
        ctx.count("letters=" + "".join(sorted(set(basis))))
        scale = float(np.max(np.abs(K @ psi))) + 1e-300
        # rotate_psi
        impl = from_pair_tensor(unitaries.rotate_psi(st, basis, space_t, unitaries=td, psi=psi_arg))
        ok = np.allclose(impl, K @ psi, rtol=1e-9, atol=1e-9 * scale)
        ctx.oracle("rotate_psi == kron(U) psi", bool(ok), case, detail={"impl": str(impl[:8]), "dense": str((K @ psi)[:8])},
                   sig=f"rotate_psi/{kind}", theorem=TH["rotate_psi"])
        # inner prod on a batch with repeats in arbitrary order
        batch = [rng.randrange(N) for _ in range(min(2 * N, 12))] + [0, N - 1]
        states = [space[k] for k in batch]
        ip = from_pair_tensor(unitaries.rotate_psi_inner_prod(st, basis, torch.tensor(states, dtype=torch.double), unitaries=td, psi=psi_arg))
        ok = np.allclose(ip, (K @ psi)[batch], rtol=1e-9, atol=1e-9 * scale)
        ctx.oracle("rotate_psi_inner_prod == (kron(U) psi)[states]", bool(ok), case, detail={"impl": str(ip[:8]), "dense": str((K @ psi)[batch][:8])},
                   sig=f"rotate_psi_inner_prod/{kind}", theorem=TH["inner"])
        expand_points(ctx, case, st, basis, td, states, n, us_enc, rot, exact, kind)
        if kind == "psi_model":
            p = np.abs(impl) ** 2
            Z = float(st.normalization(space_t))
            ctx.oracle("rotated probs sum to Z (psi)", abs(p.sum() - Z) <= 1e-8 * Z, case, sig="probs-sum/psi", theorem="C04_psi_probs_sum")
            # history: new parameters written in place, SAME state / space / batch objects -> results must follow the new psi
            qc.set_rbm(st.rbm_am, qc.rand_rbm_params(rng, n, 2, 0.9), inplace=True)
            if hasattr(st, "rbm_ph"):
                qc.set_rbm(st.rbm_ph, qc.rand_rbm_params(rng, n, 2, 0.9), inplace=True)
            psi2 = from_pair_tensor(st.psi(space_t))
            again = from_pair_tensor(unitaries.rotate_psi(st, basis, space_t, unitaries=td, psi=None))
            bt = torch.tensor(states, dtype=torch.double)
            ip2 = from_pair_tensor(unitaries.rotate_psi_inner_prod(st, basis, bt, unitaries=td, psi=None))
            sc2 = float(np.max(np.abs(K @ psi2))) + 1e-300
            ctx.oracle("rotate_psi / inner_prod follow the CURRENT parameters on a repeated call with the same objects",
                       bool(np.allclose(again, K @ psi2, rtol=1e-9, atol=1e-9 * sc2) and np.allclose(ip2, (K @ psi2)[batch], rtol=1e-9, atol=1e-9 * sc2)),
                       case, sig=f"history/{kind}", theorem=TH["rotate_psi"])
        if ctx.driver is not None and not (case.get("big") and n > 9):
            m = ctx.driver.call("c04.rotate_psi" + sfx, n=n, us=us_enc, psi=[cenc(z, exact) for z in psi])
            mv = np.array([cdec(p, exact) for p in m])
            ctx.point("rotate_psi", "property", np.r_[impl.real, impl.imag], np.r_[mv.real, mv.imag], case, scale=scale,
                      theorem=TH["rotate_psi"], sig=f"rotate_psi/{kind}", **({"rtol": 0, "atol": 0} if exact else {}))
            m = ctx.driver.call("c04.inner_prod" + sfx, n=n, us=us_enc, rot=rot, psi=[cenc(z, exact) for z in psi], states=states)
            mv = np.array([cdec(p, exact) for p in m])
            ctx.point("rotate_psi_inner_prod", "property", np.r_[ip.real, ip.imag], np.r_[mv.real, mv.imag], case, scale=scale,
                      theorem=TH["inner"], sig=f"rotate_psi_inner_prod/{kind}", **({"rtol": 0, "atol": 0} if exact else {}))
    else:
        herm = kind != "rho_nonherm"
        if kind == "rho_model":
            am = qc.rand_prbm_params(rng, n, 2, 2, 0.7)
            ph = qc.rand_prbm_params(rng, n, 2, 2, 1.0, d_zero=True)
            st = qc.make_density(n, 2, 2, am, ph, unitary_dict=td)
            rho = from_pair_tensor(st.rho(space_t, space_t))
            rho_arg = None
        else:
            st = FakeState(n, td)
            a = rand_gint(rng, (N, N)) if exact else np.array([[complex(rng.gauss(0, 1), rng.gauss(0, 1)) for _ in range(N)] for _ in range(N)])
            rho = (a + a.conj().T) if herm else a
            if herm and not exact:
                rho = a @ a.conj().T  # PSD
            rho_arg = to_pair_tensor(rho)
        nontriv = any(rot) and bool(np.any(np.abs(rho.imag) > 0))
        ctx.case({"n": n, "basis": basis, "kind": kind, "seed": rng_seed, "exact": exact}, nontrivial=nontriv,
                 sample={"n": n, "basis": basis, "kind": kind, "exact": exact, "rho01": str(rho[0, -1])})
        ctx.count(f"kind={kind}"); ctx.count(f"n={n}"); ctx.count("exact" if exact else "tolerance")
        ctx.count("letters=" + "".join(sorted(set(basis))))
        dense = K @ rho @ K.conj().T
        denseH = K @ rho.conj().T @ K.conj().T
        scale = float(np.max(np.abs(dense))) + 1e-300
        impl = from_pair_tensor(unitaries.rotate_rho(st, basis, space_t, unitaries=td, rho=rho_arg))
        if herm:
            ok = np.allclose(impl, dense, rtol=1e-9, atol=1e-8 * scale)
            ctx.oracle("rotate_rho == U rho U^dag", bool(ok), case, detail={"impl": str(impl[0, :4]), "dense": str(dense[0, :4])},
                       sig=f"rotate_rho/{kind}", theorem=TH["rotate_rho"])
        else:
            ctx.count("nonhermitian_rho(aux only)")
            ctx.point("rotate_rho(non-Hermitian) == K rho^H K^H", "aux", np.r_[impl.real.ravel(), impl.imag.ravel()],
                      np.r_[denseH.real.ravel(), denseH.imag.ravel()], case, scale=scale, rtol=1e-9, atol=1e-8)
        batch = [rng.randrange(N) for _ in range(min(2 * N, 12))] + [0, N - 1]
        states = [space[k] for k in batch]
        pr = unitaries.rotate_rho_probs(st, basis, torch.tensor(states, dtype=torch.double), unitaries=td, rho=rho_arg).detach().numpy()
        want = np.real(np.diag(dense))[batch]
        ok = np.allclose(pr, want, rtol=1e-9, atol=1e-8 * scale)
        ctx.oracle("rotate_rho_probs == diag(U rho U^dag)[states]", bool(ok), case, detail={"impl": pr[:8].tolist(), "dense": want[:8].tolist()},
                   sig=f"rotate_rho_probs/{kind}", theorem=TH["probs"])
        expand_points(ctx, case, st, basis, td, states, n, us_enc, rot, exact, kind)
        if kind == "rho_model":
            Z = float(st.normalization(space_t))
            full = unitaries.rotate_rho_probs(st, basis, space_t, unitaries=td).detach().numpy()
            # history (see psi_model)
            qc.set_prbm(st.rbm_am, qc.rand_prbm_params(rng, n, 2, 2, 0.8), inplace=True)
            qc.set_prbm(st.rbm_ph, qc.rand_prbm_params(rng, n, 2, 2, 0.8, d_zero=True), inplace=True)
            rho2 = from_pair_tensor(st.rho(space_t, space_t))
            d2 = K @ rho2 @ K.conj().T
            rr2 = from_pair_tensor(unitaries.rotate_rho(st, basis, space_t, unitaries=td))
            pr2 = unitaries.rotate_rho_probs(st, basis, space_t, unitaries=td).detach().numpy()
            sc2 = float(np.max(np.abs(d2))) + 1e-300
            ctx.oracle("rotate_rho / rho_probs follow the CURRENT parameters on a repeated call with the same objects",
                       bool(np.allclose(rr2, d2, rtol=1e-9, atol=1e-8 * sc2) and np.allclose(pr2, np.real(np.diag(d2)), rtol=1e-9, atol=1e-8 * sc2)),
                       case, sig=f"history/{kind}", theorem=TH["rotate_rho"])
            ctx.oracle("rotated probs >= 0 and sum to Z (rho)", bool(np.all(full >= -1e-9 * Z) and abs(full.sum() - Z) <= 1e-8 * Z), case,
                       detail={"probs": full.tolist(), "Z": Z}, sig="probs-physical/rho", theorem="C04_rho_probs_nonneg, C04_rho_probs_sum")
        if ctx.driver is not None and not case.get("big"):
            rho_enc = [[cenc(z, exact) for z in row] for row in rho]
            if n <= 3 or ctx.tier == "thorough":
                m = ctx.driver.call("c04.rotate_rho" + sfx, n=n, us=us_enc, rho=rho_enc)
                mv = np.array([[cdec(p, exact) for p in row] for row in m])
                ctx.point("rotate_rho", "property" if herm else "aux", np.r_[impl.real.ravel(), impl.imag.ravel()], np.r_[mv.real.ravel(), mv.imag.ravel()],
                          case, scale=scale, theorem=TH["rotate_rho"], sig=f"rotate_rho/{kind}", **({"rtol": 0, "atol": 0} if exact else {}))
            m = ctx.driver.call("c04.rho_probs" + sfx, n=n, us=us_enc, rot=rot, rho=rho_enc, states=states)
            mv = np.array([float(p) if exact else float(unbits([p])[0]) for p in m])
            ctx.point("rotate_rho_probs", "property", pr, mv, case, scale=scale, theorem=TH["probs"], sig=f"rotate_rho_probs/{kind}",
                      **({"rtol": 0, "atol": 0} if exact else {}))


def dict_case(ctx):
    """default dictionary: implementation vs model vs the eigenvector characterisation"""
    base = unitaries.create_dict()
    d = {k: from_pair_tensor(v) for k, v in base.items()}
    case = {"kind": "dict"}
    ctx.case(case, nontrivial=True)
    sx = np.array([[0, 1], [1, 0]], dtype=complex)
    sy = np.array([[0, -1j], [1j, 0]])
    pm = np.diag([1.0, -1.0])
    ctx.oracle("Z is identity", bool(np.array_equal(d["Z"], np.eye(2))), case, sig="dict/Z", theorem="C04_dZ")
    for L, s in (("X", sx), ("Y", sy)):
        U = d[L]
        ctx.oracle(f"{L} unitary", bool(np.allclose(U.conj().T @ U, np.eye(2), atol=1e-15)), case, sig=f"dict/{L}-unitary", theorem=f"C04_d{L}_unitary")
        ctx.oracle(f"{L} rows are the +1,-1 eigen-bras", bool(np.allclose(U @ s, pm @ U, atol=1e-15)), case, sig=f"dict/{L}-eigen", theorem=f"C04_d{L}_eigen")
    # shared mutable defaults: a returned dictionary edited in place must not leak into later dictionaries / other states
    d1 = unitaries.create_dict()
    for k in d1:
        d1[k].mul_(-3.0)
    d2 = unitaries.create_dict()
    st_a = qc.ComplexWaveFunction(1, 1, gpu=False)
    st_a.unitary_dict["X"].add_(1.0)
    st_b = qc.ComplexWaveFunction(1, 1, gpu=False)
    st_c = qc.DensityMatrix(1, 1, 1, gpu=False)
    fresh_ok = all(np.array_equal(from_pair_tensor(d2[k]), d[k]) for k in "XYZ") and \
        all(np.array_equal(from_pair_tensor(s_.unitary_dict[k]), d[k]) for s_ in (st_b, st_c) for k in "XYZ")
    ctx.oracle("create_dict() / default state dictionaries are fresh (unaffected by in-place edits of earlier ones)", bool(fresh_ok), case,
               sig="dict/shared-default", theorem="C04_dZ/dX/dY")
    if ctx.driver is not None:
        m = ctx.driver.call("c04.dict")
        for L in "XYZ":
            mv = np.array([[cdec(p, False) for p in row] for row in m[L]])
            ctx.point(f"create_dict[{L}]", "property", np.r_[d[L].real.ravel(), d[L].imag.ravel()], np.r_[mv.real.ravel(), mv.imag.ravel()], case,
                      theorem="C04_dZ/dX/dY", sig=f"dict/{L}", rtol=4e-16, atol=0.0)


def gen_cases(ctx, thorough):
    kinds = ["psi_explicit", "psi_model", "rho_herm", "rho_nonherm", "rho_model"]
    nmax_full = 4 if thorough else 3
    for n in range(1, nmax_full + 1):
        strings = qc.all_bases(n, "XYZ")
        if n == 3 and not thorough:
            ctx.rng.shuffle(strings)
            strings = strings[:14] + ["XYZ", "YZX", "ZZY"]
        if n == 4 and thorough:
            pass
        for basis in strings:
            for kind in kinds:
                if kind.startswith("rho") and n > 3 and not thorough:
                    continue
                if n == 4 and kind != "psi_explicit" and ctx.rng.random() < 0.6:
                    continue
                yield {"n": n, "basis": basis, "exact": False, "kind": kind, "seed": ctx.rng.randrange(1 << 30)}
    # user-added letters and the exact tier
    for n in range(1, 4 if thorough else 3):
        strings = qc.all_bases(n, "XYABZ")
        ctx.rng.shuffle(strings)
        for basis in strings[: (40 if thorough else 10)]:
            for kind in ("psi_explicit", "rho_herm", "rho_nonherm"):
                yield {"n": n, "basis": basis, "exact": True, "kind": kind, "seed": ctx.rng.randrange(1 << 30)}
                if not set(basis) <= set("XYZ"):
                    yield {"n": n, "basis": basis, "exact": False, "kind": kind, "seed": ctx.rng.randrange(1 << 30)}
    # explicit operands on larger systems (index conversion beyond 8 bits); the driver is only used for the vector paths
    for n in ((9,) if not thorough else (9, 10, 11)):
        basis = "".join(ctx.rng.choice("XYZ") for _ in range(n - 3)) + ctx.rng.choice(["XZY", "YZZ", "ZXY"])
        yield {"n": n, "basis": basis[::-1] if ctx.rng.random() < 0.5 else basis, "exact": False, "kind": "psi_explicit", "seed": ctx.rng.randrange(1 << 30), "big": True}
    yield {"n": 9, "basis": "YZZZZZZXZ", "exact": False, "kind": "rho_herm", "seed": ctx.rng.randrange(1 << 30), "big": True}
    # sampled beyond
    for n in ((4, 5) if not thorough else (5,)):
        for _ in range(3):
            basis = "".join(ctx.rng.choice("XYZ") for _ in range(n))
            yield {"n": n, "basis": basis, "exact": False, "kind": "psi_explicit", "seed": ctx.rng.randrange(1 << 30)}
            yield {"n": n, "basis": basis, "exact": False, "kind": "psi_model", "seed": ctx.rng.randrange(1 << 30)}


def run(ctx):
    ctx.rule = RULE
    dict_case(ctx)
    for case in gen_cases(ctx, ctx.tier == "thorough"):
        one_case(ctx, case)


def search(ctx):
    drv, ctx.driver = ctx.driver, None
    try:
        dict_case(ctx)
        for case in gen_cases(ctx, True):
            one_case(ctx, case)
    finally:
        ctx.driver = drv


def replay(ctx, case):
    if case.get("kind") == "dict":
        dict_case(ctx)
    else:
        one_case(ctx, case)
