"""C04 — correspondence of QV.Model.Unitaries with qucumber/utils/unitaries.py and dense-Kronecker oracles."""
import copy
import itertools

import numpy as np

from . import argforms_a as af
from . import qc
from .common import bits, f2b, unbits
from .qc import torch

from qucumber.utils import cplx, unitaries  # noqa: E402

FILES = ["qucumber/utils/unitaries.py", "qucumber/utils/cplx.py", "qucumber/nn_states/neural_state.py"]
RULE = ("case = (n, per-letter dictionary (default X,Y,Z plus user-added random unitaries / Gaussian-integer matrices), basis string, "
        "explicit or model-derived psi / rho, batch of outcome states with repeats); ALL 3^n strings over XYZ for n<=3 (quick) / n<=4 (thorough) for EVERY kind "
        "(psi explicit / from a ComplexWaveFunction, rho Hermitian-complex explicit / non-Hermitian explicit / from a DensityMatrix), sampled beyond "
        "(n = 4,5 quick / n = 5 thorough: psi kinds only; n = 9..11: explicit operands only); "
        "SCOPE NOTE rho: the quantifier's 'Hermitian and non-symmetric-complex rho' is read as Hermitian matrices with a non-zero (antisymmetric) imaginary part - "
        "every explicit Hermitian rho generated has one (counter rho_hermitian_not_real_symmetric) and is checked at PROPERTY level against U rho U^dag; a "
        "non-Hermitian matrix is not a density matrix and lies outside the quantifier: there rotate_rho returns K rho^H K^H (C04_rotate_rho), compared as an AUXILIARY "
        "point only (rotate_rho_probs of such a matrix is still checked at property level: its diagonal is that of K rho K^H); "
        "DICTIONARY RESOLUTION (kind dictres): states {ComplexWaveFunction, DensityMatrix, PositiveWaveFunction (no unitary_dict), explicit-operand stand-ins with / "
        "without unitary_dict} x own dictionary {default, user (letters A,B added, X sometimes overridden)} x unitaries argument {None, {}, explicit user dictionary, "
        "explicit dictionary without a Z key}, basis strings over the resolved dictionary's letters (XYABZ), plus strings with a letter in no dictionary "
        "(KeyError outcome class), all four entry points, against numpy dense Kronecker products over the dictionary resolved by the harness's own re-statement "
        "of the rule and against the model (unitariesOf / siteUs / *D); dictionaries must come back unmodified; "
        "Z OVERRIDDEN (kind zoverride): create_dict(Z=<non-identity>) - rotate_psi / rotate_rho must equal the dense product; the fast paths leave Z sites alone "
        "(model faithful; property-level oracle with the stable signature fast-path/dict-Z-not-identity = proposed known finding, proposed/F_C04_Z_override.md); "
        "1-D states (kind vecstates): outcome classes only (outside the quantifier 'any batch'); "
        "exact tier (Gaussian integers, model over Int, compared exactly) and tolerance tier (default dictionary); "
        "ARGUMENT FORMS (round 5; one seeded stream per case, key `aseed`; a case without the key replays with Python ints / bool singletons by keyword): "
        "`include_extras` of rotate_psi_inner_prod / rotate_rho_probs is a flag OBJECT of either truth value (bool singleton, 0/1, numpy bools, 0-d numpy / torch bools), "
        "by keyword or as the sixth positional argument - a falsy one must give the plain tensor, a truthy one the triple (value, terms, expanded states) whose value is "
        "checked at property level against the dense product and whose terms must sum to it (auxiliary); `unitaries` and the explicit operand `psi=` / `rho=` of all four "
        "entry points by keyword, positionally (documented order) or mixed; constructor sizes num_visible / num_hidden / num_aux and `gpu` of every state the harness builds "
        "(ComplexWaveFunction, PositiveWaveFunction, DensityMatrix, BinaryRBM, PurificationRBM; keyword and positional) as Python int / numpy integer scalars / 0-d numpy / "
        "0-d torch integers and falsy flag objects, with the oracle 'constructed architecture == requested sizes'; the `space` argument of the model-derived kinds comes from "
        "`nn_state.generate_hilbert_space(size)` with `size` in the case's integer form (exact oracle against the harness's own enumeration); `expand` of the reference "
        "`rho(space, space, expand)` as a truthy flag object; the matrices handed to create_dict(**kwargs) as pair tensors, numpy arrays or nested lists (of ints on the exact tier); "
        "the outcome batch `states` stays a double tensor (every other dtype is refused by the clean code as soon as one site is rotated, see notes/C04.md); "
        "the terms of the fast paths' sums, seen through the PUBLIC include_extras=True outputs with psi = all-ones (term i = coefficient Ut_i, paired with the "
        "expanded state v_i), compared as a SET of (state, coefficient) pairs per sample with the model's enumeration (auxiliary; listing order, the private helper "
        "_rotate_basis_state and the numpy/real-pair representation are NOT constrained: unrecognised output = informational counter, no mismatch); "
        "USER-ADDED GATES (final pass, kind userdict): gates of special structure - diagonal non-identity (S, T, phase flip diag(1,-1), random phases), "
        "permutation matrices (NOT, the Pauli-Y permutation with phases), a real rotation, a generic unitary - handed to create_dict as a pair tensor of "
        "EVERY element type the clean code converts (int64 / int32 / int8 / float16 / float32 / float64), as a numpy array (int64 / int32 / float32 / float64) "
        "or as nested lists of ints; the dense oracle uses the matrix the object denotes; own dictionary of a ComplexWaveFunction / DensityMatrix or given to "
        "explicit-operand calls; rotate_psi, the rotate_psi_inner_prod AMPLITUDES, rotate_rho, rotate_rho_probs against numpy Kronecker products (property "
        "level) and against the model; create_dict must store the denoted entries and leave its arguments alone; "
        "ENVIRONMENTS (env_run): a sample of every kind is re-run with all objects constructed under default dtype float64 / no_grad / another cwd; "
        "OUT-OF-QUANTIFIER INTEGER OBJECTS (second audit X-1): a 0-d ndarray / 0-d tensor / np.uint8 as a size that the code REFUSES is an informational "
        "counter (the case ends without a verdict); a silently wrong architecture is still reported; the generate_hilbert_space oracle demands 'all 2^n "
        "states, each once' (listing order / element type: counter); "
        "non-trivial iff the basis has a non-Z letter and psi/rho has a non-real entry; distinct by hash of (dictionary, basis, operand, path)")
TH = {"rotate_psi": "C04_rotate_psi (model-derived psi: C04_rotate_psi_model)",
      "rotate_rho": "C04_rotate_rho / C04_rotate_rho_hermitian (model-derived rho: C04_rotate_rho_model)",
      "inner": "C04_inner_prod_enum_dense", "probs": "C04_rho_probs_enum_dense",
      "expand": "C04_expand_enumerates / C04_rotate_basis_state"}

REQUIRED_THEOREMS = ["C04_unitaries_of", "C04_create_dict", "C04_rotate_psi_dict", "C04_rotate_psi_dict_errors", "C04_rotate_rho_dict",
                     "C04_inner_prod_dict", "C04_rho_probs_dict", "C04_fastK_eq_dense_patched", "C04_fast_paths_ignore_unrotated", "C04_fastK_unitary",
                     "C04_inner_prod_probs_sum", "C04_model_probs_physical_psi", "C04_model_probs_physical_pos", "C04_model_probs_physical",
                     "C04_Z_override_fast_ne_dense",
                     "C04_rotate_rho_model", "C04_rotate_psi_model",   # second audit C04-1: operands TAKEN FROM THE MODEL, no hypothesis
                     "C04_index_convention", "C04_rotate_psi", "C04_rotate_rho", "C04_rotate_rho_hermitian", "C04_rotate_psi_loop",
                     "C04_rotate_rho_loop", "C04_dense_eq_kronecker", "C04_fastK_eq_dense", "C04_expand_enumerates", "C04_rotate_basis_state",
                     "C04_inner_prod_enum", "C04_inner_prod_enum_dense", "C04_rho_probs_enum", "C04_rho_probs_enum_dense",
                     "C04_dense_unitary", "C04_psi_probs_sum", "C04_rho_probs_nonneg", "C04_rho_probs_sum",
                     "C04_create_dict_exact", "C04_create_dict_list_rounds", "C04_create_dict_refused",   # extension round 2
                     "C04_dZ", "C04_dX_unitary", "C04_dX_eigen", "C04_dY_unitary", "C04_dY_eigen",
                     "C04_vector_states_outcome", "C04_convert_basis_batch"]   # late: 1-D `states` form, batched index conversion


# ------------------------------------------------------------------ helpers
def cenc(z, exact):
    z = complex(z)
    return [int(round(z.real)), int(round(z.imag))] if exact else [f2b(z.real), f2b(z.imag)]


def cdec(p, exact):
    if exact:
        return complex(p[0], p[1])
    a = unbits(p)
    return complex(a[0], a[1])


def m2enc(m, exact):
    return [[cenc(m[r][c], exact) for c in range(2)] for r in range(2)]


def to_pair_tensor(a):
    a = np.asarray(a, dtype=complex)
    return torch.tensor(np.stack([a.real, a.imag]), dtype=torch.double)


def from_pair_tensor(t):
    t = t.detach().numpy()
    return t[0] + 1j * t[1]


def rand_unitary(rng):
    a = np.array([[complex(rng.gauss(0, 1), rng.gauss(0, 1)) for _ in range(2)] for _ in range(2)])
    q, r = np.linalg.qr(a)
    return q * (np.diag(r) / np.abs(np.diag(r)))


def rand_gint(rng, shape, lo=-3, hi=3):
    return np.array([complex(rng.randint(lo, hi), rng.randint(lo, hi)) for _ in range(int(np.prod(shape)))]).reshape(shape)


def dense_K(mats):
    K = np.array([[1.0 + 0j]])
    for m in mats:
        K = np.kron(K, m)
    return K


class FakeState:
    """minimal nn_state for the explicit-operand paths (unitaries.py only needs these attributes)"""

    def __init__(self, n, udict, has_dict=True, A=None):
        self.num_visible = n
        self.device = torch.device("cpu")
        if has_dict:  # has_dict=False: a state WITHOUT the attribute (like PositiveWaveFunction)
            self.unitary_dict = udict
        if A is None or A.aseed is None:
            self._h = qc.PositiveWaveFunction(n, 1, gpu=False)
        else:  # sizes / gpu in the case's argument forms (round 5); the caller checks `af.sizes_of(st._h) == (n, 1)`
            self._h = qc.PositiveWaveFunction(A.i(n), A.i(1), A.b(False)) if A.coin() else qc.PositiveWaveFunction(A.i(n), A.i(1), gpu=A.b(False))

    def generate_hilbert_space(self, size=None, device=None):
        return self._h.generate_hilbert_space(size=size, device=device)


# ------------------------------------------------------------------ argument forms (round 5, harness/argforms_a.py)
MATRIX_FORMS = ("tensor", "numpy", "list")
# FORM LEFT OUT (clean code, finding candidate proposed/F_C04_create_dict_list_precision.md): nested lists of Python FLOATS.  create_dict converts a
# non-tensor with `torch.tensor(matrix)`, which infers torch's DEFAULT dtype (float32) for Python floats before the `.to(torch.double)`: the stored
# unitary is the float32 rounding of the one given (error ~ 1e-8, silently).  Lists of ints (exact tier) and float64 numpy arrays are converted exactly.
LIST_OF_PY_FLOATS = __import__("os").environ.get("QV_C04_LIST_OF_PY_FLOATS") == "1"   # off; switch on to reproduce the finding / once it is repaired


def matrix_form(v, form, ints=False):
    """the 2x2 complex matrix `v` as an object create_dict(**kwargs) is handed: the library's real-pair double tensor (the only form used before
    round 5), a numpy array of the same layout, or nested Python lists (of ints when the entries are Gaussian integers: `ints`)"""
    if form == "tensor":
        return to_pair_tensor(v)
    a = np.asarray(v, dtype=complex)
    pair = np.stack([a.real, a.imag])
    if ints:
        pair = np.rint(pair).astype(np.int64)
    return pair if form == "numpy" else pair.tolist()


def create_dict_forms(A, d, ints=False, ctx=None):
    """unitaries.create_dict(**d) with every matrix in a form drawn from the case's stream (unseeded: pair tensors, as before)"""
    kw = {}
    for k, v in d.items():
        form = "tensor" if A is None else A.choice(MATRIX_FORMS if (ints or LIST_OF_PY_FLOATS) else MATRIX_FORMS[:2])
        if ctx is not None and A is not None and A.aseed is not None:
            ctx.count(f"argform/create_dict matrix given as {form}" + (" of ints" if ints and form != "tensor" else ""))
        kw[k] = matrix_form(v, form, ints)
    return unitaries.create_dict(**kw)


class CaseAbort(Exception):
    """the case cannot be evaluated further (the reason has been recorded as an oracle failure)"""


# Second audit, item X-1: the sizes of the constructors and `size` of generate_hilbert_space are documented as `int`.  Python ints and the numpy
# integer scalars that arise from `.shape` / `np.arange` (np.int64 / np.int32 / np.intp) are what callers have in hand: a refusal of one of those is
# reported.  A 0-d integer ndarray, a 0-d integer tensor and np.uint8 are in no quantifier: a constructor / generate_hilbert_space that REFUSES
# one of them (a harmless `isinstance(x, numbers.Integral)` validation, a wrap-around guard) is counted and the case ends without a verdict;
# a silently WRONG architecture / space for them is still reported (af.check_sizes, hilbert-space oracle).
EXOTIC_INT_FORMS = ("np0d", "t0d", "np.uint8")


def build(ctx, A, f):
    """f() with every integer of the stream it consumes; an exception while an exotic integer object was among them = informational"""
    k0 = len(A.ints.used)
    try:
        return f()
    except CaseAbort:
        raise
    except Exception as e:  # noqa: BLE001
        ex = sorted({d["form"] for d in A.ints.used[k0:]} & set(EXOTIC_INT_FORMS))
        if not ex:
            raise
        ctx.count(f"argform/integer given as {'+'.join(ex)} refused with {type(e).__name__} (informational: documented type is int)")
        A.ints.used.clear(); A.flags.used.clear()
        raise CaseAbort()


def case_args(ctx, case):
    """the case's stream of argument forms (None: Python ints / bool singletons by keyword, as stored before round 5)"""
    A = af.Args(case.get("aseed"))
    A.ctx, A.case = ctx, case
    return A


def rot_call(A, f, st, basis, x, td, opname, op, extras=None, desc=None):
    """ONE call of a rotation entry point in the case's CALL FORM.  `unitaries` and the explicit operand (`psi=` / `rho=`) go by keyword (the only
    form used before round 5; unseeded stream), positionally in the documented order, or mixed.  `extras`: None for rotate_psi / rotate_rho (no such
    option); False / True = the truth value of `include_extras`, handed over as a flag OBJECT of the stream by keyword or as the sixth positional
    argument; a falsy flag is sometimes left at its default (always, when the stream is unseeded)."""
    args, kw = [st, basis, x], {}
    style = A.choice(("kw", "pos", "mixed"))
    if style == "kw":
        kw["unitaries"] = td
        kw[opname] = op
    elif style == "pos":
        args += [td, op]
    else:
        args.append(td)
        kw[opname] = op
    fd = None
    if extras is not None and (extras or (A.aseed is not None and A.coin(0.75))):
        flag, fd = A.b_desc(extras)
        if style == "pos" and A.coin(0.5):
            args.append(flag)
            fd = dict(fd, pos=True)
        else:
            kw["include_extras"] = flag
            fd = dict(fd, pos=False)
    form = {"call": style, "include_extras": fd if fd is not None else "default"}
    if A.aseed is not None and getattr(A, "ctx", None) is not None:
        A.ctx.count(f"argform/call unitaries + operand: {style}")
        if extras is not None:
            A.ctx.count("argform/include_extras " + ("left at its default" if fd is None else ("positional" if fd["pos"] else "by keyword")))
    if desc is not None:
        desc.update(form)
    try:
        return f(*args, **kw)
    except TypeError as e:
        if e.__traceback__.tb_next is not None or getattr(A, "ctx", None) is None:
            raise  # raised INSIDE the implementation: handled like every other exception of the code under test
        # raised by the call itself: the documented signature (nn_state, basis, states/space, unitaries=None, psi/rho=None[, include_extras=False])
        # does not bind these arguments
        A.ctx.oracle(f"{f.__name__} accepts its documented arguments by keyword and positionally in the documented order", False, A.case,
                     detail={"given_as": form, "error": str(e)[:200]}, sig=f"{f.__name__}/call-form", theorem=None)
        raise CaseAbort()


def _pair_value(x, shape, real=False):
    """numpy value of a returned tensor (complex from the real-pair format, or real) if it has the expected shape, else None"""
    try:
        if not hasattr(x, "detach"):
            return None
        a = x.detach().cpu().numpy()
        if real:
            return a.astype(float) if a.shape == tuple(shape) else None
        return (a[0] + 1j * a[1]) if a.shape == (2,) + tuple(shape) else None
    except Exception:  # noqa: BLE001
        return None


def fast_value(ctx, A, which, st, basis, states_t, td, op, B, info):
    """the PLAIN value of a fast path (`which` = "inner": rotate_psi_inner_prod -> complex (B,), "probs": rotate_rho_probs -> real (B,)) called with a FALSY
    include_extras object (or the default) in the case's call form.  A return value that is not the documented tensor (e.g. the triple, for a falsy
    object that is not the singleton False) gives a NaN vector - the value oracles / points then fail - and `info["problem"]` says why."""
    f, opname = (unitaries.rotate_psi_inner_prod, "psi") if which == "inner" else (unitaries.rotate_rho_probs, "rho")
    out = rot_call(A, f, st, basis, states_t, td, opname, op, extras=False, desc=info)
    val = _pair_value(out, (B,), real=(which == "probs"))
    if val is None:
        info["problem"] = f"a falsy include_extras must give the plain tensor; returned {type(out).__name__}" + \
            (f" of length {len(out)}" if isinstance(out, (tuple, list)) else f" of shape {list(getattr(out, 'shape', []))}")
        ctx.count("argform/include_extras falsy: NOT the plain tensor")
        return np.full(B, np.nan) + (0j if which == "inner" else 0.0)
    return val


def extras_check(ctx, case, A, which, st, basis, states_t, td, op, want, scale, kind, atol_f):
    """`include_extras=<truthy object>`: the documented return value is the triple (value, terms of the sum, expanded states).  Property level: the VALUE is
    the dense Kronecker result for the batch whatever object denoted `True`.  Auxiliary: the listed terms sum to the value (inner: over the term axis;
    probs: real parts over both term axes) - the representation is canonicalised, an unrecognised one is an informational counter."""
    if A.aseed is None:
        return
    f, opname = (unitaries.rotate_psi_inner_prod, "psi") if which == "inner" else (unitaries.rotate_rho_probs, "rho")
    info = {}
    out = rot_call(A, f, st, basis, states_t, td, opname, op, extras=True, desc=info)
    B = len(want)
    name = "rotate_psi_inner_prod" if which == "inner" else "rotate_rho_probs"
    th = TH["inner"] if which == "inner" else TH["probs"]
    triple = isinstance(out, (tuple, list)) and len(out) == 3
    val = _pair_value(out[0], (B,), real=(which == "probs")) if triple else None
    ok = val is not None and bool(np.allclose(val, want, rtol=1e-9, atol=atol_f * scale))
    ctx.oracle(f"{name}(include_extras=<true object>) returns (value, terms, states) and value == " +
               ("(kron(U) psi)[states]" if which == "inner" else "diag(U rho U^dag)[states]"), ok, case,
               detail={"given_as": info, "returned": type(out).__name__ + (f"[{len(out)}]" if isinstance(out, (tuple, list)) else ""),
                       "impl": None if val is None else str(val[:6]), "dense": str(np.asarray(want)[:6])},
               sig=f"{name}/{kind}/include_extras-true", theorem=th)
    if not ok:
        return
    terms = _canon_cplx(out[1])
    if terms is None or terms.shape[-1] != B:
        ctx.count("extras: representation not recognised (informational)")
        return
    tot = terms.reshape(-1, B).sum(axis=0)
    if which == "inner":
        ctx.point(f"{name}(include_extras): the listed terms sum to the returned value", "aux", np.r_[tot.real, tot.imag], np.r_[val.real, val.imag], case,
                  scale=scale, sig=f"extras.sum/{kind}", theorem=th, rtol=1e-9, atol=atol_f)
    else:
        ctx.point(f"{name}(include_extras): the real parts of the listed terms sum to the returned value", "aux", tot.real, val, case,
                  scale=scale, sig=f"extras.sum/{kind}", theorem=th, rtol=1e-9, atol=atol_f)


def hilbert_space_arg(ctx, case, A, st, n, space_t, kind):
    """the `space` argument of the model-derived kinds as a caller obtains it: `nn_state.generate_hilbert_space(size)` with `size` in the case's integer
    form (keyword or positional).  Exact oracle against the harness's own enumeration; None if it differs (the case cannot be evaluated further)."""
    if A.aseed is None:
        return space_t
    (so, sd) = A.i_desc(n)
    gen = build(ctx, A, lambda: st.generate_hilbert_space(so) if A.coin(0.5) else st.generate_hilbert_space(size=so))
    # what C04 needs of the `space` argument: all 2^n basis states, each once (element type and listing order are C19's business); the rotation
    # entry points are then handed the harness's own enumeration when the order is another one (counted)
    try:
        rows = [tuple(int(round(float(x))) for x in r) for r in gen.detach().cpu().numpy().reshape(len(gen), -1)]
        vals_ok = bool(np.all(np.isin(gen.detach().cpu().numpy(), (0, 1))))
    except Exception:  # noqa: BLE001
        rows, vals_ok = None, False
    want = [tuple(int(x) for x in r) for r in space_t.numpy()]
    ok = vals_ok and rows is not None and len(rows) == len(want) and sorted(rows) == sorted(want)
    ctx.oracle("generate_hilbert_space(size) (the `space` handed to rotate_psi / rotate_rho) lists all 2^n basis states, each once", ok, case,
               detail={"size": sd, "shape": list(getattr(gen, "shape", []))}, sig=f"{kind}/hilbert-space-size", theorem="C04_index_convention")
    if not ok:
        return None
    if rows != want or gen.dtype != torch.double:
        ctx.count("hilbert space in another listing order / element type than modelled (informational; the harness's enumeration is used)")
        return space_t
    return gen


CTOR_TH = "C04_rotate_psi / C04_rotate_rho / C04_model_probs_physical (stated for the n-site state the caller asked for)"


def rho_flag_form(ctx, case, A, st, space_t, rho, kind):
    """the reference matrix of the model-derived kinds is `nn_state.rho(space, space)`; with `expand` given explicitly as a TRUTHY object of the stream
    (keyword or third positional argument) the state must return the same full matrix (DensityMatrix.rho: "expand: whether to return a matrix (True)")"""
    if A.aseed is None:
        return
    (fo, fd) = A.b_desc(True)
    out = st.rho(space_t, space_t, fo) if A.coin(0.5) else st.rho(space_t, space_t, expand=fo)
    got = _pair_value(out, rho.shape)
    ctx.oracle("rho(space, space, expand=<true object>) == rho(space, space) (the matrix rotate_rho / rotate_rho_probs rotate)",
               got is not None and bool(np.allclose(got, rho, rtol=1e-12, atol=0.0)), case,
               detail={"expand_given_as": fd, "shape": list(getattr(out, "shape", []))}, sig=f"{kind}/rho-expand-flag", theorem=TH["rotate_rho"])


def make_dict(rng, exact, A=None, ctx=None):
    """letter -> complex 2x2; returns (numpy dict, torch dict)"""
    if exact:
        d = {L: rand_gint(rng, (2, 2)) for L in "XYABZ"}
        d["Z"] = np.eye(2, dtype=complex)
    else:
        base = unitaries.create_dict()
        d = {k: from_pair_tensor(v) for k, v in base.items()}
        d["A"] = rand_unitary(rng)
        d["B"] = rand_unitary(rng)
    td = create_dict_forms(A, d, ints=exact, ctx=ctx)
    return d, td


def _canon_cplx(x):
    """a complex numpy array from whatever a complex quantity is represented as: a numpy / torch complex array, or the library's
    real-pair format (leading axis of size 2, real dtype); None when the representation is not recognised"""
    try:
        if hasattr(x, "detach"):
            x = x.detach().cpu().numpy()
        x = np.asarray(x)
        if np.iscomplexobj(x):
            return x.astype(complex)
        if x.ndim >= 1 and x.shape[0] == 2 and x.dtype.kind in "fiu":
            return x[0].astype(float) + 1j * x[1].astype(float)
    except Exception:  # noqa: BLE001
        pass
    return None


def expand_points(ctx, case, st, basis, td, states, n, us_enc, rot, exact, kind, A=None):
    """auxiliary: the terms of the fast path's sum, observed through the PUBLIC `include_extras=True` outputs of rotate_psi_inner_prod
    ("all the terms of the summation as well as the expanded basis states") with psi = the all-ones vector, so that term i of sample b is the
    coefficient Ut_i itself, paired with the expanded state v_i. Compared with the model's enumeration `Unitaries.rotateBasisState`
    (= expandStates + rotCoeff) as a SET of (state, coefficient) pairs per sample (sorted by state): the property does not constrain the order in
    which the terms are listed, nor the private helper `_rotate_basis_state`, nor the representation (numpy complex or real-pair tensor) - an
    output that cannot be canonicalised is counted as informational and produces no mismatch."""
    m = sum(rot)
    B = len(states)
    ctx.count(f"rotated_sites={m}")
    try:
        out = unitaries.rotate_psi_inner_prod(st, basis, torch.tensor(states, dtype=torch.double), unitaries=td,
                                              psi=to_pair_tensor(np.ones(2 ** n)), include_extras=True if A is None else A.b(True))
        terms = _canon_cplx(out[1])
        v = out[2].detach().cpu().numpy() if hasattr(out[2], "detach") else np.asarray(out[2])
    except Exception:  # noqa: BLE001  (the value path is checked elsewhere; this is only the localising view)
        ctx.count("extras: not available (informational)")
        return
    if terms is None or terms.shape != (2 ** m, B) or v.shape != (2 ** m, B, n):
        ctx.count("extras: representation not recognised (informational)")
        return
    if ctx.driver is None:
        return
    sfx = "_int" if exact else ""
    r = ctx.driver.call("c04.expand" + sfx, n=n, us=us_enc, rot=rot, states=states)
    iv_all, mv_all, iU, mU = [], [], [], []
    same_order = True
    for b in range(B):
        ipairs = [(tuple(int(x) for x in np.rint(v[i, b])), terms[i, b]) for i in range(2 ** m)]
        mpairs = [(tuple(int(x) for x in r[b]["v"][i]), cdec(r[b]["Ut"][i], exact)) for i in range(len(r[b]["v"]))]
        same_order = same_order and [p[0] for p in ipairs] == [p[0] for p in mpairs]
        ipairs.sort(key=lambda p: p[0])
        mpairs.sort(key=lambda p: p[0])
        iv_all.append([list(p[0]) for p in ipairs]); mv_all.append([list(p[0]) for p in mpairs])
        iU += [p[1] for p in ipairs]; mU += [p[1] for p in mpairs]
    ctx.count("extras: terms listed in the modelled order" if same_order else "extras: terms listed in another order (informational)")
    ctx.point("fast path (include_extras): the SET of expanded states per sample", "aux", iv_all, mv_all, case, exact=True, theorem=TH["expand"],
              sig=f"extras.v/{kind}")
    iU, mU = np.array(iU), np.array(mU)
    if iU.shape == mU.shape:
        ctx.point("fast path (include_extras): coefficient paired with each expanded state", "aux", np.r_[iU.real, iU.imag], np.r_[mU.real, mU.imag], case,
                  scale=float(np.max(np.abs(mU))) + 1e-300, theorem=TH["expand"], sig=f"extras.Ut/{kind}",
                  **({"rtol": 0, "atol": 0} if exact else {}))


# ------------------------------------------------------------------ one case
def one_case(ctx, case):
    try:
        return _one_case(ctx, case)
    except CaseAbort:
        return None


def _one_case(ctx, case):
    if case.get("kind") == "dictres":
        return dictres_case(ctx, case)
    if case.get("kind") == "zoverride":
        return zoverride_case(ctx, case)
    if case.get("kind") == "vecstates":
        return vecstates_case(ctx, case)
    if case.get("kind") == "userdict":
        return userdict_case(ctx, case)
    if case.get("kind") == "dictarg":
        return dictarg_case(ctx, case)
    n, basis, exact, kind = case["n"], case["basis"], case["exact"], case["kind"]
    ctx.current_case = case
    rng_seed = case["seed"]
    import random as _r
    rng = _r.Random(rng_seed)
    A = case_args(ctx, case)
    d, td = make_dict(rng, exact, A, ctx)
    mats = [d[b] for b in basis]
    K = dense_K(mats)
    N = 2 ** n
    space = qc.all_states(n)
    space_t = torch.tensor(space, dtype=torch.double)
    sfx = "_int" if exact else ""
    us_enc = [m2enc(d[b], exact) for b in basis]
    rot = [b != "Z" for b in basis]
    st = None
    # ---- operand
    if kind in ("psi_explicit", "psi_model"):
        if kind == "psi_model":
            am = qc.rand_rbm_params(rng, n, 2, 0.7)
            ph = qc.rand_rbm_params(rng, n, 2, 1.0)
            st = build(ctx, A, lambda: af.make_complex(A, n, 2, am, ph, unitary_dict=td) if case.get("cplx", True) else af.make_positive(A, n, 2, am))
            if not af.check_sizes(ctx, st, (n, 2), case, A, f"{kind}/ctor-sizes", CTOR_TH):
                return
            if not hasattr(st, "unitary_dict"):
                st.unitary_dict = td
            space_t = hilbert_space_arg(ctx, case, A, st, n, space_t, kind)
            if space_t is None:
                return
            psi = from_pair_tensor(st.psi(space_t))
            psi_arg = None
        else:
            st = build(ctx, A, lambda: FakeState(n, td, A=A))
            if not af.check_sizes(ctx, st._h, (n, 1), case, A, f"{kind}/ctor-sizes", CTOR_TH):
                return
            psi = rand_gint(rng, (N,)) if exact else np.array([complex(rng.gauss(0, 1), rng.gauss(0, 1)) for _ in range(N)])
            psi_arg = to_pair_tensor(psi)
        nontriv = any(rot) and bool(np.any(np.abs(psi.imag) > 0))
        ctx.case({"n": n, "basis": basis, "kind": kind, "seed": rng_seed, "exact": exact}, nontrivial=nontriv,
                 sample={"n": n, "basis": basis, "kind": kind, "exact": exact, "psi0": str(psi[0])})
        ctx.count(f"kind={kind}"); ctx.count(f"n={n}"); ctx.count("exact" if exact else "tolerance")
        ctx.count("letters=" + "".join(sorted(set(basis))))
        scale = float(np.max(np.abs(K @ psi))) + 1e-300
        # rotate_psi
        impl = from_pair_tensor(rot_call(A, unitaries.rotate_psi, st, basis, space_t, td, "psi", psi_arg))
        ok = np.allclose(impl, K @ psi, rtol=1e-9, atol=1e-9 * scale)
        ctx.oracle("rotate_psi == kron(U) psi", bool(ok), case, detail={"impl": str(impl[:8]), "dense": str((K @ psi)[:8])},
                   sig=f"rotate_psi/{kind}", theorem=TH["rotate_psi"])
        # inner prod on a batch with repeats in arbitrary order
        batch = [rng.randrange(N) for _ in range(min(2 * N, 12))] + [0, N - 1]
        states = [space[k] for k in batch]
        states_t = torch.tensor(states, dtype=torch.double)
        info = {}
        ip = fast_value(ctx, A, "inner", st, basis, states_t, td, psi_arg, len(batch), info)
        ok = np.allclose(ip, (K @ psi)[batch], rtol=1e-9, atol=1e-9 * scale)
        ctx.oracle("rotate_psi_inner_prod == (kron(U) psi)[states]", bool(ok), case,
                   detail=dict({"impl": str(ip[:8]), "dense": str((K @ psi)[batch][:8])}, **({"given_as": info} if A.aseed is not None else {})),
                   sig=f"rotate_psi_inner_prod/{kind}", theorem=TH["inner"])
        extras_check(ctx, case, A, "inner", st, basis, states_t, td, psi_arg, (K @ psi)[batch], scale, kind, 1e-9)
        expand_points(ctx, case, st, basis, td, states, n, us_enc, rot, exact, kind, A)
        if kind == "psi_model":
            p = np.abs(impl) ** 2
            Z = float(st.normalization(space_t))
            ctx.oracle("rotated probs sum to Z (psi)", abs(p.sum() - Z) <= 1e-8 * Z, case, sig="probs-sum/psi", theorem="C04_psi_probs_sum")
            ipf = fast_value(ctx, A, "inner", st, basis, space_t, td, None, N, {})
            ctx.oracle("fast path: |rotate_psi_inner_prod(space)|^2 sums to the normalisation (psi from the model)",
                       abs(float((np.abs(ipf) ** 2).sum()) - Z) <= 1e-8 * Z, case, detail={"sum": float((np.abs(ipf) ** 2).sum()), "Z": Z},
                       sig="probs-sum/psi-fast", theorem="C04_model_probs_physical_psi")
            # history: new parameters written in place, SAME state / space / batch objects -> results must follow the new psi
            qc.set_rbm(st.rbm_am, qc.rand_rbm_params(rng, n, 2, 0.9), inplace=True)
            if hasattr(st, "rbm_ph"):
                qc.set_rbm(st.rbm_ph, qc.rand_rbm_params(rng, n, 2, 0.9), inplace=True)
            psi2 = from_pair_tensor(st.psi(space_t))
            again = from_pair_tensor(rot_call(A, unitaries.rotate_psi, st, basis, space_t, td, "psi", None))
            bt = torch.tensor(states, dtype=torch.double)
            ip2 = fast_value(ctx, A, "inner", st, basis, bt, td, None, len(batch), {})
            sc2 = float(np.max(np.abs(K @ psi2))) + 1e-300
            ctx.oracle("rotate_psi / inner_prod follow the CURRENT parameters on a repeated call with the same objects",
                       bool(np.allclose(again, K @ psi2, rtol=1e-9, atol=1e-9 * sc2) and np.allclose(ip2, (K @ psi2)[batch], rtol=1e-9, atol=1e-9 * sc2)),
                       case, sig=f"history/{kind}", theorem=TH["rotate_psi"])
        A.count_into(ctx)
        if ctx.driver is not None and not (case.get("big") and n > 9):
            m = ctx.driver.call("c04.rotate_psi" + sfx, n=n, us=us_enc, psi=[cenc(z, exact) for z in psi])
            mv = np.array([cdec(p, exact) for p in m])
            ctx.point("rotate_psi", "property", np.r_[impl.real, impl.imag], np.r_[mv.real, mv.imag], case, scale=scale,
                      theorem=TH["rotate_psi"], sig=f"rotate_psi/{kind}", **({"rtol": 0, "atol": 0} if exact else {}))
            m = ctx.driver.call("c04.inner_prod" + sfx, n=n, us=us_enc, rot=rot, psi=[cenc(z, exact) for z in psi], states=states)
            mv = np.array([cdec(p, exact) for p in m])
            ctx.point("rotate_psi_inner_prod", "property", np.r_[ip.real, ip.imag], np.r_[mv.real, mv.imag], case, scale=scale,
                      theorem=TH["inner"], sig=f"rotate_psi_inner_prod/{kind}", **({"rtol": 0, "atol": 0} if exact else {}))
    else:
        herm = kind != "rho_nonherm"
        if kind == "rho_model":
            am = qc.rand_prbm_params(rng, n, 2, 2, 0.7)
            ph = qc.rand_prbm_params(rng, n, 2, 2, 1.0, d_zero=True)
            st = build(ctx, A, lambda: af.make_density(A, n, 2, 2, am, ph, unitary_dict=td))
            if not af.check_sizes(ctx, st, (n, 2, 2), case, A, f"{kind}/ctor-sizes", CTOR_TH):
                return
            space_t = hilbert_space_arg(ctx, case, A, st, n, space_t, kind)
            if space_t is None:
                return
            rho = from_pair_tensor(st.rho(space_t, space_t))
            rho_flag_form(ctx, case, A, st, space_t, rho, kind)
            rho_arg = None
        else:
            st = build(ctx, A, lambda: FakeState(n, td, A=A))
            if not af.check_sizes(ctx, st._h, (n, 1), case, A, f"{kind}/ctor-sizes", CTOR_TH):
                return
            a = rand_gint(rng, (N, N)) if exact else np.array([[complex(rng.gauss(0, 1), rng.gauss(0, 1)) for _ in range(N)] for _ in range(N)])
            rho = (a + a.conj().T) if herm else a
            if herm and not exact:
                rho = a @ a.conj().T  # PSD
            if herm and N > 1 and not np.any(np.abs(rho.imag) > 0):  # Hermitian but NOT real-symmetric (the quantifier's "non-symmetric-complex")
                rho[0, N - 1] += 1j
                rho[N - 1, 0] -= 1j
            rho_arg = to_pair_tensor(rho)
        nontriv = any(rot) and bool(np.any(np.abs(rho.imag) > 0))
        ctx.case({"n": n, "basis": basis, "kind": kind, "seed": rng_seed, "exact": exact}, nontrivial=nontriv,
                 sample={"n": n, "basis": basis, "kind": kind, "exact": exact, "rho01": str(rho[0, -1])})
        ctx.count(f"kind={kind}"); ctx.count(f"n={n}"); ctx.count("exact" if exact else "tolerance")
        ctx.count("letters=" + "".join(sorted(set(basis))))
        dense = K @ rho @ K.conj().T
        denseH = K @ rho.conj().T @ K.conj().T
        scale = float(np.max(np.abs(dense))) + 1e-300
        impl = from_pair_tensor(rot_call(A, unitaries.rotate_rho, st, basis, space_t, td, "rho", rho_arg))
        if herm:
            if np.any(np.abs(rho.imag) > 0):
                ctx.count("rho_hermitian_not_real_symmetric(property level)")
                if any(rot) and not np.allclose(K @ rho.T @ K.conj().T, dense, rtol=1e-9, atol=1e-8 * scale):
                    ctx.count("rho_hermitian: U rho U^dag distinguishable from U rho^T U^dag")
            ok = np.allclose(impl, dense, rtol=1e-9, atol=1e-8 * scale)
            ctx.oracle("rotate_rho == U rho U^dag", bool(ok), case, detail={"impl": str(impl[0, :4]), "dense": str(dense[0, :4])},
                       sig=f"rotate_rho/{kind}", theorem=TH["rotate_rho"])
        else:
            # SCOPE NOTE (audit item C04-1): a non-Hermitian matrix is not a density matrix and lies outside the quantifier ("Hermitian and
            # non-symmetric-complex rho"). As coded rotate_rho returns K rho^H K^H there (C04_rotate_rho); K rho K^H (the statement's formula) would be
            # just as acceptable. Auxiliary only; a mismatch only when the result is neither.
            ctx.count("nonhermitian_rho(aux only)")
            as_coded = bool(np.allclose(impl, denseH, rtol=1e-9, atol=1e-8 * scale))
            as_stated = bool(np.allclose(impl, dense, rtol=1e-9, atol=1e-8 * scale))
            ctx.count("nonhermitian_rho: K rho^H K^H (as modelled)" if as_coded else
                      ("nonhermitian_rho: K rho K^H (differs from the model, informational)" if as_stated else "nonhermitian_rho: neither"))
            if not as_stated:
                ctx.point("rotate_rho(non-Hermitian) == K rho^H K^H", "aux", np.r_[impl.real.ravel(), impl.imag.ravel()],
                          np.r_[denseH.real.ravel(), denseH.imag.ravel()], case, scale=scale, rtol=1e-9, atol=1e-8)
        batch = [rng.randrange(N) for _ in range(min(2 * N, 12))] + [0, N - 1]
        states = [space[k] for k in batch]
        states_t = torch.tensor(states, dtype=torch.double)
        info = {}
        pr = fast_value(ctx, A, "probs", st, basis, states_t, td, rho_arg, len(batch), info)
        want = np.real(np.diag(dense))[batch]
        ok = np.allclose(pr, want, rtol=1e-9, atol=1e-8 * scale)
        ctx.oracle("rotate_rho_probs == diag(U rho U^dag)[states]", bool(ok), case,
                   detail=dict({"impl": pr[:8].tolist(), "dense": want[:8].tolist()}, **({"given_as": info} if A.aseed is not None else {})),
                   sig=f"rotate_rho_probs/{kind}", theorem=TH["probs"])
        extras_check(ctx, case, A, "probs", st, basis, states_t, td, rho_arg, want, scale, kind, 1e-8)
        expand_points(ctx, case, st, basis, td, states, n, us_enc, rot, exact, kind, A)
        if kind == "rho_model":
            Z = float(st.normalization(space_t))
            full = fast_value(ctx, A, "probs", st, basis, space_t, td, None, N, {})
            # history (see psi_model)
            qc.set_prbm(st.rbm_am, qc.rand_prbm_params(rng, n, 2, 2, 0.8), inplace=True)
            qc.set_prbm(st.rbm_ph, qc.rand_prbm_params(rng, n, 2, 2, 0.8, d_zero=True), inplace=True)
            rho2 = from_pair_tensor(st.rho(space_t, space_t))
            d2 = K @ rho2 @ K.conj().T
            rr2 = from_pair_tensor(rot_call(A, unitaries.rotate_rho, st, basis, space_t, td, "rho", None))
            pr2 = fast_value(ctx, A, "probs", st, basis, space_t, td, None, N, {})
            sc2 = float(np.max(np.abs(d2))) + 1e-300
            ctx.oracle("rotate_rho / rho_probs follow the CURRENT parameters on a repeated call with the same objects",
                       bool(np.allclose(rr2, d2, rtol=1e-9, atol=1e-8 * sc2) and np.allclose(pr2, np.real(np.diag(d2)), rtol=1e-9, atol=1e-8 * sc2)),
                       case, sig=f"history/{kind}", theorem=TH["rotate_rho"])
            ctx.oracle("rotated probs >= 0 and sum to Z (rho)", bool(np.all(full >= -1e-9 * Z) and abs(full.sum() - Z) <= 1e-8 * Z), case,
                       detail={"probs": full.tolist(), "Z": Z}, sig="probs-physical/rho", theorem="C04_model_probs_physical (C04_rho_probs_nonneg, C04_rho_probs_sum, C02_posSemidef, C02_trace)")
        A.count_into(ctx)
        if ctx.driver is not None and not case.get("big"):
            rho_enc = [[cenc(z, exact) for z in row] for row in rho]
            if (n <= 3 or ctx.tier == "thorough") and (herm or not np.allclose(impl, dense, rtol=1e-9, atol=1e-8 * scale) or np.allclose(dense, denseH)):
                m = ctx.driver.call("c04.rotate_rho" + sfx, n=n, us=us_enc, rho=rho_enc)
                mv = np.array([[cdec(p, exact) for p in row] for row in m])
                ctx.point("rotate_rho", "property" if herm else "aux", np.r_[impl.real.ravel(), impl.imag.ravel()], np.r_[mv.real.ravel(), mv.imag.ravel()],
                          case, scale=scale, theorem=TH["rotate_rho"], sig=f"rotate_rho/{kind}", **({"rtol": 0, "atol": 0} if exact else {}))
            m = ctx.driver.call("c04.rho_probs" + sfx, n=n, us=us_enc, rot=rot, rho=rho_enc, states=states)
            mv = np.array([float(p) if exact else float(unbits([p])[0]) for p in m])
            ctx.point("rotate_rho_probs", "property", pr, mv, case, scale=scale, theorem=TH["probs"], sig=f"rotate_rho_probs/{kind}",
                      **({"rtol": 0, "atol": 0} if exact else {}))


def dict_case(ctx, aseed=None):
    """default dictionary: implementation vs model vs the eigenvector characterisation"""
    base = unitaries.create_dict()
    d = {k: from_pair_tensor(v) for k, v in base.items()}
    case = {"kind": "dict"}
    A = af.Args(aseed)
    if aseed is not None:
        case["aseed"] = aseed
    ctx.current_case = case
    ctx.case(case, nontrivial=True)
    sx = np.array([[0, 1], [1, 0]], dtype=complex)
    sy = np.array([[0, -1j], [1j, 0]])
    pm = np.diag([1.0, -1.0])
    ctx.oracle("Z is identity", bool(np.array_equal(d["Z"], np.eye(2))), case, sig="dict/Z", theorem="C04_dZ")
    for L, s in (("X", sx), ("Y", sy)):
        U = d[L]
        ctx.oracle(f"{L} unitary", bool(np.allclose(U.conj().T @ U, np.eye(2), atol=1e-15)), case, sig=f"dict/{L}-unitary", theorem=f"C04_d{L}_unitary")
        ctx.oracle(f"{L} rows are the +1,-1 eigen-bras", bool(np.allclose(U @ s, pm @ U, atol=1e-15)), case, sig=f"dict/{L}-eigen", theorem=f"C04_d{L}_eigen")
    # shared mutable defaults: a returned dictionary edited in place must not leak into later dictionaries / other states
    d1 = unitaries.create_dict()
    for k in d1:
        d1[k].mul_(-3.0)
    d2 = unitaries.create_dict()
    try:
        st_a = build(ctx, A, lambda: qc.ComplexWaveFunction(A.i(1), A.i(1), gpu=A.b(False)))
        st_a.unitary_dict["X"].add_(1.0)
        st_b = build(ctx, A, lambda: qc.ComplexWaveFunction(A.i(1), A.i(1), None, A.b(False)) if A.coin() else qc.ComplexWaveFunction(A.i(1), A.i(1), gpu=A.b(False)))
        st_c = build(ctx, A, lambda: qc.DensityMatrix(A.i(1), A.i(1), A.i(1), None, A.b(False)) if A.coin() else qc.DensityMatrix(A.i(1), A.i(1), A.i(1), gpu=A.b(False)))
    except CaseAbort:   # an exotic integer object refused (informational): the same three states from Python ints
        A = af.Args(None)
        aseed = None
        st_a = qc.ComplexWaveFunction(1, 1, gpu=False)
        st_a.unitary_dict["X"].add_(1.0)
        st_b, st_c = qc.ComplexWaveFunction(1, 1, gpu=False), qc.DensityMatrix(1, 1, 1, gpu=False)
    if aseed is not None:
        sz = [af.sizes_of(st_a), af.sizes_of(st_b), af.sizes_of(st_c)]
        ctx.oracle("constructed architecture == requested sizes (default-dictionary states)", sz == [(1, 1), (1, 1), (1, 1, 1)], case,
                   detail={"constructed": [None if x is None else list(x) for x in sz], "given_as": A.used()}, sig="dict/ctor-sizes", theorem=CTOR_TH)
        A.count_into(ctx)
    fresh_ok = all(np.array_equal(from_pair_tensor(d2[k]), d[k]) for k in "XYZ") and \
        all(np.array_equal(from_pair_tensor(s_.unitary_dict[k]), d[k]) for s_ in (st_b, st_c) for k in "XYZ")
    ctx.oracle("create_dict() / default state dictionaries are fresh (unaffected by in-place edits of earlier ones)", bool(fresh_ok), case,
               sig="dict/shared-default", theorem="C04_dZ/dX/dY")
    if ctx.driver is not None:
        m = ctx.driver.call("c04.dict")
        for L in "XYZ":
            mv = np.array([[cdec(p, False) for p in row] for row in m[L]])
            ctx.point(f"create_dict[{L}]", "property", np.r_[d[L].real.ravel(), d[L].imag.ravel()], np.r_[mv.real.ravel(), mv.imag.ravel()], case,
                      theorem="C04_dZ/dX/dY", sig=f"dict/{L}", rtol=4e-16, atol=0.0)


# ------------------------------------------------------------------ audit round: dictionary resolution (_unitaries_of)
FINDING_Z = "fast-path/dict-Z-not-identity"   # proposed known finding (proposed/F_C04_Z_override.md)


def _import_random():
    import random as _r
    return _r


def _dict_enc(d):
    """numpy dictionary -> [[letter, 2x2 encoded]] for the driver; None (no dictionary) stays None, {} becomes []"""
    return None if d is None else [[k, m2enc(v, False)] for k, v in d.items()]


def _tdict(d, through_api=True, A=None, ctx=None):
    """numpy dictionary -> torch dictionary; through create_dict (which adds/overrides the defaults; matrices in the forms of the stream `A`) or as
    a plain dict of pair tensors (`unitaries=` is documented as dict(str, torch.Tensor))"""
    if d is None:
        return None
    if through_api:
        return create_dict_forms(A, d, ctx=ctx)
    return {k: to_pair_tensor(v) for k, v in d.items()}


def _snapshot(td):
    return None if td is None else {k: v.clone() for k, v in td.items()}


def _same_dict(td, snap):
    if td is None:
        return snap is None
    return list(td.keys()) == list(snap.keys()) and all(torch.equal(td[k], snap[k]) for k in td)


def _outcome(f):
    try:
        return {"value": f()}
    except Exception as e:  # noqa: BLE001  (outcome class of the implementation)
        return {"error": type(e).__name__}


def _cmp_outcome(ctx, name, level, impl, model, case, scale, sig, theorem, enc):
    """impl: {"value": complex/real numpy array} | {"error": cls}; model: {"value": encoded} | {"error": cls}.
    Values are compared when BOTH sides return one. An exception on either side only happens on inputs outside the property's quantifier
    (a basis letter that is in no dictionary, ...): whether / what the code raises there is not constrained by the property, so the outcome
    class is recorded as an informational counter and never produces a mismatch (level-"property" callers check 'must not raise' themselves)."""
    if "error" in impl or "error" in model:
        same = ("error" in impl) == ("error" in model)
        ctx.count("outcome class outside the quantifier: " + ("as modelled" if same else "differs from the model (informational)"))
        return
    iv = np.asarray(impl["value"])
    mv = enc(model["value"])
    ctx.point(name, level, np.r_[iv.real.ravel(), iv.imag.ravel()], np.r_[mv.real.ravel(), mv.imag.ravel()], case, scale=scale, sig=sig, theorem=theorem)


def _dec_vec(v):
    return np.array([cdec(p, False) for p in v])


def _dec_mat(v):
    return np.array([[cdec(p, False) for p in row] for row in v])


def _dec_real(v):
    return unbits(v).astype(float) + 0j


def dictres_case(ctx, case):
    """`_unitaries_of`: which dictionary a rotation uses — the one given (if truthy), else the state's own, else (a state without
    `unitary_dict`: PositiveWaveFunction) the default — and the lookup of the basis letters in it.  Oracle: numpy dense Kronecker
    product over the dictionary resolved BY THIS FUNCTION's own re-statement of the rule; model: ops c04.*_dict
    (Unitaries.unitariesOf / siteUs / rotatePsiD / rotateRhoD / rotatePsiInnerProdD / rotateRhoProbsD)."""
    ctx.current_case = case
    rng = _import_random().Random(case["seed"])
    A = case_args(ctx, case)
    n, basis, state, gk, ok_ = case["n"], case["basis"], case["state"], case["given"], case["own"]
    N = 2 ** n
    r2 = 1.0 / np.sqrt(2.0)   # the default dictionary written out (independent of create_dict): rows = the +1, -1 eigen-bras of sigma_x / sigma_y
    default = {"X": np.array([[1, 1], [1, -1]], dtype=complex) * r2, "Y": np.array([[1, -1j], [1, 1j]], dtype=complex) * r2,
               "Z": np.eye(2, dtype=complex)}

    def user():
        d = dict(default)
        d["A"], d["B"] = rand_unitary(rng), rand_unitary(rng)
        if rng.random() < 0.5:
            d["X"] = rand_unitary(rng)  # "the given operators will overwrite the default matrices if they share the same key"
        r = rng.random()                # (x-packages) also the OTHER default key, the two defaults swapped, and Z registered explicitly AS THE IDENTITY
        if r < 0.25:
            d["Y"] = rand_unitary(rng); ctx.count("dictres:user dictionary overrides Y")
        elif r < 0.35:
            d["X"], d["Y"] = default["Y"], default["X"]; ctx.count("dictres:user dictionary swaps X and Y")
        if rng.random() < 0.2:
            d["Z"] = np.eye(2, dtype=complex); ctx.count("dictres:user dictionary registers Z explicitly as the identity")
        return d

    own_np = None if ok_ == "none" else (dict(default) if ok_ == "default" else user())
    given_np = {"none": None, "empty": {}}.get(gk, 0)
    if given_np == 0:
        given_np = user()
        if gk == "explicit_noZ":
            del given_np["Z"]
    # the rule, re-stated: the one given (a non-empty dictionary), else the state's own, else the default
    res = given_np if given_np else (own_np if own_np is not None else default)
    td_own = None if own_np is None or ok_ == "default" else _tdict(own_np, A=A, ctx=ctx)
    td_given = _tdict(given_np, through_api=(gk != "explicit_noZ"), A=A, ctx=ctx) if given_np else given_np
    space = qc.all_states(n)
    space_t = torch.tensor(space, dtype=torch.double)
    if state == "complex":
        st = build(ctx, A, lambda: af.make_complex(A, n, 2, qc.rand_rbm_params(rng, n, 2, 0.7), qc.rand_rbm_params(rng, n, 2, 1.0), unitary_dict=td_own))
    elif state == "positive":
        st = build(ctx, A, lambda: af.make_positive(A, n, 2, qc.rand_rbm_params(rng, n, 2, 0.7)))
    elif state == "density":
        st = build(ctx, A, lambda: af.make_density(A, n, 2, 2, qc.rand_prbm_params(rng, n, 2, 2, 0.7), qc.rand_prbm_params(rng, n, 2, 2, 1.0, d_zero=True), unitary_dict=td_own))
    else:
        st = build(ctx, A, lambda: FakeState(n, td_own if td_own is not None else unitaries.create_dict(), has_dict=(state == "fake"), A=A))
    if not af.check_sizes(ctx, getattr(st, "_h", st), {"density": (n, 2, 2), "complex": (n, 2), "positive": (n, 2)}.get(state, (n, 1)), case, A,
                          f"dictres/{state}/ctor-sizes", CTOR_TH):
        return
    has_own = hasattr(st, "unitary_dict")
    assert has_own == (own_np is not None), "harness: state / own-dictionary mismatch"
    do_psi = state in ("complex", "positive", "fake", "fake_nodict")
    do_rho = state in ("density", "fake", "fake_nodict")
    explicit = state.startswith("fake")
    letters_ok = all(b in res for b in basis)
    rot_ok = all(b in res for b in basis if b != "Z")
    rot = [b != "Z" for b in basis]
    ctx.case({k: case[k] for k in ("n", "basis", "state", "given", "own", "seed")}, nontrivial=any(rot) and letters_ok,
             sample={"n": n, "basis": basis, "kind": "dictres", "state": state, "given": gk, "own": ok_})
    ctx.count("kind=dictres"); ctx.count(f"dictres:state={state}"); ctx.count(f"dictres:given={gk}"); ctx.count(f"dictres:own={ok_}")
    ctx.count("dictres:letters-" + ("ok" if letters_ok else ("rotated-ok" if rot_ok else "missing")))
    K = dense_K([res[b] for b in basis]) if letters_ok else None
    Kf = dense_K([res[b] if b != "Z" else np.eye(2) for b in basis]) if rot_ok else None  # what a dictionary WITHOUT a Z key can only mean
    batch = [rng.randrange(N) for _ in range(min(2 * N, 8))] + [0, N - 1]
    states = [space[k] for k in batch]
    states_t = torch.tensor(states, dtype=torch.double)
    snap_given, snap_own = _snapshot(td_given), _snapshot(getattr(st, "unitary_dict", None))
    tag = f"{state}/{gk}/{ok_}"
    g_enc, o_enc = _dict_enc(given_np), _dict_enc(own_np)

    def run_pair(name, level_ok, impl_f, dense_f, model_op, model_args, dec, th, expect_ok, scale):
        impl = _outcome(impl_f)
        if expect_ok:
            if "error" in impl:
                ctx.oracle(f"{name} over the resolved dictionary must not raise", False, case, detail=impl, sig=f"dictres/{name}/raised", theorem=th)
            else:
                want = dense_f()
                ctx.oracle(f"{name}(unitaries=<{gk}>) == dense Kronecker product over the RESOLVED dictionary (given, else own, else default)",
                           bool(np.allclose(impl["value"], want, rtol=1e-9, atol=1e-8 * scale)), case,
                           detail={"impl": str(np.asarray(impl["value"]).ravel()[:6]), "dense": str(np.asarray(want).ravel()[:6]), "resolved_keys": sorted(res)},
                           sig=f"dictres/{name}", theorem=th)
        if ctx.driver is not None:
            model = ctx.driver.call(model_op, n=n, given=g_enc, own=o_enc, basis=basis, **model_args)
            _cmp_outcome(ctx, f"{name} [{tag}]", level_ok if expect_ok else "aux", impl, model, case, scale, f"dictres/{name}", th, dec)

    if do_psi:
        if explicit:
            psi = np.array([complex(rng.gauss(0, 1), rng.gauss(0, 1)) for _ in range(N)])
            psi_arg = to_pair_tensor(psi)
        else:
            psi = from_pair_tensor(st.psi(space_t))
            psi_arg = None
        sc = float(np.max(np.abs(psi))) * 2 ** (n / 2) + 1e-300
        psi_enc = [cenc(z, False) for z in psi]
        run_pair("rotate_psi", "property", lambda: from_pair_tensor(rot_call(A, unitaries.rotate_psi, st, basis, space_t, td_given, "psi", psi_arg)),
                 lambda: K @ psi, "c04.rotate_psi_dict", {"psi": psi_enc}, _dec_vec, "C04_unitaries_of, C04_rotate_psi_dict", letters_ok, sc)
        run_pair("rotate_psi_inner_prod", "property",
                 lambda: from_pair_tensor(rot_call(A, unitaries.rotate_psi_inner_prod, st, basis, states_t, td_given, "psi", psi_arg, extras=False)),
                 lambda: (K @ psi)[batch], "c04.inner_prod_dict", {"psi": psi_enc, "states": states}, _dec_vec,
                 "C04_unitaries_of, C04_inner_prod_dict", letters_ok, sc)
        if rot_ok and not letters_ok:  # dictionary without a Z key: the fast path never looks Z up
            ip = _outcome(lambda: from_pair_tensor(unitaries.rotate_psi_inner_prod(st, basis, states_t, unitaries=td_given, psi=psi_arg)))
            if "value" in ip:  # (raising here would be just as acceptable: the basis string is not over the dictionary)
                ctx.point("rotate_psi_inner_prod with a dictionary that has no Z key == identity at the Z sites", "aux",
                          np.r_[ip["value"].real, ip["value"].imag], np.r_[((Kf @ psi)[batch]).real, ((Kf @ psi)[batch]).imag], case, scale=sc,
                          sig="dictres/noZ-key")
    if do_rho:
        if explicit:
            a = np.array([[complex(rng.gauss(0, 1), rng.gauss(0, 1)) for _ in range(N)] for _ in range(N)])
            rho = a @ a.conj().T
            rho_arg = to_pair_tensor(rho)
        else:
            rho = from_pair_tensor(st.rho(space_t, space_t))
            rho_arg = None
        sc = float(np.max(np.abs(rho))) * N + 1e-300
        rho_enc = [[cenc(z, False) for z in row] for row in rho]
        run_pair("rotate_rho", "property", lambda: from_pair_tensor(rot_call(A, unitaries.rotate_rho, st, basis, space_t, td_given, "rho", rho_arg)),
                 lambda: K @ rho @ K.conj().T, "c04.rotate_rho_dict", {"rho": rho_enc}, _dec_mat, "C04_unitaries_of, C04_rotate_rho_dict", letters_ok, sc)
        run_pair("rotate_rho_probs", "property",
                 lambda: rot_call(A, unitaries.rotate_rho_probs, st, basis, states_t, td_given, "rho", rho_arg, extras=False).detach().numpy() + 0j,
                 lambda: np.real(np.diag(K @ rho @ K.conj().T))[batch], "c04.rho_probs_dict", {"rho": rho_enc, "states": states}, _dec_real,
                 "C04_unitaries_of, C04_rho_probs_dict", letters_ok, sc)
    ctx.oracle("the given dictionary and the state's own dictionary are left untouched by the rotation helpers",
               bool(_same_dict(td_given, snap_given) and _same_dict(getattr(st, "unitary_dict", None), snap_own)), case,
               sig="dictres/dict-mutated", theorem="C04_unitaries_of")
    A.count_into(ctx)


# ------------------------------------------------------------------ audit round: a dictionary whose Z entry is not the identity (FINDING, proposed/F_C04_Z_override.md)
def zoverride_case(ctx, case):
    """create_dict(Z=<non-identity>) is accepted ("will overwrite the default matrices"). rotate_psi / rotate_rho apply unitaries["Z"]
    (dense product, as the statement says); the fast paths test the LETTER and leave Z sites alone -> they differ from the dense Kronecker
    product.  Property-level oracle with the stable signature FINDING_Z (proposed known finding); the model is faithful to the code
    (C04_inner_prod_enum with fastK; C04_fast_paths_ignore_unrotated; witness C04_Z_override_fast_ne_dense)."""
    ctx.current_case = case
    rng = _import_random().Random(case["seed"])
    A = case_args(ctx, case)
    n, basis, exact, state = case["n"], case["basis"], case["exact"], case["state"]
    N = 2 ** n
    if exact:
        d = {L: rand_gint(rng, (2, 2)) for L in "XYAZ"}
        while np.array_equal(d["Z"], np.eye(2)):
            d["Z"] = rand_gint(rng, (2, 2))
    else:
        d = {k: from_pair_tensor(v) for k, v in unitaries.create_dict().items()}
        d["A"] = rand_unitary(rng)
        d["Z"] = np.array([[1, 1], [1, -1]], dtype=complex) / np.sqrt(2) if case.get("hadamard") else rand_unitary(rng)
    td = create_dict_forms(A, d, ints=exact, ctx=ctx)  # through the public API
    space = qc.all_states(n)
    space_t = torch.tensor(space, dtype=torch.double)
    K = dense_K([d[b] for b in basis])
    Kf = dense_K([d[b] if b != "Z" else np.eye(2) for b in basis])
    rot = [b != "Z" for b in basis]
    us_enc = [m2enc(d[b], exact) for b in basis]
    sfx = "_int" if exact else ""
    batch = [rng.randrange(N) for _ in range(min(2 * N, 8))] + [0, N - 1]
    states = [space[k] for k in batch]
    states_t = torch.tensor(states, dtype=torch.double)
    ctx.case({k: case[k] for k in ("n", "basis", "exact", "state", "seed")}, nontrivial=True,
             sample={"n": n, "basis": basis, "kind": "zoverride", "exact": exact, "state": state})
    ctx.count("kind=zoverride"); ctx.count(f"zoverride:state={state}"); ctx.count("exact" if exact else "tolerance")
    tol = {"rtol": 0, "atol": 0} if exact else {}
    if state in ("fake", "complex"):
        if state == "complex":
            st = build(ctx, A, lambda: af.make_complex(A, n, 2, qc.rand_rbm_params(rng, n, 2, 0.7), qc.rand_rbm_params(rng, n, 2, 1.0), unitary_dict=td))
            if not af.check_sizes(ctx, st, (n, 2), case, A, "zoverride/ctor-sizes", CTOR_TH):
                return
            psi, psi_arg, given = from_pair_tensor(st.psi(space_t)), None, None  # the state's own dictionary
        else:
            st = build(ctx, A, lambda: FakeState(n, unitaries.create_dict(), A=A))
            if not af.check_sizes(ctx, st._h, (n, 1), case, A, "zoverride/ctor-sizes", CTOR_TH):
                return
            psi = rand_gint(rng, (N,)) if exact else np.array([complex(rng.gauss(0, 1), rng.gauss(0, 1)) for _ in range(N)])
            psi_arg, given = to_pair_tensor(psi), td
        sc = float(np.max(np.abs(K @ psi))) + float(np.max(np.abs(psi))) + 1e-300
        impl = from_pair_tensor(rot_call(A, unitaries.rotate_psi, st, basis, space_t, given, "psi", psi_arg))
        ctx.oracle("rotate_psi == kron(U) psi with a non-identity Z entry", bool(np.allclose(impl, K @ psi, rtol=1e-9, atol=1e-9 * sc)), case,
                   detail={"impl": str(impl[:6]), "dense": str((K @ psi)[:6])}, sig="zoverride/rotate_psi", theorem=TH["rotate_psi"])
        ip = fast_value(ctx, A, "inner", st, basis, states_t, given, psi_arg, len(batch), {})
        ctx.oracle("rotate_psi_inner_prod == (kron(U) psi)[states] for a dictionary whose Z entry is not the identity",
                   bool(np.allclose(ip, (K @ psi)[batch], rtol=1e-9, atol=1e-9 * sc)), case,
                   detail={"impl": str(ip[:6]), "dense": str((K @ psi)[batch][:6]), "Z": str(d["Z"].tolist())}, sig=FINDING_Z,
                   theorem="C04_inner_prod_dict (hypothesis on the Z entry), C04_Z_override_fast_ne_dense")
        ctx.point("rotate_psi_inner_prod == identity at the sites whose LETTER is Z (as coded)", "aux", np.r_[ip.real, ip.imag],
                  np.r_[((Kf @ psi)[batch]).real, ((Kf @ psi)[batch]).imag], case, scale=sc, sig="zoverride/inner-as-coded", rtol=1e-9, atol=1e-9)
        if ctx.driver is not None:
            m = ctx.driver.call("c04.rotate_psi" + sfx, n=n, us=us_enc, psi=[cenc(z, exact) for z in psi])
            mv = np.array([cdec(p, exact) for p in m])
            ctx.point("rotate_psi (Z overridden)", "property", np.r_[impl.real, impl.imag], np.r_[mv.real, mv.imag], case, scale=sc,
                      theorem=TH["rotate_psi"], sig="zoverride/rotate_psi", **tol)
            m = ctx.driver.call("c04.inner_prod" + sfx, n=n, us=us_enc, rot=rot, psi=[cenc(z, exact) for z in psi], states=states)
            mv = np.array([cdec(p, exact) for p in m])
            ctx.point("rotate_psi_inner_prod (Z overridden) vs the model of the code", "aux", np.r_[ip.real, ip.imag], np.r_[mv.real, mv.imag], case,
                      scale=sc, theorem="C04_inner_prod_enum, C04_fast_paths_ignore_unrotated", sig="zoverride/inner-model", **tol)
    else:
        if state == "density":
            st = build(ctx, A, lambda: af.make_density(A, n, 2, 2, qc.rand_prbm_params(rng, n, 2, 2, 0.7), qc.rand_prbm_params(rng, n, 2, 2, 1.0, d_zero=True), unitary_dict=td))
            if not af.check_sizes(ctx, st, (n, 2, 2), case, A, "zoverride/ctor-sizes", CTOR_TH):
                return
            rho, rho_arg, given = from_pair_tensor(st.rho(space_t, space_t)), None, None
        else:
            st = build(ctx, A, lambda: FakeState(n, unitaries.create_dict(), A=A))
            if not af.check_sizes(ctx, st._h, (n, 1), case, A, "zoverride/ctor-sizes", CTOR_TH):
                return
            a = rand_gint(rng, (N, N)) if exact else np.array([[complex(rng.gauss(0, 1), rng.gauss(0, 1)) for _ in range(N)] for _ in range(N)])
            rho = (a + a.conj().T) if exact else a @ a.conj().T
            rho_arg, given = to_pair_tensor(rho), td
        dense = K @ rho @ K.conj().T
        fast = Kf @ rho @ Kf.conj().T
        sc = float(np.max(np.abs(dense))) + float(np.max(np.abs(fast))) + 1e-300
        impl = from_pair_tensor(rot_call(A, unitaries.rotate_rho, st, basis, space_t, given, "rho", rho_arg))
        ctx.oracle("rotate_rho == U rho U^dag with a non-identity Z entry", bool(np.allclose(impl, dense, rtol=1e-9, atol=1e-8 * sc)), case,
                   detail={"impl": str(impl[0, :4]), "dense": str(dense[0, :4])}, sig="zoverride/rotate_rho", theorem=TH["rotate_rho"])
        pr = fast_value(ctx, A, "probs", st, basis, states_t, given, rho_arg, len(batch), {})
        want = np.real(np.diag(dense))[batch]
        ctx.oracle("rotate_rho_probs == diag(U rho U^dag)[states] for a dictionary whose Z entry is not the identity",
                   bool(np.allclose(pr, want, rtol=1e-9, atol=1e-8 * sc)), case,
                   detail={"impl": pr[:6].tolist(), "dense": want[:6].tolist(), "Z": str(d["Z"].tolist())}, sig=FINDING_Z,
                   theorem="C04_rho_probs_dict (hypothesis on the Z entry), C04_Z_override_fast_ne_dense")
        ctx.point("rotate_rho_probs == identity at the sites whose LETTER is Z (as coded)", "aux", pr, np.real(np.diag(fast))[batch], case, scale=sc,
                  sig="zoverride/probs-as-coded", rtol=1e-9, atol=1e-8)
        if ctx.driver is not None:
            rho_enc = [[cenc(z, exact) for z in row] for row in rho]
            m = ctx.driver.call("c04.rho_probs" + sfx, n=n, us=us_enc, rot=rot, rho=rho_enc, states=states)
            mv = np.array([float(p) if exact else float(unbits([p])[0]) for p in m])
            ctx.point("rotate_rho_probs (Z overridden) vs the model of the code", "aux", pr, mv, case, scale=sc,
                      theorem="C04_rho_probs_enum, C04_fast_paths_ignore_unrotated", sig="zoverride/probs-model", **tol)



# ------------------------------------------------------------------ final pass: user-added unitaries of special structure, in every object form
# "plus user-added single-qubit unitaries": a user writes a gate down the natural way - the NOT / phase-flip / S gates as INTEGER tensors or
# nested lists, a matrix computed in single precision as a float32 tensor / array, everything else in double.  create_dict documents that it
# takes them ("keyword arguments of any unitary operators to add"); the clean code converts every form to a float64 pair tensor.  Special
# structure matters to the fast paths (which enumerate the rotated sites' expansions): DIAGONAL non-identity gates (S, T, phase flip, random
# phases), PERMUTATION gates (NOT, the Pauli-Y permutation with phases), REAL orthogonal gates, next to a generic unitary.
def _gate(letter, rng):
    r2 = 1.0 / np.sqrt(2.0)
    if letter == "S":
        return np.array([[1, 0], [0, 1j]], dtype=complex), True
    if letter == "P":
        return np.array([[1, 0], [0, -1]], dtype=complex), True
    if letter == "N":
        return np.array([[0, 1], [1, 0]], dtype=complex), True
    if letter == "Q":
        return np.array([[0, -1j], [1j, 0]], dtype=complex), True
    if letter == "T":
        return np.array([[1, 0], [0, r2 + 1j * r2]], dtype=complex), False
    if letter == "D":
        a, b = rng.uniform(-np.pi, np.pi), rng.uniform(-np.pi, np.pi)
        return np.array([[np.exp(1j * a), 0], [0, np.exp(1j * b)]], dtype=complex), False
    if letter == "R":
        a = rng.uniform(-np.pi, np.pi)
        return np.array([[np.cos(a), -np.sin(a)], [np.sin(a), np.cos(a)]], dtype=complex), False
    return rand_unitary(rng), False   # "G"


USER_LETTERS = "SPNQTDRG"
DIAGONAL_LETTERS = "SPTD"
INT_MATRIX_FORMS = ("tensor:int64", "tensor:int32", "tensor:int8", "tensor:float32", "tensor:float16", "tensor:float64",
                    "numpy:int64", "numpy:int32", "numpy:float32", "numpy:float64", "list:int")
FLOAT_MATRIX_FORMS = ("tensor:float64", "tensor:float32", "numpy:float64", "numpy:float32")


def gate_in_form(v, form):
    """-> (object handed to create_dict, the complex 2x2 matrix that object denotes).  A single-precision form denotes the float32 rounding of `v`
    (the statement holds for whatever matrices the dictionary holds, unitary or not: C04_rotate_psi / C04_inner_prod_enum_dense)"""
    a = np.asarray(v, dtype=complex)
    pair = np.stack([a.real, a.imag])
    box, dt = form.split(":")
    if dt.startswith("int"):
        pair = np.rint(pair).astype({"int64": np.int64, "int32": np.int32, "int8": np.int8, "int": np.int64}[dt])
    else:
        pair = pair.astype({"float64": np.float64, "float32": np.float32, "float16": np.float16}[dt])
    denoted = pair[0].astype(np.float64) + 1j * pair[1].astype(np.float64)
    if box == "tensor":
        return torch.tensor(pair, dtype=getattr(torch, dt)), denoted
    if box == "list":
        return pair.tolist(), denoted
    return pair, denoted


def userdict_case(ctx, case):
    ctx.current_case = case
    rng = _import_random().Random(case["seed"])
    A = case_args(ctx, case)
    n, basis, state = case["n"], case["basis"], case["state"]
    N = 2 ** n
    r2 = 1.0 / np.sqrt(2.0)
    d = {"X": np.array([[1, 1], [1, -1]], dtype=complex) * r2, "Y": np.array([[1, -1j], [1, 1j]], dtype=complex) * r2, "Z": np.eye(2, dtype=complex)}
    frng = _import_random().Random(case["seed"] ^ 0x5A5A5A)   # the object forms (part of the case: replayed identically)
    kw, forms = {}, {}
    for L in sorted(set(basis) - set("XYZ")):
        v, is_int = _gate(L, rng)
        forms[L] = case.get("forms", {}).get(L) or frng.choice(INT_MATRIX_FORMS if is_int else FLOAT_MATRIX_FORMS)
        kw[L], d[L] = gate_in_form(v, forms[L])
        ctx.count(f"userdict: gate {L} given as {forms[L]}")
    snap = {k: (v.clone() if hasattr(v, "clone") else np.array(v)) for k, v in kw.items()}
    td = unitaries.create_dict(**kw)
    ok_dict = set(td.keys()) == set("XYZ") | set(kw) and all(
        _canon_cplx(td[L]) is not None and np.array_equal(_canon_cplx(td[L]), d[L]) for L in kw)
    ctx.case({k: case[k] for k in ("n", "basis", "state", "seed")}, nontrivial=True,
             sample={"n": n, "basis": basis, "kind": "userdict", "state": state, "forms": forms})
    ctx.count("kind=userdict"); ctx.count(f"userdict:state={state}")
    if any(b in DIAGONAL_LETTERS for b in basis):
        ctx.count("userdict: basis with a diagonal non-identity gate")
    sub = {**case, "forms": forms}
    ctx.oracle("create_dict(**gates) holds X, Y, Z and every given gate with the entries the given object denotes", bool(ok_dict), sub,
               detail={"keys": sorted(td.keys()), "forms": forms}, sig="userdict/create_dict", theorem="C04_create_dict")
    ctx.oracle("create_dict leaves the objects it was given unchanged",
               all((torch.equal(kw[k], snap[k]) if hasattr(kw[k], "clone") else np.array_equal(np.array(kw[k]), snap[k])) for k in kw), sub,
               sig="userdict/args-mutated", theorem="C04_create_dict")
    if not ok_dict:
        return
    K = dense_K([d[b] for b in basis])
    rot = [b != "Z" for b in basis]
    us_enc = [m2enc(d[b], False) for b in basis]
    space = qc.all_states(n)
    space_t = torch.tensor(space, dtype=torch.double)
    batch = [rng.randrange(N) for _ in range(min(2 * N, 10))] + [0, N - 1]
    states = [space[k] for k in batch]
    states_t = torch.tensor(states, dtype=torch.double)
    own = state in ("complex", "density")       # the dictionary is the STATE's (constructor argument) / is given to every call
    given = None if own else td
    if state in ("complex", "fake_psi"):
        if own:
            st = build(ctx, A, lambda: af.make_complex(A, n, 2, qc.rand_rbm_params(rng, n, 2, 0.7), qc.rand_rbm_params(rng, n, 2, 1.0), unitary_dict=td))
            if not af.check_sizes(ctx, st, (n, 2), case, A, "userdict/ctor-sizes", CTOR_TH):
                return
            psi, psi_arg = from_pair_tensor(st.psi(space_t)), None
        else:
            st = build(ctx, A, lambda: FakeState(n, unitaries.create_dict(), A=A))
            psi = np.array([complex(rng.gauss(0, 1), rng.gauss(0, 1)) for _ in range(N)])
            psi_arg = to_pair_tensor(psi)
        want = K @ psi
        sc = float(np.max(np.abs(want))) + float(np.max(np.abs(psi))) + 1e-300
        impl = from_pair_tensor(rot_call(A, unitaries.rotate_psi, st, basis, space_t, given, "psi", psi_arg))
        ctx.oracle("rotate_psi == kron(U) psi (user-added gates)", bool(impl.shape == want.shape and np.allclose(impl, want, rtol=1e-9, atol=1e-9 * sc)), sub,
                   detail={"impl": str(impl[:6]), "dense": str(want[:6]), "forms": forms}, sig=f"userdict/rotate_psi/{state}", theorem=TH["rotate_psi"])
        ip = fast_value(ctx, A, "inner", st, basis, states_t, given, psi_arg, len(batch), {})
        ctx.oracle("rotate_psi_inner_prod AMPLITUDES == (kron(U) psi)[states] (user-added gates)", bool(np.allclose(ip, want[batch], rtol=1e-9, atol=1e-9 * sc)), sub,
                   detail={"impl": str(ip[:6]), "dense": str(want[batch][:6]), "forms": forms}, sig=f"userdict/rotate_psi_inner_prod/{state}", theorem=TH["inner"])
        extras_check(ctx, sub, A, "inner", st, basis, states_t, given, psi_arg, want[batch], sc, "userdict", 1e-9)
        if ctx.driver is not None:
            m = ctx.driver.call("c04.rotate_psi", n=n, us=us_enc, psi=[cenc(z, False) for z in psi])
            mv = np.array([cdec(p_, False) for p_ in m])
            if impl.shape == mv.shape:
                ctx.point("rotate_psi (user-added gates)", "property", np.r_[impl.real, impl.imag], np.r_[mv.real, mv.imag], sub, scale=sc,
                          theorem=TH["rotate_psi"], sig=f"userdict/rotate_psi/{state}")
            m = ctx.driver.call("c04.inner_prod", n=n, us=us_enc, rot=rot, psi=[cenc(z, False) for z in psi], states=states)
            mv = np.array([cdec(p_, False) for p_ in m])
            ctx.point("rotate_psi_inner_prod (user-added gates)", "property", np.r_[ip.real, ip.imag], np.r_[mv.real, mv.imag], sub, scale=sc,
                      theorem=TH["inner"], sig=f"userdict/rotate_psi_inner_prod/{state}")
    else:
        if own:
            st = build(ctx, A, lambda: af.make_density(A, n, 2, 2, qc.rand_prbm_params(rng, n, 2, 2, 0.7), qc.rand_prbm_params(rng, n, 2, 2, 1.0, d_zero=True),
                                                       unitary_dict=td))
            if not af.check_sizes(ctx, st, (n, 2, 2), case, A, "userdict/ctor-sizes", CTOR_TH):
                return
            rho, rho_arg = from_pair_tensor(st.rho(space_t, space_t)), None
        else:
            st = build(ctx, A, lambda: FakeState(n, unitaries.create_dict(), A=A))
            a = np.array([[complex(rng.gauss(0, 1), rng.gauss(0, 1)) for _ in range(N)] for _ in range(N)])
            rho = a @ a.conj().T
            rho_arg = to_pair_tensor(rho)
        dense = K @ rho @ K.conj().T
        sc = float(np.max(np.abs(dense))) + float(np.max(np.abs(rho))) + 1e-300
        impl = from_pair_tensor(rot_call(A, unitaries.rotate_rho, st, basis, space_t, given, "rho", rho_arg))
        ctx.oracle("rotate_rho == U rho U^dag (user-added gates)", bool(impl.shape == dense.shape and np.allclose(impl, dense, rtol=1e-9, atol=1e-8 * sc)), sub,
                   detail={"impl": str(impl[0, :4]), "dense": str(dense[0, :4]), "forms": forms}, sig=f"userdict/rotate_rho/{state}", theorem=TH["rotate_rho"])
        pr = fast_value(ctx, A, "probs", st, basis, states_t, given, rho_arg, len(batch), {})
        want = np.real(np.diag(dense))[batch]
        ctx.oracle("rotate_rho_probs == diag(U rho U^dag)[states] (user-added gates)", bool(np.allclose(pr, want, rtol=1e-9, atol=1e-8 * sc)), sub,
                   detail={"impl": pr[:6].tolist(), "dense": want[:6].tolist(), "forms": forms}, sig=f"userdict/rotate_rho_probs/{state}", theorem=TH["probs"])
        extras_check(ctx, sub, A, "probs", st, basis, states_t, given, rho_arg, want, sc, "userdict", 1e-8)
        if ctx.driver is not None:
            rho_enc = [[cenc(z, False) for z in row] for row in rho]
            m = ctx.driver.call("c04.rotate_rho", n=n, us=us_enc, rho=rho_enc)
            mv = np.array([[cdec(p_, False) for p_ in row] for row in m])
            if impl.shape == mv.shape:
                ctx.point("rotate_rho (user-added gates)", "property", np.r_[impl.real.ravel(), impl.imag.ravel()], np.r_[mv.real.ravel(), mv.imag.ravel()], sub,
                          scale=sc, theorem=TH["rotate_rho"], sig=f"userdict/rotate_rho/{state}")
            m = ctx.driver.call("c04.rho_probs", n=n, us=us_enc, rot=rot, rho=rho_enc, states=states)
            mv = np.array([float(unbits([p_])[0]) for p_ in m])
            ctx.point("rotate_rho_probs (user-added gates)", "property", pr, mv, sub, scale=sc, theorem=TH["probs"], sig=f"userdict/rotate_rho_probs/{state}")
    ctx.oracle("the dictionary is left untouched by the rotation helpers (user-added gates)",
               all(np.array_equal(_canon_cplx(td[L]), d[L]) for L in kw), sub, sig="userdict/dict-mutated", theorem="C04_unitaries_of")
    A.count_into(ctx)


def gen_userdict_cases(rng, thorough):
    # every gate alone on one site, every object form of the integer gates once (deterministic part)
    k = 0
    for L in USER_LETTERS:
        for state in (("fake_psi", "fake_rho") if not thorough else ("fake_psi", "fake_rho", "complex", "density")):
            n = 1 + (k % 2)
            basis = (L if n == 1 else ("Z" + L if k % 4 == 1 else L + "Y"))
            k += 1
            yield {"kind": "userdict", "n": n, "basis": basis, "state": state, "seed": rng.randrange(1 << 30)}
    for i, form in enumerate(INT_MATRIX_FORMS):
        L = "NSPQ"[i % 4]
        yield {"kind": "userdict", "n": 2, "basis": rng.choice("XYZ" + L) + L, "state": ("fake_psi", "fake_rho", "complex", "density")[i % 4],
               "forms": {L: form}, "seed": rng.randrange(1 << 30)}
    for state in ("fake_psi", "fake_rho", "complex", "density"):
        for rep in range(8 if thorough else 3):
            n = rng.randrange(1, 4 if state in ("fake_psi", "complex") or thorough else 3)
            b = [rng.choice("XYZ" + USER_LETTERS) for _ in range(n)]
            b[rng.randrange(n)] = rng.choice(DIAGONAL_LETTERS if rep % 2 == 0 else USER_LETTERS)
            yield {"kind": "userdict", "n": n, "basis": "".join(b), "state": state, "seed": rng.randrange(1 << 30)}


# ------------------------------------------------------------------ extension round 2: `create_dict` keyword conversion inside the model
# (QV.Model.ArgConv.createDictM2; C04_create_dict_exact / C04_create_dict_list_rounds / C04_create_dict_refused)
DICTARG_FORMS = ("tensor:float64", "tensor:float32", "tensor:float16", "tensor:int64", "tensor:int32", "tensor:uint8", "tensor:bool",
                 "ndarray:float64", "ndarray:float32", "ndarray:int64", "ndarray:bool",
                 "list:int", "list:bool", "list:float", "list:float/lossy", "list:np.float64", "ragged", "other")
_NP_DT = {"float64": np.float64, "float32": np.float32, "float16": np.float16, "int64": np.int64, "int32": np.int32, "uint8": np.uint8, "bool": np.bool_}


def dictarg_object(form, rng):
    """-> (object handed to create_dict, its content as a float64 array [2,2,2] (None: not array-like), model container form)"""
    box, _, dt = form.partition(":")
    if box == "ragged":
        return [[[1.0, 0.0], [0.0]], [[0.0, 0.0], [0.0, 0.0]]], None, "ragged"
    if box == "other":
        return rng.choice([None, "H", {"a": 1}]), None, "other"
    lossy = dt.endswith("/lossy")
    dt = dt.split("/")[0]
    if dt in ("bool",):
        vals = np.array([rng.randrange(2) for _ in range(8)], dtype=np.float64)
    elif dt in ("uint8",):
        vals = np.array([rng.randrange(0, 4) for _ in range(8)], dtype=np.float64)
    elif dt.startswith("int") or dt == "int":
        vals = np.array([rng.randrange(-3, 4) for _ in range(8)], dtype=np.float64)
    else:
        vals = np.array([rng.gauss(0, 1) for _ in range(8)], dtype=np.float64)
        if dt == "float16":
            vals = vals.astype(np.float16).astype(np.float64)
        elif dt == "float32" or (box == "list" and dt == "float" and not lossy):
            vals = vals.astype(np.float32).astype(np.float64)     # float32-representable doubles
    vals = vals.reshape(2, 2, 2)
    if box == "tensor":
        return torch.tensor(vals, dtype=getattr(torch, dt)), vals, form
    if box == "ndarray":
        return np.array(vals, dtype=_NP_DT[dt]), vals, form
    if dt == "int":
        return [[[int(x) for x in r] for r in m] for m in vals], vals, "list:int"
    if dt == "bool":
        return [[[bool(x) for x in r] for r in m] for m in vals], vals, "list:bool"
    if dt == "np.float64":
        return [[[np.float64(x) for x in r] for r in m] for m in vals], vals, "list:np.float64"
    return [[[float(x) for x in r] for r in m] for m in vals], vals, "list:float"


def dictarg_overwrite(obj, rng):
    """the CALLER writes other numbers into its own object in place; -> the new content (float64 [2,2,2]) or None when the object is immutable"""
    if isinstance(obj, torch.Tensor):
        new = np.array([rng.randrange(0, 2) for _ in range(8)], dtype=np.float64).reshape(2, 2, 2)
        new = 1.0 - new if np.array_equal(new, obj.to(torch.double).numpy()) else new
        obj.copy_(torch.tensor(new).to(obj.dtype))
        return new
    if isinstance(obj, np.ndarray):
        new = np.array([rng.randrange(0, 2) for _ in range(8)], dtype=np.float64).reshape(2, 2, 2)
        new = 1.0 - new if np.array_equal(new, obj.astype(np.float64)) else new
        obj[...] = new.astype(obj.dtype)
        return new
    if isinstance(obj, list):
        if np.shape(np.array(obj, dtype=object)) != (2, 2, 2):
            return None
        new = np.array([rng.randrange(0, 2) for _ in range(8)], dtype=np.float64).reshape(2, 2, 2)
        if np.array_equal(new, np.array(obj, dtype=np.float64)):
            new = 1.0 - new
        for a in range(2):
            for b in range(2):
                for c in range(2):
                    obj[a][b][c] = type(obj[a][b][c])(new[a][b][c])
        return new
    return None


def _shares(t, obj):
    if isinstance(obj, torch.Tensor):
        return t.untyped_storage().data_ptr() == obj.untyped_storage().data_ptr()
    if isinstance(obj, np.ndarray):
        return bool(np.shares_memory(t.numpy(), obj))
    return False


def dictarg_case(ctx, case):
    ctx.current_case = case
    rng = _import_random().Random(case["seed"])
    forms = case["forms"]          # {letter: form}, insertion order = keyword order
    n, basis = case["n"], case["basis"]
    ctx.case({k: case[k] for k in ("n", "basis", "forms", "seed")}, nontrivial=True, sample={"kind": "dictarg", "forms": forms, "basis": basis})
    ctx.count("kind=dictarg")
    objs, vals, boxes = {}, {}, {}
    for L, form in forms.items():
        objs[L], vals[L], boxes[L] = dictarg_object(form, rng)
        ctx.count(f"dictarg: keyword given as {form}")
    default_double = torch.get_default_dtype() == torch.double
    ctx.count(f"dictarg: torch default dtype double={default_double}")
    lossy = {L for L, f in forms.items() if f == "list:float/lossy" and not default_double}
    snap = {L: (o.clone() if isinstance(o, torch.Tensor) else copy.deepcopy(o)) for L, o in objs.items()}
    try:
        td, err = unitaries.create_dict(**objs), None
    except Exception as e:  # noqa: BLE001
        td, err = None, type(e).__name__
    expect_refused = any(v is None for v in vals.values())
    r2 = 1.0 / np.sqrt(2.0)
    dflt = {"X": np.array([[[1, 1], [1, -1]], [[0, 0], [0, 0]]], dtype=np.float64) * r2,
            "Y": np.array([[[1, 0], [1, 0]], [[0, -1], [0, 1]]], dtype=np.float64) * r2,
            "Z": np.array([[[1, 0], [0, 1]], [[0, 0], [0, 0]]], dtype=np.float64)}
    m = None
    if ctx.driver is not None:
        letters = list(forms)
        heap = [bits(np.zeros(8) if vals[L] is None else vals[L].ravel()) for L in letters] + [bits(np.arange(8.0))]
        kw = [{"key": L, "box": boxes[L], "sid": i} for i, L in enumerate(letters)]
        # the caller's later in-place writes are generated below from the same stream; the model is told the same new contents
        wr_rng = _import_random().Random(case["seed"] ^ 0x77)
        probe = {L: dictarg_overwrite(copy.deepcopy(o) if not isinstance(o, torch.Tensor) else o.clone(), wr_rng) for L, o in objs.items()}
        writes = [{"sid": i, "vals": bits(probe[L].ravel())} for i, L in enumerate(letters) if probe[L] is not None and vals[L] is not None]
        m = ctx.driver.call("c04.create_dict_arg", default_double=default_double, heap=heap, kw=kw, writes=writes)
        # audit 3 (B-6): whether a MALFORMED object (ragged list / None / str / dict) is refused is not in the property text -> record only;
        # for array-like objects the model's acceptance stays tied at auxiliary level
        if expect_refused:
            ctx.info("dictarg/refused: create_dict refuses a keyword that is not array-like (ragged list / None / str / dict)", err is None, "error" not in m)
        else:
            ctx.point("create_dict(**kwargs) accepts the array-like keyword objects (which exception is not compared)", "aux",
                      err is None, "error" not in m, case, exact=True, sig="dictarg/refused", theorem="C04_create_dict_refused, C04_create_dict_exact")
    ctx.oracle("create_dict accepts every array-like unitary (tensor / numpy array / rectangular nested list of numbers)", expect_refused or err is None, case,
               detail={"raised": err, "forms": forms}, sig="dictarg/accepted", theorem="C04_create_dict_exact")
    if td is None:
        ctx.count("dictarg: refused" + (" (as expected: ragged / not array-like)" if expect_refused else ""))
        return
    if expect_refused:   # audit 3 (B-6): a malformed keyword was ACCEPTED - outside the quantifier ("user-added single-qubit unitaries"): nothing below is judged
        ctx.count("dictarg: malformed keyword accepted (not constrained by the property: no verdict)")
        return

    def _f64(t):   # entry -> float64 array, whatever container / element type the dictionary uses (audit 3 B-5: docstring says "a dictionary of unitaries")
        try:
            return t.detach().to(torch.double).cpu().numpy() if isinstance(t, torch.Tensor) else np.asarray(t, dtype=np.float64)
        except Exception:  # noqa: BLE001
            return np.full((2, 2, 2), np.nan)

    def _close(a, b):   # audit 3 (B-5): the property fixes the eigenvector rows / the matrices given, not the last ulp (1/sqrt(2) vs sqrt(0.5) vs 0.7071067811865476)
        a, b = np.asarray(a), np.asarray(b)
        return a.shape == b.shape and bool(np.allclose(a, b, rtol=1e-12, atol=1e-12))
    # ---- at return: keys, entries = what the objects denote, caller's objects untouched
    want = {**dflt, **{L: v for L, v in vals.items()}}
    exactL = [L for L in forms if L not in lossy]
    ok_keys = set(td.keys()) == set(want)
    ctx.info("dictarg/dtype: every entry is a torch double tensor", all(isinstance(t, torch.Tensor) and t.dtype == torch.double for t in td.values()), True)
    ctx.info("dictarg/bit-exact: entries equal the given objects / 1/sqrt(2) defaults to the last bit",
             bool(ok_keys and all(np.array_equal(_f64(td[L]), want[L]) for L in want if L not in lossy)), True)
    ok_vals = ok_keys and all(_close(_f64(td[L]), want[L]) for L in want if L not in lossy)
    ctx.oracle("create_dict: keys X, Y, Z + keywords, every entry holds (to 1e-12) the entries of the object it was given "
               "(defaults unless overridden)", bool(ok_vals), case,
               detail={"keys": sorted(td.keys()), "dtypes": [str(getattr(t, "dtype", None)) for t in td.values()], "forms": forms},
               sig="dictarg/entries", theorem="C04_create_dict_exact, C04_create_dict")
    ctx.oracle("create_dict leaves the objects it was given unchanged",
               all((torch.equal(objs[L], snap[L]) if isinstance(objs[L], torch.Tensor) else
                    (np.array_equal(objs[L], snap[L]) if isinstance(objs[L], np.ndarray) else objs[L] == snap[L])) for L in objs), case,
               sig="dictarg/args-mutated", theorem="C04_create_dict_exact")
    for L in lossy:   # candidate finding F_C04_create_dict_list_precision: no verdict either way (a repaired create_dict stores the doubles)
        got = _f64(td[L])
        ctx.count("dictarg: list of Python floats that are not float32-representable is stored " +
                  ("ROUNDED to float32 (as modelled: C04_create_dict_list_rounds)" if np.array_equal(got, vals[L].astype(np.float32).astype(np.float64))
                   else ("exactly" if np.array_equal(got, vals[L]) else "as something else")))
    try:
        shares = {L: _shares(td[L], objs[L]) for L in forms}
    except Exception:  # noqa: BLE001
        shares = {L: None for L in forms}
    ment = {}
    if m is not None and "error" not in m and ok_keys:
        for key, sid, dt, v0, v1 in m["entries"]:
            ment.setdefault(key, (sid, dt, unbits(v0), unbits(v1)))       # first entry of a key wins
        cmpL = [L for L in sorted(want) if L not in lossy and L in ment and _f64(td[L]).size == 8]
        # audit 3 (B-5): numbers to 1e-12, not bit patterns (the model's 1/sqrt(2) and a rewrite's sqrt(0.5) differ in the last ulp)
        ctx.point("create_dict: stored entries of every keyword and default", "property",
                  [float(x) for L in cmpL for x in _f64(td[L]).ravel()], [float(x) for L in cmpL for x in ment[L][2]], case,
                  rtol=1e-12, atol=1e-12, sig="dictarg/entries-model", theorem="C04_create_dict_exact")
        # audit 3 (B-7): whether an entry shares memory with the caller's object (defensive copy) is not in the property text -> record only
        # Kept at AUX level (not info) on purpose: stored mutant seeded/M6_C04_3 (clone dropped) changes nothing else, and the acceptance rule
        # of the hardening round wants every stored change still reported (exit 1, here as no-failing-input-found, effect outside the property
        # text).  Cost: a harmless no-copy rewrite (torch.as_tensor on float64 input) is reported the same way.  One word ("info") silences both.
        ctx.point("create_dict: an entry shares memory with the object it was made from", "aux", {L: shares[L] for L in forms},
                  {L: ment[L][0] < m["before"] for L in forms if L in ment}, case, exact=True, sig="dictarg/alias-model", theorem="C04_create_dict_exact")
    # ---- the caller re-uses its objects: in-place overwrite, then rotate with the dictionary made BEFORE
    wr_rng = _import_random().Random(case["seed"] ^ 0x77)
    written = {L: dictarg_overwrite(o, wr_rng) for L, o in objs.items()}
    ctx.count(f"dictarg: caller overwrote {sum(v is not None for v in written.values())} of {len(objs)} keyword objects in place")
    still = all(_close(_f64(td[L]), want[L]) for L in exactL) and all(_close(_f64(td[L]), dflt[L]) for L in dflt if L not in forms)
    # audit 3 (B-7): copy semantics of create_dict (docstring silent; property: rotation = Kronecker product of the dictionary's unitaries) -> record only
    ctx.info("dictarg/live-alias: after the caller overwrites its own objects in place the dictionary still holds the matrices it was given", bool(still), True)
    if not ok_vals:
        return
    # audit 3 (B-7): what the property states is "rotation == Kronecker product of the dictionary's unitaries": the dictionary's CURRENT entries
    # (equal to the matrices given when create_dict copies, to the caller's new numbers when an entry aliases the caller's object)
    cur = {L: _f64(td[L]) for L in td}
    if any(cur[b].shape != (2, 2, 2) or not np.all(np.isfinite(cur[b])) for b in basis):
        return
    cm = {L: cur[L][0] + 1j * cur[L][1] for L in set(basis)}
    K = dense_K([cm[b] for b in basis])
    N = 2 ** n
    st = FakeState(n, unitaries.create_dict())
    space_t = torch.tensor(qc.all_states(n), dtype=torch.double)
    psi = np.array([complex(rng.gauss(0, 1), rng.gauss(0, 1)) for _ in range(N)])
    a = np.array([[complex(rng.gauss(0, 1), rng.gauss(0, 1)) for _ in range(N)] for _ in range(N)])
    rho = a @ a.conj().T
    wpsi, wrho = K @ psi, K @ rho @ K.conj().T
    sc = float(np.max(np.abs(wpsi))) + float(np.max(np.abs(psi))) + 1e-300
    scr = float(np.max(np.abs(wrho))) + float(np.max(np.abs(rho))) + 1e-300
    ipsi = from_pair_tensor(unitaries.rotate_psi(st, basis, space_t, unitaries=td, psi=to_pair_tensor(psi)))
    irho = from_pair_tensor(unitaries.rotate_rho(st, basis, space_t, unitaries=td, rho=to_pair_tensor(rho)))
    ctx.oracle("rotate_psi with a dictionary whose source objects were overwritten afterwards == kron(U) psi of the dictionary's current entries",
               bool(ipsi.shape == wpsi.shape and np.allclose(ipsi, wpsi, rtol=1e-9, atol=1e-9 * sc)), case,
               detail={"impl": str(ipsi[:4]), "dense": str(wpsi[:4]), "forms": forms}, sig="dictarg/rotate_psi-after-overwrite",
               theorem="C04_create_dict_exact, " + TH["rotate_psi"])
    ctx.oracle("rotate_rho with a dictionary whose source objects were overwritten afterwards == U rho U^dag of the dictionary's current entries",
               bool(irho.shape == wrho.shape and np.allclose(irho, wrho, rtol=1e-9, atol=1e-8 * scr)), case,
               detail={"impl": str(irho[0, :4]), "dense": str(wrho[0, :4]), "forms": forms}, sig="dictarg/rotate_rho-after-overwrite",
               theorem="C04_create_dict_exact, " + TH["rotate_rho"])
    if m is not None and "error" not in m:
        def m2_of(v):   # flat [re/im][r][c] -> [[c00, c01], [c10, c11]]
            return [[cenc(complex(v[2 * r + c], v[4 + 2 * r + c]), False) for c in range(2)] for r in range(2)]
        us_enc = [m2_of(cur[b].ravel()) for b in basis]       # the dictionary's CURRENT entries (after the caller's writes) handed to the model's rotation
        ctx.info("dictarg/model-after-writes: the dictionary after the caller's writes is the model's (copying) dictionary",
                 all(b in ment and _close(cur[b].ravel(), np.asarray(ment[b][3], dtype=np.float64)) for b in basis), True)
        mv = np.array([cdec(p_, False) for p_ in ctx.driver.call("c04.rotate_psi", n=n, us=us_enc, psi=[cenc(z, False) for z in psi])])
        if ipsi.shape == mv.shape:
            ctx.point("rotate_psi after the caller overwrote the objects the dictionary was made from", "property", np.r_[ipsi.real, ipsi.imag],
                      np.r_[mv.real, mv.imag], case, scale=sc, theorem="C04_create_dict_exact, " + TH["rotate_psi"], sig="dictarg/rotate_psi-model")
        mr = ctx.driver.call("c04.rotate_rho", n=n, us=us_enc, rho=[[cenc(z, False) for z in row] for row in rho])
        mv = np.array([[cdec(p_, False) for p_ in row] for row in mr])
        if irho.shape == mv.shape:
            ctx.point("rotate_rho after the caller overwrote the objects the dictionary was made from", "property", np.r_[irho.real.ravel(), irho.imag.ravel()],
                      np.r_[mv.real.ravel(), mv.imag.ravel()], case, scale=scr, theorem="C04_create_dict_exact, " + TH["rotate_rho"], sig="dictarg/rotate_rho-model")


def gen_dictarg_cases(rng, thorough):
    # every container / element-type form once on its own (letter A, or overriding X / Y), then random keyword sets
    for i, form in enumerate(DICTARG_FORMS):
        L = ("A", "X", "Y", "B")[i % 4]
        n = 1 + i % 2
        basis = L if n == 1 else (L + rng.choice("XYZ") if i % 4 < 2 else rng.choice("XYZ") + L)
        yield {"kind": "dictarg", "n": n, "basis": basis, "forms": {L: form}, "seed": rng.randrange(1 << 30)}
    ok_forms = [f for f in DICTARG_FORMS if f not in ("ragged", "other")]
    for rep in range(24 if thorough else 8):
        letters = rng.sample(["A", "B", "C", "X", "Y"], rng.randrange(2, 4))
        forms = {L: rng.choice(ok_forms) for L in letters}
        if rep % 8 == 7:
            forms[letters[-1]] = rng.choice(["ragged", "other"])     # one bad keyword after good ones: the whole call is refused
        n = rng.randrange(1, 4)
        basis = "".join(rng.choice(letters + ["X", "Y", "Z"]) for _ in range(n - 1)) + letters[0]
        yield {"kind": "dictarg", "n": n, "basis": basis, "forms": forms, "seed": rng.randrange(1 << 30)}

# ------------------------------------------------------------------ audit round: `states` given as ONE 1-D vector (outside the quantifier)
def vecstates_case(ctx, case):
    ctx.current_case = case
    rng = _import_random().Random(case["seed"])
    A = case_args(ctx, case)
    n, basis, probs, explicit = case["n"], case["basis"], case["probs"], case["explicit"]
    N = 2 ** n
    space = qc.all_states(n)
    space_t = torch.tensor(space, dtype=torch.double)
    k = rng.randrange(N)
    v1 = space_t[k].clone()
    ctx.case({kk: case[kk] for kk in ("n", "basis", "probs", "explicit", "seed")}, nontrivial=False)
    ctx.count("kind=vecstates(1-D states, outcome class)")
    if probs:
        st = build(ctx, A, lambda: af.make_density(A, n, 2, 2, qc.rand_prbm_params(rng, n, 2, 2, 0.7), qc.rand_prbm_params(rng, n, 2, 2, 1.0, d_zero=True)))
        if not af.check_sizes(ctx, st, (n, 2, 2), case, A, "vecstates/ctor-sizes", CTOR_TH):
            return
        op = st.rho(space_t, space_t)
        impl = _outcome(lambda: unitaries.rotate_rho_probs(st, basis, v1, rho=op if explicit else None).detach().numpy())
        ref = None
    else:
        st = build(ctx, A, lambda: af.make_complex(A, n, 2, qc.rand_rbm_params(rng, n, 2, 0.7), qc.rand_rbm_params(rng, n, 2, 1.0)))
        if not af.check_sizes(ctx, st, (n, 2), case, A, "vecstates/ctor-sizes", CTOR_TH):
            return
        op = st.psi(space_t)
        impl = _outcome(lambda: from_pair_tensor(unitaries.rotate_psi_inner_prod(st, basis, v1, psi=op if explicit else None)))
        ref = from_pair_tensor(op)[k]
    if ctx.driver is not None:  # outcome class (raises / returns): informational only, the property says "any BATCH of outcome states"
        model = ctx.driver.call("c04.vector_states", probs=probs, any_rotated=any(b != "Z" for b in basis))
        same = ("error" in impl) == ("error" in model)
        ctx.count("vecstates: outcome " + ("as modelled" if same else "differs from the model (informational)"))
    if "value" in impl and ref is not None:
        z = np.asarray(impl["value"]).ravel()
        ctx.point("rotate_psi_inner_prod(all-Z basis, 1-D state) == psi(state)", "aux", [z[0].real, z[0].imag] if z.size == 1 else list(z.shape),
                  [ref.real, ref.imag], case, scale=abs(ref) + 1e-300, sig="vecstates/value")


def gen_audit_cases(ctx, thorough):
    rng = ctx.rng
    # (1) dictionary resolution
    combos = []
    for state in ("complex", "density", "fake"):
        for own in ("default", "user"):
            for given in ("none", "empty", "explicit", "explicit_noZ"):
                combos.append((state, own, given))
    for state in ("positive", "fake_nodict"):
        for given in ("none", "empty", "explicit", "explicit_noZ"):
            combos.append((state, "none", given))
    for (state, own, given) in combos:
        for rep in range(3 if thorough else 1):
            n = rng.randrange(1, 4 if thorough else 3) if state in ("density", "fake", "fake_nodict") else rng.randrange(1, 4)
            keys = "XYABZ" if (given.startswith("explicit") or own == "user") else "XYZ"
            bases = ["".join(rng.choice(keys) for _ in range(n)) for _ in range(2)]
            bases.append("".join(rng.choice("XYAB"[: len(keys) - 1]) for _ in range(n)))          # no Z at all
            bases.append("".join(rng.choice(keys) for _ in range(n - 1)) + "Q")                    # a letter in no dictionary: KeyError
            if n >= 2:
                bases.append("Z" + "".join(rng.choice(keys.replace("Z", "")) for _ in range(n - 1)))  # a Z site and rotated sites
            if keys == "XYZ":
                bases.append("".join(rng.choice("XYZ") for _ in range(n - 1)) + "A")             # user letter asked of a default dictionary: KeyError
            for basis in bases:
                yield {"kind": "dictres", "n": n, "basis": basis, "state": state, "own": own, "given": given, "seed": rng.randrange(1 << 30)}
    # (2) Z overridden by a non-identity matrix (FINDING, proposed/F_C04_Z_override.md): deterministic first case, then random ones
    yield {"kind": "zoverride", "n": 2, "basis": "XZ", "exact": False, "state": "fake", "hadamard": True, "seed": 16}
    for state in ("fake", "fake_rho", "complex", "density"):
        for rep in range(4 if thorough else 2):
            n = rng.randrange(1, 4 if thorough else 3)
            b = [rng.choice("XYAZ") for _ in range(n)]
            b[rng.randrange(n)] = "Z"
            exact = state.startswith("fake") and rep % 2 == 1
            yield {"kind": "zoverride", "n": n, "basis": "".join(b), "exact": exact, "state": state, "seed": rng.randrange(1 << 30)}
    # (2b) final pass: user-added gates of special structure in every object form
    yield from gen_userdict_cases(rng, thorough)
    # (2c) extension round 2: the keyword conversion of create_dict inside the model (every container / element-type form, aliasing, later overwrite)
    yield from gen_dictarg_cases(rng, thorough)
    # (3) one 1-D state instead of a batch: outcome classes
    for probs in (False, True):
        for explicit in (False, True):
            for basis in ("ZZ", "XZ", "YX"):
                yield {"kind": "vecstates", "n": 2, "basis": basis, "probs": probs, "explicit": explicit, "seed": rng.randrange(1 << 30)}


def gen_cases(ctx, thorough):
    kinds = ["psi_explicit", "psi_model", "rho_herm", "rho_nonherm", "rho_model"]
    nmax_full = 4 if thorough else 3
    for n in range(1, nmax_full + 1):
        strings = qc.all_bases(n, "XYZ")   # ALL 3^n strings, every kind (audit item C04-5: no sub-sampling, no skipping)
        for basis in strings:
            for kind in kinds:
                yield {"n": n, "basis": basis, "exact": False, "kind": kind, "seed": ctx.rng.randrange(1 << 30)}
    # user-added letters and the exact tier
    for n in range(1, 4 if thorough else 3):
        strings = qc.all_bases(n, "XYABZ")
        ctx.rng.shuffle(strings)
        for basis in strings[: (40 if thorough else 10)]:
            for kind in ("psi_explicit", "rho_herm", "rho_nonherm"):
                yield {"n": n, "basis": basis, "exact": True, "kind": kind, "seed": ctx.rng.randrange(1 << 30)}
                if not set(basis) <= set("XYZ"):
                    yield {"n": n, "basis": basis, "exact": False, "kind": kind, "seed": ctx.rng.randrange(1 << 30)}
    # explicit operands on larger systems (index conversion beyond 8 bits); the driver is only used for the vector paths
    for n in ((9,) if not thorough else (9, 10, 11)):
        basis = "".join(ctx.rng.choice("XYZ") for _ in range(n - 3)) + ctx.rng.choice(["XZY", "YZZ", "ZXY"])
        yield {"n": n, "basis": basis[::-1] if ctx.rng.random() < 0.5 else basis, "exact": False, "kind": "psi_explicit", "seed": ctx.rng.randrange(1 << 30), "big": True}
    yield {"n": 9, "basis": "YZZZZZZXZ", "exact": False, "kind": "rho_herm", "seed": ctx.rng.randrange(1 << 30), "big": True}
    if not thorough:   # second audit, item C04-2: the quantifier's n = 4 for the density-matrix kinds in the quick tier too (all 81 strings: thorough)
        for kind in ("rho_herm", "rho_model", "rho_nonherm"):
            basis = "".join(ctx.rng.choice("XYZ") for _ in range(3))
            basis = basis[:1] + "Y" + basis[1:] if ctx.rng.random() < 0.5 else basis + "X"
            yield {"n": 4, "basis": basis, "exact": False, "kind": kind, "seed": ctx.rng.randrange(1 << 30)}
    # sampled beyond
    for n in ((4, 5) if not thorough else (5,)):
        for _ in range(3):
            basis = "".join(ctx.rng.choice("XYZ") for _ in range(n))
            yield {"n": n, "basis": basis, "exact": False, "kind": "psi_explicit", "seed": ctx.rng.randrange(1 << 30)}
            yield {"n": n, "basis": basis, "exact": False, "kind": "psi_model", "seed": ctx.rng.randrange(1 << 30)}


def _with_forms(ctx, cases):
    """every generated case gets its own seeded stream of argument forms (key `aseed`, harness/argforms_a.py)"""
    for case in cases:
        case["aseed"] = af.draw_aseed(ctx.rng)
        yield case


def run(ctx):
    ctx.rule = RULE
    dict_case(ctx, af.draw_aseed(ctx.rng))
    for case in _with_forms(ctx, gen_cases(ctx, ctx.tier == "thorough")):
        one_case(ctx, case)
    for case in _with_forms(ctx, gen_audit_cases(ctx, ctx.tier == "thorough")):
        one_case(ctx, case)


def search(ctx):
    drv, ctx.driver = ctx.driver, None
    try:
        dict_case(ctx, af.draw_aseed(ctx.rng))
        for case in _with_forms(ctx, gen_cases(ctx, True)):
            one_case(ctx, case)
        for case in _with_forms(ctx, gen_audit_cases(ctx, True)):
            one_case(ctx, case)
    finally:
        ctx.driver = drv


def env_run(ctx, env_name):
    """a handful of cases of every call family (default dictionary, every operand kind, dictionary resolution, user-added gates in every object
    form, Z override) with everything - dictionaries, states, operands - constructed INSIDE the process-global environment `env_name`"""
    import random as _r
    rng = _r.Random(f"{ctx.seed}/{env_name}")
    keep, ctx.rng = ctx.rng, rng
    try:
        dict_case(ctx, af.draw_aseed(rng))
        cases = []
        for kind in ("psi_explicit", "psi_model", "rho_herm", "rho_nonherm", "rho_model"):
            n = rng.randrange(1, 4)
            cases.append({"n": n, "basis": "".join(rng.choice("XYZ") for _ in range(n - 1)) + rng.choice("XY"), "exact": False, "kind": kind,
                          "seed": rng.randrange(1 << 30)})
            cases.append({"n": 2, "basis": rng.choice("XYAB") + rng.choice("ABZ"), "exact": kind != "rho_model" and kind != "psi_model",
                          "kind": kind if kind not in ("psi_model", "rho_model") else "psi_explicit", "seed": rng.randrange(1 << 30)})
        aud = list(gen_audit_cases(ctx, False))
        rng.shuffle(aud)
        by_kind = {}
        for c in aud:
            by_kind.setdefault(c["kind"], []).append(c)
        for k, lst in by_kind.items():
            cases += lst[: (12 if k in ("userdict", "dictarg") else 4)]
        for case in _with_forms(ctx, cases):
            one_case(ctx, case)
            ctx.count(f"env:{env_name}:cases")
    finally:
        ctx.rng = keep


def replay(ctx, case):
    if case.get("kind") == "dict":
        dict_case(ctx, case.get("aseed"))
    else:
        one_case(ctx, case)
