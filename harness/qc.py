"""Helpers that build real qucumber objects with prescribed parameters and generate inputs."""
import os
import sys
import warnings

import numpy as np

from .common import REPO, VERIF, bits

_pydeps = os.path.join(VERIF, ".pydeps")
if os.path.isdir(_pydeps) and _pydeps not in sys.path:
    sys.path.append(_pydeps)
if REPO not in sys.path:
    sys.path.insert(0, REPO)
warnings.filterwarnings("ignore")

import torch  # noqa: E402

torch.set_num_threads(1)


def _ensure_scipy_stub():
    """training_statistics imports scipy.linalg.sqrtm (unused). If scipy is unavailable provide a stub."""
    try:
        import scipy.linalg  # noqa: F401
    except Exception:
        import types

        sp = types.ModuleType("scipy")
        la = types.ModuleType("scipy.linalg")

        def sqrtm(*a, **k):
            raise NotImplementedError("scipy stub")

        la.sqrtm = sqrtm
        sp.linalg = la
        sys.modules["scipy"] = sp
        sys.modules["scipy.linalg"] = la


_ensure_scipy_stub()

import qucumber  # noqa: E402
from qucumber.nn_states import ComplexWaveFunction, DensityMatrix, PositiveWaveFunction  # noqa: E402
from qucumber.rbm import BinaryRBM, PurificationRBM  # noqa: E402

SCALES = [0.0, 0.1, 1.0, 3.0, 10.0, 30.0]


def rand_rbm_params(rng, n, h, scale, bias=True):
    """W (h×n), b (n), c (h) = scale·N(0,1); biases all non-zero unless scale == 0"""
    g = lambda: rng.gauss(0.0, 1.0) * scale  # noqa: E731
    W = [[g() for _ in range(n)] for _ in range(h)]
    b = [g() if bias else 0.0 for _ in range(n)]
    c = [g() if bias else 0.0 for _ in range(h)]
    return {"W": W, "b": b, "c": c}


def rand_prbm_params(rng, n, h, a, scale, d_zero=False):
    g = lambda: rng.gauss(0.0, 1.0) * scale  # noqa: E731
    return {
        "W": [[g() for _ in range(n)] for _ in range(h)],
        "U": [[g() for _ in range(n)] for _ in range(a)],
        "b": [g() for _ in range(n)],
        "c": [g() for _ in range(h)],
        "d": [0.0 if d_zero else g() for _ in range(a)],
    }


def set_rbm(rbm, p):
    rbm.weights.data = torch.tensor(p["W"], dtype=torch.double).reshape(rbm.num_hidden, rbm.num_visible)
    rbm.visible_bias.data = torch.tensor(p["b"], dtype=torch.double)
    rbm.hidden_bias.data = torch.tensor(p["c"], dtype=torch.double)


def set_prbm(rbm, p):
    rbm.weights_W.data = torch.tensor(p["W"], dtype=torch.double).reshape(rbm.num_hidden, rbm.num_visible)
    rbm.weights_U.data = torch.tensor(p["U"], dtype=torch.double).reshape(rbm.num_aux, rbm.num_visible)
    rbm.visible_bias.data = torch.tensor(p["b"], dtype=torch.double)
    rbm.hidden_bias.data = torch.tensor(p["c"], dtype=torch.double)
    rbm.aux_bias.data = torch.tensor(p["d"], dtype=torch.double)


def pbits(p):
    """parameter dict -> same dict with bit patterns (for the driver)"""
    return {k: bits(np.asarray(v, dtype=np.float64).reshape(np.asarray(v).shape)) for k, v in p.items()}


def make_positive(n, h, am):
    st = PositiveWaveFunction(n, h, gpu=False)
    set_rbm(st.rbm_am, am)
    return st


def make_complex(n, h, am, ph, unitary_dict=None):
    st = ComplexWaveFunction(n, h, gpu=False, unitary_dict=unitary_dict)
    set_rbm(st.rbm_am, am)
    set_rbm(st.rbm_ph, ph)
    return st


def make_density(n, h, a, am, ph, unitary_dict=None):
    st = DensityMatrix(n, h, a, gpu=False, unitary_dict=unitary_dict)
    set_prbm(st.rbm_am, am)
    set_prbm(st.rbm_ph, ph)
    return st


def all_states(n):
    """all 2^n basis states as lists (big-endian), independent of the library"""
    return [[(k >> (n - 1 - j)) & 1 for j in range(n)] for k in range(2 ** n)]


def all_bases(n, alphabet="XYZ"):
    import itertools

    return ["".join(t) for t in itertools.product(alphabet, repeat=n)]
