"""Helpers that build real qucumber objects with prescribed parameters and generate inputs."""
import os
import sys
import warnings

import numpy as np

from .common import REPO, VERIF, bits

_pydeps = os.path.join(VERIF, ".pydeps")
if os.path.isdir(_pydeps) and _pydeps not in sys.path:
    sys.path.append(_pydeps)
if REPO not in sys.path:
    sys.path.insert(0, REPO)
warnings.filterwarnings("ignore")

import torch  # noqa: E402

torch.set_num_threads(1)


def _ensure_scipy_stub():
    """training_statistics imports scipy.linalg.sqrtm (unused). If scipy is unavailable provide a stub."""
    try:
        import scipy.linalg  # noqa: F401
    except Exception:
        import types

        sp = types.ModuleType("scipy")
        la = types.ModuleType("scipy.linalg")

        def sqrtm(*a, **k):
            raise NotImplementedError("scipy stub")

        la.sqrtm = sqrtm
        sp.linalg = la
        sys.modules["scipy"] = sp
        sys.modules["scipy.linalg"] = la


_ensure_scipy_stub()

import qucumber  # noqa: E402
from qucumber.nn_states import ComplexWaveFunction, DensityMatrix, PositiveWaveFunction  # noqa: E402
from qucumber.rbm import BinaryRBM, PurificationRBM  # noqa: E402

SCALES = [0.0, 0.1, 1.0, 3.0, 10.0, 30.0]


def rand_rbm_params(rng, n, h, scale, bias=True):
    """W (h×n), b (n), c (h) = scale·N(0,1); biases all non-zero unless scale == 0"""
    g = lambda: rng.gauss(0.0, 1.0) * scale  # noqa: E731
    W = [[g() for _ in range(n)] for _ in range(h)]
    b = [g() if bias else 0.0 for _ in range(n)]
    c = [g() if bias else 0.0 for _ in range(h)]
    return {"W": W, "b": b, "c": c}


def rand_prbm_params(rng, n, h, a, scale, d_zero=False):
    g = lambda: rng.gauss(0.0, 1.0) * scale  # noqa: E731
    return {
        "W": [[g() for _ in range(n)] for _ in range(h)],
        "U": [[g() for _ in range(n)] for _ in range(a)],
        "b": [g() for _ in range(n)],
        "c": [g() for _ in range(h)],
        "d": [0.0 if d_zero else g() for _ in range(a)],
    }


def _via_module(am):
    """about every third state (decided by a checksum of its amplitude parameters, so that a replayed case takes the same
    path) is built through the `module=` constructor branch (user-supplied RBM) instead of the sizes branch, and its
    parameters are then written IN PLACE, so that aliasing between the amplitude and phase networks, or any difference
    between the two construction paths, shows up in every harness that uses these builders"""
    import json
    import zlib
    return zlib.crc32(json.dumps(am, sort_keys=True, default=lambda o: getattr(o, "tolist", lambda: str(o))()).encode()) % 3 == 0


def set_rbm(rbm, p, inplace=False):
    W = torch.tensor(p["W"], dtype=torch.double).reshape(rbm.num_hidden, rbm.num_visible)
    b = torch.tensor(p["b"], dtype=torch.double)
    c = torch.tensor(p["c"], dtype=torch.double)
    if inplace:
        rbm.weights.data.copy_(W); rbm.visible_bias.data.copy_(b); rbm.hidden_bias.data.copy_(c)
    else:
        rbm.weights.data = W; rbm.visible_bias.data = b; rbm.hidden_bias.data = c


def set_prbm(rbm, p, inplace=False):
    W = torch.tensor(p["W"], dtype=torch.double).reshape(rbm.num_hidden, rbm.num_visible)
    U = torch.tensor(p["U"], dtype=torch.double).reshape(rbm.num_aux, rbm.num_visible)
    b = torch.tensor(p["b"], dtype=torch.double)
    c = torch.tensor(p["c"], dtype=torch.double)
    d = torch.tensor(p["d"], dtype=torch.double)
    if inplace:
        rbm.weights_W.data.copy_(W); rbm.weights_U.data.copy_(U); rbm.visible_bias.data.copy_(b)
        rbm.hidden_bias.data.copy_(c); rbm.aux_bias.data.copy_(d)
    else:
        rbm.weights_W.data = W; rbm.weights_U.data = U; rbm.visible_bias.data = b
        rbm.hidden_bias.data = c; rbm.aux_bias.data = d


def pbits(p):
    """parameter dict -> same dict with bit patterns (for the driver)"""
    return {k: bits(np.asarray(v, dtype=np.float64).reshape(np.asarray(v).shape)) for k, v in p.items()}


def make_positive(n, h, am):
    if _via_module(am):
        st = PositiveWaveFunction(n, gpu=False, module=BinaryRBM(n, h, gpu=False))
        set_rbm(st.rbm_am, am, inplace=True)
        return st
    st = PositiveWaveFunction(n, h, gpu=False)
    set_rbm(st.rbm_am, am)
    return st


def make_complex(n, h, am, ph, unitary_dict=None):
    if _via_module(am):
        st = ComplexWaveFunction(n, unitary_dict=unitary_dict, gpu=False, module=BinaryRBM(n, h, gpu=False))
        set_rbm(st.rbm_am, am, inplace=True)
        set_rbm(st.rbm_ph, ph, inplace=True)  # written last: would clobber the amplitude network if the two were aliased
        return st
    st = ComplexWaveFunction(n, h, gpu=False, unitary_dict=unitary_dict)
    set_rbm(st.rbm_am, am)
    set_rbm(st.rbm_ph, ph)
    return st


def make_density(n, h, a, am, ph, unitary_dict=None):
    if _via_module(am):
        st = DensityMatrix(n, unitary_dict=unitary_dict, gpu=False, module=PurificationRBM(n, h, a, gpu=False))
        set_prbm(st.rbm_am, am, inplace=True)
        set_prbm(st.rbm_ph, ph, inplace=True)
        return st
    st = DensityMatrix(n, h, a, gpu=False, unitary_dict=unitary_dict)
    set_prbm(st.rbm_am, am)
    set_prbm(st.rbm_ph, ph)
    return st


def all_states(n):
    """all 2^n basis states as lists (big-endian), independent of the library"""
    return [[(k >> (n - 1 - j)) & 1 for j in range(n)] for k in range(2 ** n)]


def all_bases(n, alphabet="XYZ"):
    import itertools

    return ["".join(t) for t in itertools.product(alphabet, repeat=n)]
