"""Helpers that build real qucumber objects with prescribed parameters and generate inputs."""
import os
import sys
import warnings

import numpy as np

from .common import REPO, VERIF, bits

_pydeps = os.path.join(VERIF, ".pydeps")
if os.path.isdir(_pydeps) and _pydeps not in sys.path:
    sys.path.append(_pydeps)
if REPO not in sys.path:
    sys.path.insert(0, REPO)
warnings.filterwarnings("ignore")

import torch  # noqa: E402

torch.set_num_threads(1)


def _ensure_scipy_stub():
    """training_statistics imports scipy.linalg.sqrtm (unused). If scipy is unavailable provide a stub."""
    try:
        import scipy.linalg  # noqa: F401
    except Exception:
        import types

        sp = types.ModuleType("scipy")
        la = types.ModuleType("scipy.linalg")

        def sqrtm(*a, **k):
            raise NotImplementedError("scipy stub")

        la.sqrtm = sqrtm
        sp.linalg = la
        sys.modules["scipy"] = sp
        sys.modules["scipy.linalg"] = la


_ensure_scipy_stub()

import qucumber  # noqa: E402
from qucumber.nn_states import ComplexWaveFunction, DensityMatrix, PositiveWaveFunction  # noqa: E402
from qucumber.rbm import BinaryRBM, PurificationRBM  # noqa: E402

SCALES = [0.0, 0.1, 1.0, 3.0, 10.0, 30.0]


def rand_rbm_params(rng, n, h, scale, bias=True):
    """W (h×n), b (n), c (h) = scale·N(0,1); biases all non-zero unless scale == 0"""
    g = lambda: rng.gauss(0.0, 1.0) * scale  # noqa: E731
    W = [[g() for _ in range(n)] for _ in range(h)]
    b = [g() if bias else 0.0 for _ in range(n)]
    c = [g() if bias else 0.0 for _ in range(h)]
    return {"W": W, "b": b, "c": c}


def rand_prbm_params(rng, n, h, a, scale, d_zero=False):
    g = lambda: rng.gauss(0.0, 1.0) * scale  # noqa: E731
    return {
        "W": [[g() for _ in range(n)] for _ in range(h)],
        "U": [[g() for _ in range(n)] for _ in range(a)],
        "b": [g() for _ in range(n)],
        "c": [g() for _ in range(h)],
        "d": [0.0 if d_zero else g() for _ in range(a)],
    }


def _via_module(am):
    """about every third state (decided by a checksum of its amplitude parameters, so that a replayed case takes the same
    path) is built through the `module=` constructor branch (user-supplied RBM) instead of the sizes branch, and its
    parameters are then written IN PLACE, so that aliasing between the amplitude and phase networks, or any difference
    between the two construction paths, shows up in every harness that uses these builders"""
    import json
    import zlib
    return zlib.crc32(json.dumps(am, sort_keys=True, default=lambda o: getattr(o, "tolist", lambda: str(o))()).encode()) % 3 == 0


def set_rbm(rbm, p, inplace=False):
    W = torch.tensor(p["W"], dtype=torch.double).reshape(rbm.num_hidden, rbm.num_visible)
    b = torch.tensor(p["b"], dtype=torch.double)
    c = torch.tensor(p["c"], dtype=torch.double)
    if inplace:
        rbm.weights.data.copy_(W); rbm.visible_bias.data.copy_(b); rbm.hidden_bias.data.copy_(c)
    else:
        rbm.weights.data = W; rbm.visible_bias.data = b; rbm.hidden_bias.data = c


def set_prbm(rbm, p, inplace=False):
    W = torch.tensor(p["W"], dtype=torch.double).reshape(rbm.num_hidden, rbm.num_visible)
    U = torch.tensor(p["U"], dtype=torch.double).reshape(rbm.num_aux, rbm.num_visible)
    b = torch.tensor(p["b"], dtype=torch.double)
    c = torch.tensor(p["c"], dtype=torch.double)
    d = torch.tensor(p["d"], dtype=torch.double)
    if inplace:
        rbm.weights_W.data.copy_(W); rbm.weights_U.data.copy_(U); rbm.visible_bias.data.copy_(b)
        rbm.hidden_bias.data.copy_(c); rbm.aux_bias.data.copy_(d)
    else:
        rbm.weights_W.data = W; rbm.weights_U.data = U; rbm.visible_bias.data = b
        rbm.hidden_bias.data = c; rbm.aux_bias.data = d


def pbits(p):
    """parameter dict -> same dict with bit patterns (for the driver)"""
    return {k: bits(np.asarray(v, dtype=np.float64).reshape(np.asarray(v).shape)) for k, v in p.items()}


def make_positive(n, h, am, gpu=False):
    """`gpu`: the (falsy) object handed as `gpu=` to the state and RBM constructors (default: the singleton False)"""
    if _via_module(am):
        st = PositiveWaveFunction(n, gpu=gpu, module=BinaryRBM(n, h, gpu=gpu))
        set_rbm(st.rbm_am, am, inplace=True)
        return st
    st = PositiveWaveFunction(n, h, gpu=gpu)
    set_rbm(st.rbm_am, am)
    return st


def make_complex(n, h, am, ph, unitary_dict=None, gpu=False):
    if _via_module(am):
        st = ComplexWaveFunction(n, unitary_dict=unitary_dict, gpu=gpu, module=BinaryRBM(n, h, gpu=gpu))
        set_rbm(st.rbm_am, am, inplace=True)
        set_rbm(st.rbm_ph, ph, inplace=True)  # written last: would clobber the amplitude network if the two were aliased
        return st
    st = ComplexWaveFunction(n, h, gpu=gpu, unitary_dict=unitary_dict)
    set_rbm(st.rbm_am, am)
    set_rbm(st.rbm_ph, ph)
    return st


def make_density(n, h, a, am, ph, unitary_dict=None, gpu=False):
    if _via_module(am):
        st = DensityMatrix(n, unitary_dict=unitary_dict, gpu=gpu, module=PurificationRBM(n, h, a, gpu=gpu))
        set_prbm(st.rbm_am, am, inplace=True)
        set_prbm(st.rbm_ph, ph, inplace=True)
        return st
    st = DensityMatrix(n, h, a, gpu=gpu, unitary_dict=unitary_dict)
    set_prbm(st.rbm_am, am)
    set_prbm(st.rbm_ph, ph)
    return st


def all_states(n):
    """all 2^n basis states as lists (big-endian), independent of the library"""
    return [[(k >> (n - 1 - j)) & 1 for j in range(n)] for k in range(2 ** n)]


def all_bases(n, alphabet="XYZ"):
    import itertools

    return ["".join(t) for t in itertools.product(alphabet, repeat=n)]

# ------------------------------------------------------------------ boolean options as the OBJECTS callers pass (hardening round 4)
# An argument documented as `bool` (expand, overwrite, absolute, periodic_bcs, gpu) is in practice also given as the int 1 / 0, as a
# numpy bool (a flag read from a numpy array / config, the result of a numpy comparison), as a 0-dim numpy bool array or as a 0-dim
# torch.bool tensor.  Code that tests `if flag:` treats them all alike; code that tests `flag is True` does not.  Every boolean option of
# a call form is therefore generated through these helpers, in keyword and in positional position.  Model side: QV.Model.PyFlag
# (descriptor -> DriverLib.Flag.parseFlag), theorems C02_expand_flag, C05_overwrite_flag, C08_flag_absolute / C08_flag_periodic.
FLAG_FORMS = ["py", "int", "np_bool", "np_cmp", "np_0d", "torch_0d"]


def flag_value(desc):
    """the Python object denoted by a flag descriptor {"form": one of FLAG_FORMS, "value": bool} (a plain bool denotes itself)"""
    if isinstance(desc, bool):
        return desc
    b, form = bool(desc["value"]), desc["form"]
    if form == "py":
        return b
    if form == "int":
        return 1 if b else 0
    if form == "np_bool":
        return np.bool_(b)
    if form == "np_cmp":
        return np.float64(1.0 if b else 0.0) > 0.5          # what a numpy comparison returns (numpy.bool_)
    if form == "np_0d":
        return np.array(b)
    if form == "torch_0d":
        return torch.tensor(b)
    raise ValueError(f"unknown flag form {form}")


def flag_form(rng, plain=0.2):
    """how ONE boolean option of a call is handed over: {"form": FLAG_FORMS entry, "pos": positionally?}; the Python singleton with
    probability `plain`, else one of the five other forms"""
    return {"form": "py" if rng.random() < plain else rng.choice(FLAG_FORMS[1:]), "pos": rng.random() < 0.35}


def flag_desc(ff, b):
    """descriptor of the truth value `b` in the form `ff` (None / missing: the Python singleton, keyword position — cases stored
    before this round replay exactly as they were)"""
    return {"form": (ff or {}).get("form", "py"), "value": bool(b)}


def flag_pos(ff):
    return bool((ff or {}).get("pos", False))


def flag_forms(rng, b, plain=0.2):
    """(object to pass, JSON-able descriptor incl. "pos") for the boolean option value `b`"""
    ff = flag_form(rng, plain)
    d = flag_desc(ff, b)
    return flag_value(d), dict(d, pos=ff["pos"])


class Flags:
    """deterministic stream of flag forms for ONE case, seeded by the case's `fseed` (so that a replay hands over the same objects);
    `fseed=None`: Python singletons in keyword position.  `fl(b)` -> (object, descriptor with "pos"); every descriptor is kept in `used`."""

    def __init__(self, fseed):
        import random
        self.rng = None if fseed is None else random.Random(fseed)
        self.used = []

    def __call__(self, b):
        if self.rng is None:
            v, d = bool(b), {"form": "py", "value": bool(b), "pos": False}
        else:
            v, d = flag_forms(self.rng, b)
        self.used.append(d)
        return v, d


# ---------------------------------------------------------------- integer options in every form the caller may hand over
INT_FORMS = ("py", "np.int64", "np.int32", "np.intp", "np.uint8", "np0d", "t0d")


def int_value(form, n):
    """the object to pass for the integer option value `n` in the given form"""
    n = int(n)
    if form == "py":
        return n
    if form == "np.int64":
        return np.int64(n)
    if form == "np.int32":
        return np.int32(n)
    if form == "np.intp":
        return np.intp(n)
    if form == "np.uint8":
        return np.uint8(n) if 0 <= n < 256 else n
    if form == "np0d":
        return np.array(n)
    if form == "t0d":
        return torch.tensor(n)
    raise ValueError(form)


def int_forms(rng, n, allowed=INT_FORMS, plain=0.3):
    """(object to pass, JSON-able descriptor) for the integer option value `n`: a Python int with probability `plain`, otherwise one
    of the `allowed` forms (pass only the forms the CLEAN code accepts for that option)"""
    form = "py" if rng.random() < plain else rng.choice([f for f in allowed])
    if form == "np.uint8" and not (0 <= int(n) < 256):
        form = "np.int64"
    return int_value(form, n), {"form": form, "value": int(n)}


class Ints:
    """deterministic stream of integer forms for ONE case, seeded by the case's `iseed` (a replay hands over the same objects);
    `iseed=None`: plain Python ints.  `it(n, allowed=...)` -> (object, descriptor); every descriptor is kept in `used`."""

    def __init__(self, iseed):
        import random
        self.rng = None if iseed is None else random.Random(iseed)
        self.used = []

    def __call__(self, n, allowed=INT_FORMS):
        if self.rng is None:
            v, d = int(n), {"form": "py", "value": int(n)}
        else:
            v, d = int_forms(self.rng, n, allowed)
        self.used.append(d)
        return v, d
