"""C13 — correspondence of the streaming-statistics model (QV.Model.Stats: updateStatistics / fromSamples /
obsStatistics / sysStatistics / draws / chainSetup / numTimeSteps) with `_update_statistics`,
`ObservableBase.statistics(_from_samples)` and `System.statistics`, plus the property oracles evaluated on the
implementation (one-pass numpy / exact-rational statistics of the captured chain states, the k schedule, the count,
chain continuity, caller's tensor untouched unless overwrite).

`nn_state.sample` is wrapped ON THE INSTANCE to capture k, the chain states (copies) and object identities."""
import itertools
import math
from fractions import Fraction

import numpy as np

from . import qc
from .common import bits, f2b, unbits
from .qc import torch

from qucumber.observables import NeighbourInteraction, ObservableBase, SigmaX, SigmaZ, System  # noqa: E402
from qucumber.observables.utils import _update_statistics  # noqa: E402

FILES = ["qucumber/observables/utils.py", "qucumber/observables/observable.py", "qucumber/observables/system.py",
         "qucumber/nn_states/neural_state.py"]
EXTRA_TRUSTED = ["C13: nn_state.sample is an arbitrary function of (call number, call) in the model; the harness replays the recorded run (returned tensor identities, per-draw observable values); torch.var_mean is assumed to be the unbiased two-pass variance up to rounding"]
REQUIRED_THEOREMS = ["C13_merge", "C13_stream", "C13_count", "C13_schedule", "C13_system", "C13_statistics_one_pass"]
THEOREMS = {
    "merge": "C13_merge, C13_merge_empty_left",
    "stream": "C13_stream, C13_statistics_one_pass",
    "count": "C13_count, C13_count_chains",
    "schedule": "C13_schedule, C13_schedule_threaded, C13_schedule_start, C13_schedule_untouched",
    "system": "C13_system, C13_system_count",
    "from": "C13_fromSamples",
}
RULE = ("merge cases: a random dataset (2..9 values; small integers, or gaussians) and EVERY split into two consecutive parts "
        "(incl. an empty left part) and every chunking into T equal chunks; statistics cases: (num_samples, num_chains, burn_in, "
        "steps, user chains or not [dtype float64/32/16, int64, uint8, bool; contiguous, strided row/column views of a larger buffer, "
        "transposed, stride-0 expand], overwrite, set of observables, single/System) with num_samples <= 9, num_chains <= 10 (all pairs in "
        "thorough, a seeded subset plus the special pairs in quick), burn_in/steps in 0..3, real Gibbs sampling on a small random "
        "state with nn_state.sample wrapped on the instance. non-trivial iff at least two draws are merged and the captured "
        "values are not all equal; distinct by hash of the case")


# ---------------------------------------------------------------- helpers
def exact_stats(xs):
    """one-pass statistics in exact rational arithmetic"""
    fx = [Fraction(x) for x in xs]
    n = len(fx)
    m = sum(fx) / n
    v = sum((x - m) ** 2 for x in fx) / (n - 1) if n > 1 else None
    return m, v, n


def stat_close(a, b, scale, rtol=1e-9):
    a = float(a)
    b = float(b)
    if math.isnan(a) or math.isnan(b):
        return math.isnan(a) and math.isnan(b)
    return abs(a - b) <= rtol * max(scale, abs(a), abs(b))


def var_tol(V, scale):
    """admissible error of a variance V of data of magnitude `scale` computed by a numerically stable method (two-pass chunks +
    delta-based merges): relative 1e-9, plus the rounding of the chunk means entering the merge term (~ eps*scale*sqrt(V)).
    Deliberately NOT relative to scale^2: cancellation between sums of squares is an error of the result."""
    V = abs(float(V))
    return 1e-9 * V + 1e-11 * scale * math.sqrt(V) + 1e-20 * scale * scale


def var_close(a, V, scale):
    a = float(a)
    if V is None:
        return math.isnan(a)
    return (not math.isnan(a)) and abs(a - float(V)) <= var_tol(V, scale)


def se_close(a, V, N, scale):
    a = float(a)
    if V is None:
        return math.isnan(a)
    V = max(float(V), 0.0)
    se = math.sqrt(V / N)
    tol = (var_tol(V, scale) / (2 * math.sqrt(V * N)) + 1e-9 * se) if V > 0 else math.sqrt(var_tol(0.0, scale) / N)
    return (not math.isnan(a)) and abs(a - se) <= max(tol, 1e-300)


def var_scale(V, scale):
    """`scale` argument for ctx.point on a variance: atol 1e-9 * scale * sqrt(V) (see var_tol)"""
    return max(1e-6, scale * math.sqrt(abs(float(V)))) if V is not None else 1.0


class MockObs(ObservableBase):
    def __init__(self, w, off, name):
        self.w = torch.tensor(w, dtype=torch.double)
        self.off = float(off)
        self.name = name
        self.symbol = name

    def apply(self, nn_state, samples):
        return samples.to(torch.double).matmul(self.w).add(self.off)


def chunk_stats(xs):
    """(mean, variance) of one chunk the way the library computes them (torch.var_mean; nan for one value)"""
    t = torch.tensor(xs, dtype=torch.double)
    v, m = torch.var_mean(t)
    return m.item(), v.item()


# ---------------------------------------------------------------- part A: the pairwise merge
def merge_case(ctx, case):
    xs = case["xs"]
    N = len(xs)
    integral = all(float(x).is_integer() for x in xs)
    scale = max(1.0, max(abs(x) for x in xs))
    M, V, _ = exact_stats(xs)
    ctx.case(case, nontrivial=len(set(xs)) > 1 and N >= 3, sample={"part": "merge", "xs": xs})
    ctx.count("merge_dataset"); ctx.count(f"merge_N={N}"); ctx.count("merge_integral" if integral else "merge_float")
    for s in range(0, N):
        a, b = xs[:s], xs[s:]
        sub = {**case, "split": s}
        if s == 0:
            ma, va = 0.0, 0.0  # the state before the first draw
        else:
            ma, va = chunk_stats(a)
        mb, vb = chunk_stats(b)
        r = _update_statistics(ma, va, len(a), mb, vb, len(b))
        ok = (r[2] == N and stat_close(r[0], M, scale) and
              var_close(r[1], V, scale))
        ctx.oracle("merge == one-pass statistics of the concatenation", ok, sub,
                   detail={"impl": [float(r[0]), float(r[1]), r[2]], "expected": [float(M), None if V is None else float(V), N]},
                   sig="merge/oracle", theorem=THEOREMS["merge"])
        ctx.count("merge_split")
        # a one-value chunk's reported variance must not matter
        if len(a) == 1 or len(b) == 1:
            r2 = _update_statistics(ma, 123.25 if len(a) == 1 else va, len(a), mb, -7.5 if len(b) == 1 else vb, len(b))
            same = all(stat_close(x, y, scale * scale, 1e-12) for x, y in zip(r[:2], r2[:2])) and r[2] == r2[2]
            ctx.oracle("singleton variance is ignored", same, sub, detail={"nan": list(map(float, r[:2])), "junk": list(map(float, r2[:2]))},
                       sig="merge/singleton-ignored", theorem=THEOREMS["merge"])
            ctx.count("merge_singleton")
        if ctx.driver is not None:
            m = ctx.driver.call("c13.update", avg_a=f2b(ma), var_a=f2b(va), len_a=len(a), avg_b=f2b(mb), var_b=f2b(vb), len_b=len(b))
            ctx.point("merge.mean", "property", [r[0]], unbits([m["mean"]]), sub, scale=scale, theorem=THEOREMS["merge"], sig="merge/mean")
            ctx.point("merge.variance", "property", [r[1]], unbits([m["variance"]]), sub, scale=var_scale(V, scale), theorem=THEOREMS["merge"],
                      sig="merge/variance")
            ctx.point("merge.len", "property", r[2], m["n"], sub, exact=True, theorem=THEOREMS["merge"], sig="merge/len")
    # every chunking into T equal chunks, folded with the real routine the way `statistics` folds it
    for c in range(1, N + 1):
        if N % c:
            continue
        chunks = [xs[i:i + c] for i in range(0, N, c)]
        rm, rv, rl = 0.0, 0.0, 0
        for ch in chunks:
            mb, vb = chunk_stats(ch)
            rm, rv, rl = _update_statistics(rm, rv, rl, mb, vb, c)
        sub = {**case, "chunk": c}
        ok = (rl == N and stat_close(rm, M, scale) and var_close(rv, V, scale))
        ctx.oracle("fold over equal chunks == one-pass", ok, sub, detail={"impl": [float(rm), float(rv), rl]}, sig="fold/oracle",
                   theorem=THEOREMS["stream"])
        ctx.count(f"fold_c={c}")
        if ctx.driver is not None:
            m = ctx.driver.call("c13.fold", c=c, chunks=[bits(ch) for ch in chunks])
            for key, lvl in (("onepass", "property"), ("stream", "aux")):
                mm = m[key]
                if "error" in mm:
                    ctx.point(f"fold.{key}", lvl, "ok", mm["error"], sub, exact=True, sig=f"fold/{key}")
                    continue
                ctx.point(f"fold.{key}.mean", lvl, [rm], unbits([mm["mean"]]), sub, scale=scale, theorem=THEOREMS["stream"], sig=f"fold/{key}")
                ctx.point(f"fold.{key}.variance", lvl, [rv], unbits([mm["variance"]]), sub, scale=var_scale(V, scale), theorem=THEOREMS["stream"],
                          sig=f"fold/{key}")
                ctx.point(f"fold.{key}.n", lvl, rl, mm["n"], sub, exact=True, theorem=THEOREMS["stream"], sig=f"fold/{key}")


def formula_case(ctx, case):
    """the merge formula on arbitrary small-integer operands (not statistics of any dataset): every float operation
    is exact up to the final correctly-rounded divisions, so model and code must agree bit for bit"""
    a = case["args"]
    ctx.case(case, nontrivial=a[2] > 0 and a[5] > 0, sample={"part": "formula", "args": a})
    ctx.count("formula_case")
    va = float("nan") if a[1] is None else float(a[1])
    vb = float("nan") if a[4] is None else float(a[4])
    r = _update_statistics(float(a[0]), va, a[2], float(a[3]), vb, a[5])
    if ctx.driver is not None:
        m = ctx.driver.call("c13.update", avg_a=f2b(a[0]), var_a=f2b(va), len_a=a[2], avg_b=f2b(a[3]), var_b=f2b(vb), len_b=a[5])
        canon = lambda x: "nan" if math.isnan(float(x)) else f2b(float(x) + 0.0)  # noqa: E731
        ctx.point("formula", "aux", [canon(r[0]), canon(r[1]), r[2]],
                  [canon(unbits([m["mean"]])[0]), canon(unbits([m["variance"]])[0]), m["n"]], case, exact=True, sig="formula/exact")
    if a[2] == 0 and a[5] == 0:
        ctx.oracle("both empty -> (0.0, 0.0, 0)", tuple(r) == (0.0, 0.0, 0), case, sig="formula/both-empty")


# ---------------------------------------------------------------- part B: statistics / System.statistics
def make_obs(spec, n, name):
    t = spec["type"]
    if t == "mock":
        o = MockObs(spec["w"], spec["off"], name)
    elif t == "SigmaZ":
        o = SigmaZ()
    elif t == "SigmaX":
        o = SigmaX()
    elif t == "NI":
        o = NeighbourInteraction(periodic_bcs=spec["periodic"], c=1)
    elif t == "composite":
        # -NI - 3*SigmaZ + 1 - 2*mock   (built with the real operators)
        o = -NeighbourInteraction(c=1) - 3 * SigmaZ() + 1 - 2 * MockObs(spec["w"], spec["off"], name + "m")
    elif t == "composite2":
        o = 0.5 * (SigmaX() + MockObs(spec["w"], spec["off"], name + "m")) - np.float64(2.0)
    else:
        raise ValueError(t)
    o.name = name
    return o


def make_state(s):
    if s["kind"] == "pos":
        return qc.make_positive(s["n"], s["h"], s["am"])
    return qc.make_complex(s["n"], s["h"], s["am"], s["ph"])


class Recorder:
    """wraps nn_state.sample on the instance; numbers tensor objects by identity (user's tensor = 0)"""

    def __init__(self, nn_state, user):
        self.calls = []
        self.keep = []  # keep every tensor alive so that ids are never reused
        self.tokens = {}
        if user is not None:
            self.tokens[id(user)] = 0
            self.keep.append(user)
        self.orig = nn_state.sample
        nn_state.sample = self  # instance attribute shadows the method

    def tok(self, t):
        if t is None:
            return None
        if id(t) not in self.tokens:
            self.tokens[id(t)] = 1 + sum(1 for v in self.tokens.values() if v != 0)
            self.keep.append(t)
        return self.tokens[id(t)]

    def __call__(self, k, num_samples=1, initial_state=None, overwrite=False):
        rec = {"k": k, "num_samples": num_samples, "init": self.tok(initial_state), "overwrite": overwrite,
               "init_copy": None if initial_state is None else initial_state.clone()}
        out = self.orig(k=k, num_samples=num_samples, initial_state=initial_state, overwrite=overwrite)
        rec["ret"] = self.tok(out)
        rec["ret_copy"] = out.clone()
        self.calls.append(rec)
        return out


def record_run(st, user, fn):
    """run fn(user) with st.sample wrapped on the instance -> (result, error name, recorded calls)"""
    rec = Recorder(st, user)
    r, err = None, None
    try:
        r = fn(user)
    except Exception as e:  # noqa: BLE001
        err = type(e).__name__
    finally:
        del st.sample  # remove the instance wrapper
    return r, err, rec.calls


INIT_FORMS = ("f64", "f32", "f16", "i64", "u8", "bool", "cols", "rows", "T", "f32cols", "expand")
IN_PLACE_FORMS = ("f64", "cols", "rows", "T")   # float64 tensors: `.to(weights)` is the identity, Gibbs steps write into the caller's tensor


def make_user(rows, n, form):
    """the caller's initial_state in the given dtype / memory layout -> (tensor, backing buffer or None).
    f64 / f32 / f16 / i64 / u8 / bool: contiguous tensors of that dtype; cols / rows: strided views of a larger float64 buffer;
    T: transposed (column-major) float64; f32cols: strided float32 view; expand: one row broadcast with stride 0 (read-only use)"""
    base = torch.tensor(rows, dtype=torch.double).reshape(len(rows), n)
    R = len(rows)
    if form == "f64":
        return base, None
    if form in ("f32", "f16", "i64", "u8", "bool"):
        return base.to({"f32": torch.float32, "f16": torch.float16, "i64": torch.int64, "u8": torch.uint8, "bool": torch.bool}[form]), None
    if form in ("cols", "f32cols"):
        big = torch.full((R, 2 * n + 1), 7.0, dtype=torch.double if form == "cols" else torch.float32)
        big[:, 1::2] = base.to(big.dtype)
        return big[:, 1::2], big
    if form == "rows":
        big = torch.full((2 * R + 1, n), 7.0, dtype=torch.double)
        big[1::2] = base
        return big[1::2], big
    if form == "T":
        return base.t().contiguous().t(), None
    if form == "expand":
        return base[0:1].expand(R, n), None
    raise ValueError(form)


def stats_case(ctx, case):
    n = case["state"]["n"]
    st = make_state(case["state"])
    names = [f"O{i}" for i in range(len(case["obs"]))]
    obs = [make_obs(s, n, nm) for s, nm in zip(case["obs"], names)]
    user_before = None
    form = case.get("init_form", "f64")
    if case["init"] is not None:
        rows_ = [case["init"][0]] * len(case["init"]) if form == "expand" and case["init"] else case["init"]
        user_before = make_user(rows_, n, form)[0].clone()
        ctx.count(f"init_form={form}")

    def new_user():
        """a fresh copy of the caller's tensor in the case's dtype / layout (+ its backing buffer)"""
        if user_before is None:
            return None, None
        return make_user(rows_, n, form)
    ns, nc, burn, steps, ow, system = case["ns"], case["nc"], case["burn_in"], case["steps"], case["overwrite"], case["system"]
    kwargs = dict(num_samples=ns, num_chains=nc, burn_in=burn, steps=steps, overwrite=ow)
    sysobj = System(*obs) if system else None
    if case.get("before"):
        # an EARLIER run with another configuration on the very same observable / System / state objects (results discarded here:
        # every configuration is checked as a case of its own); the checked run below must not depend on it
        b = case["before"]
        ctx.count("second_run_on_same_objects")
        torch.manual_seed(b["torch_seed"])
        ub = None if b["rows"] is None else torch.tensor(b["rows"], dtype=torch.double).reshape(len(b["rows"]), n)
        kb = dict(num_samples=b["ns"], num_chains=b["nc"], burn_in=b["burn_in"], steps=b["steps"], initial_state=ub, overwrite=b["overwrite"])
        try:
            if system:
                sysobj.statistics(st, **kb)
            else:
                for o in obs:
                    o.statistics(st, **kb)
        except ZeroDivisionError:
            pass
    runs = []  # (result dicts per observable, error, calls, observables covered, the caller's tensor after the run)
    if system:
        torch.manual_seed(case["torch_seed"])
        user, backing = new_user()
        r, err, calls = record_run(st, user, lambda u: sysobj.statistics(st, initial_state=u, **kwargs))
        runs.append((None if r is None else [r[nm] for nm in names], err, calls, list(range(len(obs))), user, backing))
    else:
        # one observable at a time; every run is recorded and checked on its own chain states
        for i, o in enumerate(obs):
            torch.manual_seed(case["torch_seed"] + i)
            user, backing = new_user()
            r, err, calls = record_run(st, user, lambda u: o.statistics(st, initial_state=u, **kwargs))
            runs.append((None if r is None else [r], err, calls, [i], user, backing))

    c_exp = (len(case["init"]) if case["init"] is not None else (min(nc, ns) if nc != 0 else ns))
    T_exp = None if c_exp == 0 else -(-ns // c_exp)
    desc = {k: case[k] for k in ("ns", "nc", "burn_in", "steps", "overwrite", "system", "obs")}
    desc["init_rows"] = None if case["init"] is None else len(case["init"])
    nontriv = False
    sig0 = "system" if system else "single"
    ctx.count(f"stats_{sig0}"); ctx.count(f"ns={ns}"); ctx.count(f"nc={nc}"); ctx.count(f"burn_in={burn}"); ctx.count(f"steps={steps}")
    ctx.count("user_chains_overwrite" if (user_before is not None and ow) else ("user_chains_clone" if user_before is not None else "fresh_chains"))
    for s in case["obs"]:
        ctx.count(f"obs={s['type']}")
    if nc == 0:
        ctx.count("nc_zero")
    elif nc > ns:
        ctx.count("nc_gt_ns")
    elif ns % max(nc, 1):
        ctx.count("nc_nondivisor")
    if c_exp == 1 or ns == 1:
        ctx.count("single_value_chunks_or_single_sample")

    for (r, err, calls, idxs, user, backing) in runs:
        exp_err = "ZeroDivisionError" if (c_exp == 0 or (T_exp == 0 and len(idxs) > 0)) else None
        ctx.oracle("error exactly when no chain / no draw", err == exp_err, case, detail={"impl": err, "expected": exp_err},
                   sig=f"{sig0}/error-oracle", theorem=THEOREMS["count"])
        vals = [[o.apply(st, cl["ret_copy"].clone()).detach().numpy().astype(np.float64).tolist() for cl in calls] for o in (obs[i] for i in idxs)]
        ks = [cl["k"] for cl in calls]
        if err != exp_err:
            continue  # already a violation; nothing sensible to evaluate further for this run
        if err is None and calls:
            T = len(calls)
            # ---- oracles on the implementation
            ctx.oracle("k schedule == [burn_in, steps, ...]", ks == [burn] + [steps] * (T - 1), case, detail={"k": ks},
                       sig=f"{sig0}/k-schedule", theorem=THEOREMS["schedule"])
            ctx.oracle("draws == ceil(num_samples / chains), chains as documented",
                       T == T_exp and all(cl["num_samples"] == c_exp and len(cl["ret_copy"]) == c_exp for cl in calls), case,
                       detail={"T": T, "T_expected": T_exp, "c_expected": c_exp, "c": [len(cl["ret_copy"]) for cl in calls]},
                       sig=f"{sig0}/count", theorem=THEOREMS["count"])
            cont = all(calls[i + 1]["init"] == calls[i]["ret"] and torch.equal(calls[i + 1]["init_copy"], calls[i]["ret_copy"])
                       for i in range(T - 1)) and all(cl["overwrite"] is True for cl in calls)
            ctx.oracle("each draw continues the chains returned by the previous one", cont, case,
                       detail={"inits": [cl["init"] for cl in calls], "rets": [cl["ret"] for cl in calls]},
                       sig=f"{sig0}/continuity", theorem=THEOREMS["schedule"])
            if user is not None:
                if backing is not None:
                    other = torch.ones_like(backing, dtype=torch.bool)
                    (other[:, 1::2] if form in ("cols", "f32cols") else other[1::2]).fill_(False)
                    ctx.oracle("elements of the caller's buffer outside the initial_state view are untouched",
                               bool((backing[other] == 7.0).all()), case, sig=f"{sig0}/outside-view", theorem=THEOREMS["schedule"])
                if ow and form in IN_PLACE_FORMS:
                    ctx.oracle("overwrite=True: the caller's tensor holds the final chain state",
                               bool(torch.equal(user, calls[-1]["ret_copy"])), case, sig=f"{sig0}/overwrite-final",
                               theorem=THEOREMS["schedule"])
                elif not ow:
                    ctx.oracle("overwrite=False: the caller's initial_state is untouched", bool(torch.equal(user, user_before)), case,
                               sig=f"{sig0}/untouched", theorem=THEOREMS["schedule"])
                first_ok = (calls[0]["init"] == 0) if ow else (calls[0]["init"] != 0 and all(cl["init"] != 0 for cl in calls))
                first_ok = first_ok and calls[0]["init_copy"] is not None and torch.equal(calls[0]["init_copy"], user_before)
                ctx.oracle("first draw starts from the user's chains (the tensor itself iff overwrite)", bool(first_ok), case,
                           detail={"inits": [cl["init"] for cl in calls]}, sig=f"{sig0}/start", theorem=THEOREMS["schedule"])
            else:
                ctx.oracle("first draw starts from fresh chains", calls[0]["init"] is None, case, sig=f"{sig0}/start",
                           theorem=THEOREMS["schedule"])
            for j, oi in enumerate(idxs):
                allv = [x for ch in vals[j] for x in ch]
                M, V, N = exact_stats(allv)
                sc = max(1.0, max(abs(x) for x in allv))
                d = r[j]
                ok = (d["num_samples"] == N == T * c_exp and N >= ns and stat_close(d["mean"], M, sc, 1e-9)
                      and var_close(d["variance"], V, sc) and se_close(d["std_error"], V, N, sc))
                ctx.oracle("result == one-pass statistics of every drawn sample", bool(ok), case,
                           detail={"impl": {k: float(x) for k, x in d.items()}, "expected": [float(M), None if V is None else float(V), N],
                                   "obs": oi}, sig=f"{sig0}/one-pass", theorem=THEOREMS["system"] if system else THEOREMS["stream"])
                if T >= 2 and len(set(allv)) > 1:
                    nontriv = True
        # ---- model
        if ctx.driver is not None:
            m = ctx.driver.call("c13.statistics", num_samples=ns, num_chains=nc, burn_in=burn, steps=steps, overwrite=ow,
                                system=system, clone_id=1, user_id=0, init_rows=None if user_before is None else len(case["init"]),
                                ret_ids=[cl["ret"] for cl in calls], chunks=[[bits(ch) for ch in v] for v in vals])
            mres = m["result"] if system else m["result"][0] if m["result"] else {"error": "no observable"}
            merr = mres.get("error") if isinstance(mres, dict) else None
            ctx.point("error kind", "property", err, merr, case, exact=True, sig=f"{sig0}/error-kind", theorem=THEOREMS["count"])
            if err is None and merr is None:
                mstats = mres["stats"] if system else [mres["stats"]]
                icalls = [{"num_samples": cl["num_samples"], "k": cl["k"], "init": cl["init"], "overwrite": cl["overwrite"]} for cl in calls]
                ctx.point("sampler calls (num_samples, k, initial_state identity, overwrite)", "property", icalls, mres["calls"], case,
                          exact=True, theorem=THEOREMS["schedule"], sig=f"{sig0}/calls")
                ctx.point("T and c", "property", [len(calls), c_exp], [m["T"], m["c"]], case, exact=True, theorem=THEOREMS["count"],
                          sig=f"{sig0}/T-c")
                for j, oi in enumerate(idxs):
                    allv = [x for ch in vals[j] for x in ch]
                    sc = max(1.0, max(abs(x) for x in allv))
                    d = r[j]
                    for key, lvl, mm in (("onepass", "property", m["onepass"][j]), ("stream", "aux", mstats[j])):
                        if "error" in mm:
                            ctx.point(f"{key}", lvl, "ok", mm["error"], case, exact=True, sig=f"{sig0}/{key}")
                            continue
                        th = THEOREMS["system"] if system else THEOREMS["stream"]
                        ctx.point(f"{key}.mean", lvl, [d["mean"]], unbits([mm["mean"]]), case, scale=sc, theorem=th, sig=f"{sig0}/{key}")
                        ctx.point(f"{key}.variance", lvl, [d["variance"]], unbits([mm["variance"]]), case,
                                  scale=var_scale(exact_stats(allv)[1], sc), theorem=th,
                                  sig=f"{sig0}/{key}")
                        ctx.point(f"{key}.std_error", lvl, [float(d["std_error"])], unbits([mm["std_error"]]), case, scale=sc, rtol=1e-5,
                                  atol=1e-7, theorem=th, sig=f"{sig0}/{key}")
                        ctx.point(f"{key}.num_samples", lvl, d["num_samples"], mm["n"], case, exact=True, theorem=th, sig=f"{sig0}/{key}")
    ctx.case(desc | {"seed": case["torch_seed"]}, nontrivial=nontriv,
             sample={"part": "statistics", **{k: desc[k] for k in ("ns", "nc", "burn_in", "steps", "overwrite", "system", "init_rows")},
                     "obs": [s["type"] for s in case["obs"]]})


# ---------------------------------------------------------------- generation
def gen_obs_specs(rng, n):
    def mock():
        return {"type": "mock", "w": [rng.randrange(-3, 4) for _ in range(n)],
                "off": rng.randrange(-2, 3) if rng.random() < 0.85 else rng.choice([1e8, -3e7, 1e9])}
    pool = [mock, mock, lambda: {"type": "SigmaZ"}, lambda: {"type": "SigmaX"},
            lambda: {"type": "NI", "periodic": rng.random() < 0.5},
            lambda: {**mock(), "type": "composite"}, lambda: {**mock(), "type": "composite2"}]
    return [rng.choice(pool)() for _ in range(rng.randrange(1, 4))]


def gen_state(rng):
    n = rng.randrange(2, 4)
    h = rng.randrange(1, 3)
    kind = rng.choice(["pos", "pos", "cplx"])
    s = {"kind": kind, "n": n, "h": h, "am": qc.rand_rbm_params(rng, n, h, rng.choice([0.1, 1.0]))}
    if kind == "cplx":
        s["ph"] = qc.rand_rbm_params(rng, n, h, 0.5)
    return s


def gen_stats_case(rng, ns, nc, system, user_rows=None, overwrite=False, init_form=None):
    st = gen_state(rng)
    n = st["n"]
    case = {"part": "statistics", "state": st, "obs": gen_obs_specs(rng, n), "ns": ns, "nc": nc,
            "burn_in": rng.randrange(0, 4), "steps": rng.randrange(0, 4),
            "init": None if user_rows is None else [[rng.randrange(2) for _ in range(n)] for _ in range(user_rows)],
            "overwrite": overwrite, "system": system, "torch_seed": rng.randrange(1 << 30)}
    if init_form is not None:
        case["init_form"] = init_form
    return case


SPECIAL_PAIRS = [(1, 0), (1, 1), (1, 5), (2, 1), (5, 1), (7, 3), (9, 4), (6, 0), (4, 10), (6, 3), (9, 9), (8, 5), (3, 2)]


def gen_cases(ctx, thorough):
    rng = ctx.rng
    # part A
    for _ in range(60 if thorough else 15):
        N = rng.randrange(2, 10)
        yield {"part": "merge", "xs": [float(rng.randrange(-6, 7)) for _ in range(N)]}
        yield {"part": "merge", "xs": [rng.gauss(0, 3) for _ in range(N)]}
    yield {"part": "merge", "xs": [2.0, 2.0, 2.0, 2.0]}
    yield {"part": "merge", "xs": [1e6 + 1, 1e6 + 2, 1e6 + 4, 1e6 - 3, 1e6, 1e6 + 9]}
    # |mean| >> spread: the variance must come out to relative accuracy, not to accuracy relative to mean^2
    for off in (1e8, -3e7, 1e9, 2.0 ** 40):
        N = rng.randrange(3, 10)
        yield {"part": "merge", "xs": [off + float(rng.randrange(-6, 7)) for _ in range(N)]}
        yield {"part": "merge", "xs": [off + round(rng.gauss(0, 2), 2) for _ in range(N)]}
    yield {"part": "formula", "args": [0, 0, 0, 0, 0, 0]}
    yield {"part": "formula", "args": [3, None, 0, 4, None, 1]}
    for _ in range(300 if thorough else 40):
        la, lb = rng.randrange(0, 6), rng.randrange(0, 6)
        yield {"part": "formula", "args": [rng.randrange(-9, 10), None if (la == 1 and rng.random() < 0.5) else rng.randrange(0, 20), la,
                                           rng.randrange(-9, 10), None if (lb == 1 and rng.random() < 0.5) else rng.randrange(0, 20), lb]}
    # part B
    pairs = [(ns, nc) for ns in range(1, 10) for nc in range(0, 11)]
    if not thorough:
        rng.shuffle(pairs)
        pairs = SPECIAL_PAIRS + pairs[:27]
    for (ns, nc) in pairs:
        for system in ((False, True) if thorough else (rng.random() < 0.5,)):
            yield gen_stats_case(rng, ns, nc, system)
    for _ in range(80 if thorough else 16):
        ow = rng.random() < 0.5
        yield gen_stats_case(rng, rng.randrange(1, 10), rng.randrange(0, 11), rng.random() < 0.5, user_rows=rng.randrange(1, 5),
                             overwrite=ow, init_form=rng.choice([f for f in INIT_FORMS if not (ow and f == "expand")]))
    # the caller's chains in every dtype / memory layout x overwrite on/off, at least two draws (usually more, also non-divisible counts):
    # the continuity observation (each sample() call starts from the tensor and content the previous call returned) and the
    # one-pass statistics must hold whether or not Gibbs sampling can work in place on the caller's tensor
    for rep in range(3 if thorough else 1):
        for form in INIT_FORMS:
            for ow in (False, True):
                if form == "expand" and ow:
                    continue  # writing through a stride-0 view is refused by torch
                rows = rng.randrange(1, 4)
                T = rng.randrange(2, 5)
                ns = rows * T - (rng.randrange(0, rows) if rng.random() < 0.4 else 0)
                yield gen_stats_case(rng, ns, rng.randrange(0, 5), rng.random() < 0.4, user_rows=rows, overwrite=ow, init_form=form)
    # two consecutive runs on the same observable / System / state objects with different configurations
    for _ in range(60 if thorough else 12):
        ns, nc = rng.choice(SPECIAL_PAIRS + [(rng.randrange(1, 10), rng.randrange(0, 11))])
        ur = rng.choice([None, None, rng.randrange(1, 4)])
        c = gen_stats_case(rng, ns, nc, rng.random() < 0.5, user_rows=ur, overwrite=rng.random() < 0.5)
        n_ = c["state"]["n"]
        br = rng.choice([None, rng.randrange(1, 5)])
        c["before"] = {"ns": rng.randrange(1, 10), "nc": rng.randrange(0, 6), "burn_in": rng.randrange(0, 4), "steps": rng.randrange(0, 4),
                       "rows": None if br is None else [[rng.randrange(2) for _ in range(n_)] for _ in range(br)],
                       "overwrite": rng.random() < 0.5, "torch_seed": rng.randrange(1 << 30)}
        yield c
    # malformed stream: nothing requested / no chains
    yield gen_stats_case(rng, 0, 0, False)
    yield gen_stats_case(rng, 0, 3, True)
    yield gen_stats_case(rng, 0, 2, False, user_rows=2)
    yield gen_stats_case(rng, 0, 2, True, user_rows=2, overwrite=True)
    yield gen_stats_case(rng, 3, 2, False, user_rows=0)


def one_case(ctx, case):
    if case["part"] == "merge":
        merge_case(ctx, case)
    elif case["part"] == "formula":
        formula_case(ctx, case)
    else:
        stats_case(ctx, case)


def run(ctx):
    ctx.rule = RULE
    for case in gen_cases(ctx, ctx.tier == "thorough"):
        one_case(ctx, case)


def search(ctx):
    """larger oracle-only sweep used when a proof obligation / auxiliary correspondence point is broken"""
    drv, ctx.driver = ctx.driver, None
    try:
        for case in gen_cases(ctx, True):
            one_case(ctx, case)
    finally:
        ctx.driver = drv


def replay(ctx, case):
    # replay files carry the sub-case fields (split / chunk) too; the whole case is re-run
    one_case(ctx, {k: v for k, v in case.items() if k not in ("split", "chunk")})
