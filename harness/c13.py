"""C13 — correspondence of the streaming-statistics model (QV.Model.Stats: updateStatistics / fromSamples /
obsStatistics / sysStatistics / draws / chainSetup / numTimeSteps) with `_update_statistics`,
`ObservableBase.statistics(_from_samples)` and `System.statistics`, plus the property oracles evaluated on the
implementation (one-pass numpy / exact-rational statistics of the captured chain states, the k schedule, the count,
chain continuity, caller's tensor untouched unless overwrite).

`nn_state.sample` is wrapped ON THE INSTANCE to capture k, the chain states (copies) and object identities."""
import itertools
import math
from fractions import Fraction

import numpy as np

from . import qc
from .common import bits, f2b, unbits
from .qc import torch

from qucumber.observables import NeighbourInteraction, ObservableBase, SigmaX, SigmaY, SigmaZ, SWAP, System  # noqa: E402
from qucumber.observables import observable as _obs_module  # noqa: E402

# the pairwise-merge routine is named by the property ("the pairwise-merge routine"), not its private identifier: it is looked up where
# `ObservableBase.statistics` itself finds it; when it is not there under that name (renamed / inlined) the merge part runs through the
# public `statistics` only (equal chunkings, value-table observable) instead of crashing the check
_update_statistics = getattr(_obs_module, "_update_statistics", None)
if _update_statistics is None:
    try:
        from qucumber.observables import utils as _obs_utils  # noqa: E402
        _update_statistics = getattr(_obs_utils, "_update_statistics", None)
    except Exception:  # noqa: BLE001
        _update_statistics = None

FILES = ["qucumber/observables/utils.py", "qucumber/observables/observable.py", "qucumber/observables/system.py",
         "qucumber/nn_states/neural_state.py"]
EXTRA_TRUSTED = ["C13: nn_state.sample is an arbitrary function of (call number, call) in the model; the harness replays the recorded run (returned tensor identities, per-draw observable values); torch.var_mean is assumed to be the unbiased two-pass variance up to rounding"]
REQUIRED_THEOREMS = ["C13_merge", "C13_merge_empty_left", "C13_merge_empty_right", "C13_stream", "C13_count", "C13_schedule",
                     "C13_system", "C13_system_init", "C13_system_dict", "C13_system_nodup", "C13_statistics_one_pass",
                     "C13_fromSamples", "C13_system_fromSamples", "C13_sample", "C13_system_empty",
                     "C13_system_keys_of_names", "C13_to01_toPm1", "C13_toPm1_to01",   # extension round 2: names as keys; to_01
                     "C13_mean_stationary",   # extension round X3: expectation of the reported mean under a stationary sampler
                     "C13_gen_update_eq_model", "C13_gen_merge"]   # X6: translated _update_statistics = model
THEOREMS = {
    "merge": "C13_merge, C13_merge_empty_left, C13_merge_empty_right",
    "stream": "C13_stream, C13_statistics_one_pass",
    "count": "C13_count, C13_count_chains",
    "schedule": "C13_schedule, C13_schedule_threaded, C13_schedule_start, C13_schedule_untouched",
    "system": "C13_system_dict, C13_system_nodup, C13_system, C13_system_count, C13_system_empty",
    "keys": "C13_system_init",
    "from": "C13_fromSamples",
    "sysfrom": "C13_system_fromSamples, C13_system_init",
    "sample": "C13_sample",
}
# the FINDING of the audit round (proposed/F-C13-same-name-merged.md): reported only when two observables with the same name but
# different per-sample values were given to one System (the earlier one's statistics are silently replaced by the later one's)
SIG_MERGED = "System/same-name-observables-merged"
RULE = ("merge cases: a random dataset (2..9 values; small integers, or gaussians) and EVERY split into two consecutive parts "
        "(incl. an empty left part and an empty right part) and every chunking into T equal chunks; statistics cases: (num_samples, "
        "num_chains, burn_in, "
        "steps, user chains or not [dtype float64/32/16, int64, uint8, bool; contiguous, strided row/column views of a larger buffer, "
        "transposed, stride-0 expand], overwrite, set of observables (also the empty System()), single/System) with num_samples <= 9, "
        "num_chains <= 10 (all pairs in thorough, a seeded subset plus the special pairs in quick; a few cases with 100..1000 samples), "
        "burn_in/steps in 0..3 and the documented defaults burn_in=1000, steps=1; every `statistics` call passes a positional prefix of "
        "the documented argument order and the rest by keyword, and (cases marked omit, else with probability 0.4) LEAVES OUT every "
        "option whose value is the documented default; real Gibbs sampling on a small random "
        "Positive / Complex / Density state with nn_state.sample wrapped on the instance; observables: integer-weight mocks, SigmaX/Y/Z "
        "(plain and absolute), NeighbourInteraction, SWAP, composites - under the library's own names, incl. sets in which two "
        "observables share a name (SigmaX() with SigmaX(absolute=True), equal NeighbourInteractions / composites, SWAP([0]) with "
        "SWAP([1]), same-named mocks); from_samples cases: statistics_from_samples of each observable / of System(...) on batches of "
        "0..9 rows; sample cases: ObservableBase.sample with every argument form. Argument forms: every integer option is handed over as a Python "
        "int / np.int64 / np.int32 / np.intp / 0-d numpy array (all options), np.uint8 (burn_in, steps, k only) or 0-d torch tensor "
        "(burn_in, steps, k, num_samples of ObservableBase.sample, NeighbourInteraction c only) and every boolean option (overwrite, absolute, "
        "periodic_bcs, the constructors' gpu) as bool / int / np.bool_ / numpy comparison result / 0-d numpy array / 0-d torch tensor - "
        "only the forms the unchanged code accepts for that option -, by keyword or as a positional prefix of the documented order, drawn "
        "from two per-case streams seeded by the case's fseed / iseed (stored cases without them: plain Python values by keyword). "
        "Sampler calls are compared after canonicalising what the sampler ignores (num_samples next to an initial_state, overwrite "
        "without one); num_samples = 0 / a zero-row initial_state are outside the quantifier: outcome counted only. "
        "non-trivial iff at least two draws are merged and the "
        "captured values are not all equal (statistics), >= 2 rows with different values (from_samples); distinct by hash of the case")


# ---------------------------------------------------------------- helpers
def exact_stats(xs):
    """one-pass statistics in exact rational arithmetic"""
    fx = [Fraction(x) for x in xs]
    n = len(fx)
    m = sum(fx) / n
    v = sum((x - m) ** 2 for x in fx) / (n - 1) if n > 1 else None
    return m, v, n


def stat_close(a, b, scale, rtol=1e-9):
    a = float(a)
    b = float(b)
    if math.isnan(a) or math.isnan(b):
        return math.isnan(a) and math.isnan(b)
    return abs(a - b) <= rtol * max(scale, abs(a), abs(b))


def var_tol(V, scale):
    """admissible error of a variance V of data of magnitude `scale` computed by a numerically stable method (two-pass chunks +
    delta-based merges): relative 1e-9, plus the rounding of the chunk means entering the merge term (~ eps*scale*sqrt(V)).
    Deliberately NOT relative to scale^2: cancellation between sums of squares is an error of the result."""
    V = abs(float(V))
    return 1e-9 * V + 1e-11 * scale * math.sqrt(V) + 1e-20 * scale * scale


def var_close(a, V, scale):
    a = float(a)
    if V is None:
        return math.isnan(a)
    return (not math.isnan(a)) and abs(a - float(V)) <= var_tol(V, scale)


def se_close(a, V, N, scale):
    a = float(a)
    if V is None:
        return math.isnan(a)
    V = max(float(V), 0.0)
    se = math.sqrt(V / N)
    tol = (var_tol(V, scale) / (2 * math.sqrt(V * N)) + 1e-9 * se) if V > 0 else math.sqrt(var_tol(0.0, scale) / N)
    return (not math.isnan(a)) and abs(a - se) <= max(tol, 1e-300)


def var_scale(V, scale):
    """`scale` argument for ctx.point on a variance: atol 1e-9 * scale * sqrt(V) (see var_tol)"""
    return max(1e-6, scale * math.sqrt(abs(float(V)))) if V is not None else 1.0


# ---------------------------------------------------------------- argument forms (round 5)
# Every boolean / integer option of every public call is handed over as one of the objects a caller may really pass (qc.FLAG_FORMS /
# qc.INT_FORMS), by keyword or positionally, drawn from two per-case streams seeded by the case's "fseed" / "iseed" (a case without
# these keys - corpus/, old replays - gets plain Python values by keyword, exactly as before).  Forms the CLEAN code rejects or
# mishandles are left out per option (probe: notes/C13.md, "Argument-form sweep"):
#  * a Python float with integral value: rejected everywhere (TypeError from range() / torch.Size) - never passed;
#  * num_samples / num_chains of statistics as a 0-d torch tensor: accepted, but all arithmetic on the counts then happens in torch's
#    default float32 and the dictionary holds float32 tensors (relative error ~1e-8) - left out;
#  * num_samples / num_chains / merge lengths as np.uint8: accepted by the clean code (identical results while every count stays
#    below 256), but UNSIGNED counts wrap under negation / subtraction (-np.uint8(7) == 249, np.uint8(0) - 1 == 255), so rewrites
#    that are exact for every signed integer - ceil as -(-a // b) in benign/C13_2, max(len - 1, 0) - would raise false alarms:
#    left out for every count (also num_samples of ObservableBase.sample), kept for the pure loop counts burn_in, steps, k;
#  * NeighbourInteraction(c=np.uint8(..)): `-c` wraps to 256 - c, silently another observable - left out (outside C13);
#  * _update_statistics lengths as 0-d torch tensors: float32 results as above - left out.
COUNT_FORMS = tuple(f for f in qc.INT_FORMS if f not in ("t0d", "np.uint8"))   # num_samples, num_chains of statistics; merge lengths
STEP_FORMS = tuple(qc.INT_FORMS)                                   # burn_in, steps of statistics; k of ObservableBase.sample
SAMPLE_NS_FORMS = tuple(f for f in qc.INT_FORMS if f != "np.uint8")  # num_samples of ObservableBase.sample (0-d tensor: accepted, exact)
NI_C_FORMS = tuple(f for f in qc.INT_FORMS if f != "np.uint8")    # NeighbourInteraction(c=...)


def plain(x):
    """the VALUE (Python int / bool) of an integer / boolean option object in any of the forms of qc.INT_FORMS / qc.FLAG_FORMS;
    anything else is returned unchanged"""
    if isinstance(x, (bool, np.bool_)):
        return bool(x)
    if isinstance(x, (int, np.integer)):
        return int(x)
    if isinstance(x, np.ndarray) and x.ndim == 0 and x.dtype.kind in "biu":
        return bool(x) if x.dtype.kind == "b" else int(x)
    if isinstance(x, torch.Tensor) and x.dim() == 0 and not (x.is_floating_point() or x.is_complex()):
        return bool(x) if x.dtype == torch.bool else int(x)
    return x


class Forms:
    """the two seeded streams of ONE case (qc.Flags(case["fseed"]), qc.Ints(case["iseed"])); they are consumed in the fixed order in
    which the case's calls are made, so a replay hands over the very same objects.  Counts every form used."""

    def __init__(self, ctx, case):
        self.ctx = ctx
        self.fl = qc.Flags(case.get("fseed"))
        self.it = qc.Ints(case.get("iseed"))
        # a 0-d numpy array and a 0-d torch tensor never meet in ONE case: arithmetic between the two (np.array(7) - torch.tensor(2))
        # raises TypeError inside NumPy / Torch themselves, so a harmless rewrite computing with two options would raise a false alarm;
        # which of the two forms a case may use is decided by the parity of its iseed
        self.excluded = None if case.get("iseed") is None else ("t0d" if case["iseed"] % 2 else "np0d")
        # "omit": every option of a `statistics` call whose value equals the DOCUMENTED default is left out of the call (True: always;
        # absent: drawn per call from the integer stream; stored cases without streams: never - their calls stay literally the old ones)
        self.omit = case.get("omit")

    def flag(self, what, b, keyword_only=False):
        """-> (object to pass for the truth value b, hand it over positionally?)"""
        obj, d = self.fl(b)
        pos = bool(d["pos"]) and not keyword_only
        self.ctx.count(f"{what} given as {d['form']}:{'positional' if pos else 'keyword'}")
        return obj, pos

    def int(self, what, n, allowed=qc.INT_FORMS):
        obj, d = self.it(n, tuple(f for f in allowed if f != self.excluded) or ("py",))
        self.ctx.count(f"{what} given as {d['form']}")
        return obj

    def prefix(self, what, nmax, full=False):
        """how many leading optional arguments are passed positionally (0 for cases without streams; all of them when `full`)"""
        p = nmax if full else (0 if self.it.rng is None else self.it.rng.choice([0, 0] + list(range(1, nmax + 1))))
        self.ctx.count(f"{what}: {p} positional arguments")
        return p


def call_with_prefix(fn, first, named, p):
    """fn(first, <the first p of `named` positionally>, <the rest by keyword>); `named`: ordered list of (name, object)"""
    return fn(first, *[v for _, v in named[:p]], **{k: v for k, v in named[p:]})


class MockObs(ObservableBase):
    def __init__(self, w, off, name):
        self.w = torch.tensor(w, dtype=torch.double)
        self.off = float(off)
        self.name = name
        self.symbol = name

    def apply(self, nn_state, samples):
        return samples.to(torch.double).matmul(self.w).add(self.off)


def chunk_stats(xs):
    """(mean, variance) of one chunk the way the library computes them (torch.var_mean; nan for one value)"""
    t = torch.tensor(xs, dtype=torch.double)
    v, m = torch.var_mean(t)
    return m.item(), v.item()


class TableObs(ObservableBase):
    """value-table observable: the i-th call of `apply` returns the i-th chunk of a given dataset (whatever the chain states are)"""

    def __init__(self, chunks):
        self.chunks, self.i = chunks, 0
        self.name = self.symbol = "Table"

    def apply(self, nn_state, samples):
        ch = self.chunks[self.i]
        self.i += 1
        assert len(samples) == len(ch)
        return torch.tensor(ch, dtype=torch.double)


def fold_public(chunks, c):
    """the fold over equal chunks through the PUBLIC `ObservableBase.statistics` (num_chains = c, one draw per chunk, no Gibbs steps):
    used when the merge routine cannot be called directly -> (mean, variance, count)"""
    import random
    st = qc.make_positive(2, 1, qc.rand_rbm_params(random.Random(0), 2, 1, 0.1))
    d = TableObs(chunks).statistics(st, sum(len(ch) for ch in chunks), num_chains=c, burn_in=0, steps=0)
    return d["mean"], d["variance"], plain(d["num_samples"])


# ---------------------------------------------------------------- part A: the pairwise merge
def merge_case(ctx, case):
    xs = case["xs"]
    N = len(xs)
    integral = all(float(x).is_integer() for x in xs)
    scale = max(1.0, max(abs(x) for x in xs))
    M, V, _ = exact_stats(xs)
    ctx.case(case, nontrivial=len(set(xs)) > 1 and N >= 3, sample={"part": "merge", "xs": xs})
    ctx.count("merge_dataset"); ctx.count(f"merge_N={N}"); ctx.count("merge_integral" if integral else "merge_float")
    F = Forms(ctx, case)   # the two lengths in the forms in which `statistics` may hand them on (a caller's num_chains; their sums)
    if _update_statistics is None:
        ctx.count("merge routine not callable under its private name: equal chunkings run through the public statistics() only")
    for s in (range(0, N + 1) if _update_statistics is not None else ()):
        a, b = xs[:s], xs[s:]
        sub = {**case, "split": s}
        if s == 0:
            ma, va = 0.0, 0.0  # the state before the first draw
        else:
            ma, va = chunk_stats(a)
        if s == N:
            mb, vb = 0.0, 0.0  # an empty right part, described like the empty running state (C13_merge_empty_right)
            ctx.count("merge_split_right_empty")
        else:
            mb, vb = chunk_stats(b)
        la, lb = F.int("merge len_a", len(a), COUNT_FORMS), F.int("merge len_b", len(b), COUNT_FORMS)
        r = _update_statistics(ma, va, la, mb, vb, lb)
        r = (r[0], r[1], plain(r[2]))
        ok = (r[2] == N and stat_close(r[0], M, scale) and
              var_close(r[1], V, scale))
        ctx.oracle("merge == one-pass statistics of the concatenation", ok, sub,
                   detail={"impl": [float(r[0]), float(r[1]), r[2]], "expected": [float(M), None if V is None else float(V), N]},
                   sig="merge/oracle", theorem=THEOREMS["merge"])
        ctx.count("merge_split")
        # a one-value chunk's reported variance must not matter
        if len(a) == 1 or len(b) == 1:
            r2 = _update_statistics(ma, 123.25 if len(a) == 1 else va, la, mb, -7.5 if len(b) == 1 else vb, lb)
            same = all(stat_close(x, y, scale * scale, 1e-12) for x, y in zip(r[:2], r2[:2])) and r[2] == r2[2]
            ctx.oracle("singleton variance is ignored", same, sub, detail={"nan": list(map(float, r[:2])), "junk": list(map(float, r2[:2]))},
                       sig="merge/singleton-ignored", theorem=THEOREMS["merge"])
            ctx.count("merge_singleton")
        if ctx.driver is not None:
            m = ctx.driver.call("c13.update", avg_a=f2b(ma), var_a=f2b(va), len_a=len(a), avg_b=f2b(mb), var_b=f2b(vb), len_b=len(b))
            ctx.point("merge.mean", "property", [r[0]], unbits([m["mean"]]), sub, scale=scale, theorem=THEOREMS["merge"], sig="merge/mean")
            ctx.point("merge.variance", "property", [r[1]], unbits([m["variance"]]), sub, scale=var_scale(V, scale), theorem=THEOREMS["merge"],
                      sig="merge/variance")
            ctx.point("merge.len", "property", r[2], m["n"], sub, exact=True, theorem=THEOREMS["merge"], sig="merge/len")
    # every chunking into T equal chunks, folded with the real routine the way `statistics` folds it
    for c in range(1, N + 1):
        if N % c:
            continue
        chunks = [xs[i:i + c] for i in range(0, N, c)]
        rm, rv, rl = 0.0, 0.0, 0
        cf = F.int("fold chunk length", c, COUNT_FORMS)
        if _update_statistics is None:
            rm, rv, rl = fold_public(chunks, cf)
        for ch in (chunks if _update_statistics is not None else ()):
            mb, vb = chunk_stats(ch)
            rm, rv, rl = _update_statistics(rm, rv, rl, mb, vb, cf)   # the running length stays whatever the routine returned
        rl = plain(rl)
        sub = {**case, "chunk": c}
        ok = (rl == N and stat_close(rm, M, scale) and var_close(rv, V, scale))
        ctx.oracle("fold over equal chunks == one-pass", ok, sub, detail={"impl": [float(rm), float(rv), rl]}, sig="fold/oracle",
                   theorem=THEOREMS["stream"])
        ctx.count(f"fold_c={c}")
        if ctx.driver is not None:
            m = ctx.driver.call("c13.fold", c=c, chunks=[bits(ch) for ch in chunks])
            for key, lvl in (("onepass", "property"), ("stream", "aux")):
                mm = m[key]
                if "error" in mm:
                    ctx.point(f"fold.{key}", lvl, "ok", mm["error"], sub, exact=True, sig=f"fold/{key}")
                    continue
                ctx.point(f"fold.{key}.mean", lvl, [rm], unbits([mm["mean"]]), sub, scale=scale, theorem=THEOREMS["stream"], sig=f"fold/{key}")
                ctx.point(f"fold.{key}.variance", lvl, [rv], unbits([mm["variance"]]), sub, scale=var_scale(V, scale), theorem=THEOREMS["stream"],
                          sig=f"fold/{key}")
                ctx.point(f"fold.{key}.n", lvl, rl, mm["n"], sub, exact=True, theorem=THEOREMS["stream"], sig=f"fold/{key}")


def formula_case(ctx, case):
    """the merge formula on arbitrary small-integer operands (not statistics of any dataset): model and code compute the same real
    number; compared with a relative tolerance of 1e-12 (NOT bit for bit: an algebraically equal re-arrangement of the formula is as good)"""
    a = case["args"]
    ctx.case(case, nontrivial=a[2] > 0 and a[5] > 0, sample={"part": "formula", "args": a})
    ctx.count("formula_case")
    if (a[2] == 0 and a[5] == 0) or _update_statistics is None:
        return  # nothing merged with nothing: never happens in a statistics run, the returned placeholder is not constrained by the property
    va = float("nan") if a[1] is None else float(a[1])
    vb = float("nan") if a[4] is None else float(a[4])
    F = Forms(ctx, case)
    r = _update_statistics(float(a[0]), va, F.int("merge len_a", a[2], COUNT_FORMS), float(a[3]), vb, F.int("merge len_b", a[5], COUNT_FORMS))
    r = (r[0], r[1], plain(r[2]))
    if ctx.driver is not None:
        m = ctx.driver.call("c13.update", avg_a=f2b(a[0]), var_a=f2b(va), len_a=a[2], avg_b=f2b(a[3]), var_b=f2b(vb), len_b=a[5])
        ms = max(1.0, abs(float(a[0])), abs(float(a[3])))
        vs = max(1.0, abs(va) if not math.isnan(va) else 0.0, abs(vb) if not math.isnan(vb) else 0.0, (float(a[3]) - float(a[0])) ** 2)
        ctx.point("formula.mean", "aux", [r[0]], unbits([m["mean"]]), case, scale=ms, rtol=1e-12, atol=1e-12, sig="formula/mean")
        ctx.point("formula.variance", "aux", [r[1]], unbits([m["variance"]]), case, scale=vs, rtol=1e-12, atol=1e-12, sig="formula/variance")
        ctx.point("formula.len", "aux", r[2], m["n"], case, exact=True, sig="formula/len")


# ---------------------------------------------------------------- part B: statistics / System.statistics
def make_obs(spec, n, idx, F=None):
    """the observable of a spec, under the LIBRARY's own name (mocks: spec["name"], default O<idx>); `F` (Forms): the constructors'
    boolean / integer options (absolute, periodic_bcs, c) are handed over in the forms of the case's streams, keyword or positional"""
    t = spec["type"]
    mname = spec.get("name", f"O{idx}")

    def pauli(cls, absolute):
        if F is None:
            return cls(absolute=absolute)
        a, pos = F.flag("absolute", absolute)
        return cls(a) if pos else cls(absolute=a)
    if t == "mock":
        o = MockObs(spec["w"], spec["off"], mname)
    elif t == "SigmaZ":
        o = pauli(SigmaZ, spec.get("absolute", False))
    elif t == "SigmaX":
        o = pauli(SigmaX, spec.get("absolute", False))
    elif t == "SigmaY":
        o = pauli(SigmaY, spec.get("absolute", False))
    elif t == "NI":
        if F is None:
            o = NeighbourInteraction(periodic_bcs=spec["periodic"], c=spec.get("c", 1))
        else:
            pb, pos = F.flag("periodic_bcs", spec["periodic"])
            c = F.int("NeighbourInteraction c", spec.get("c", 1), NI_C_FORMS)
            o = NeighbourInteraction(pb, c) if pos else NeighbourInteraction(periodic_bcs=pb, c=c)
    elif t == "SWAP":
        o = SWAP(spec["A"])
    elif t == "composite":
        # -NI - 3*SigmaZ + 1 - 2*mock   (built with the real operators)
        o = -NeighbourInteraction(c=1) - 3 * SigmaZ() + 1 - 2 * MockObs(spec["w"], spec["off"], mname + "m")
    elif t == "composite2":
        o = 0.5 * (SigmaX() + MockObs(spec["w"], spec["off"], mname + "m")) - np.float64(2.0)
    elif t == "composite3":
        # same NAME "(SigmaX + 1)" whether or not the leaf takes absolute values
        o = pauli(SigmaX, spec.get("absolute", False)) + 1
    else:
        raise ValueError(t)
    return o


def make_state(s, F=None):
    """`F` (Forms): the constructors' `gpu` option is a falsy object of one of qc.FLAG_FORMS (first draw of the case's flag stream)"""
    gpu = False if F is None else F.flag("gpu", False, keyword_only=True)[0]
    if s["kind"] == "pos":
        return qc.make_positive(s["n"], s["h"], s["am"], gpu=gpu)
    if s["kind"] == "dens":
        return qc.make_density(s["n"], s["h"], s["a"], s["am"], s["ph"], gpu=gpu)
    return qc.make_complex(s["n"], s["h"], s["am"], s["ph"], gpu=gpu)


def first_occ(names):
    out = []
    for nm in names:
        if nm not in out:
            out.append(nm)
    return out


class Recorder:
    """wraps nn_state.sample on the instance; numbers tensor objects by identity (user's tensor = 0)"""

    def __init__(self, nn_state, user):
        self.calls = []
        self.keep = []  # keep every tensor alive so that ids are never reused
        self.tokens = {}
        if user is not None:
            self.tokens[id(user)] = 0
            self.keep.append(user)
        self.orig = nn_state.sample
        nn_state.sample = self  # instance attribute shadows the method

    def tok(self, t):
        if t is None:
            return None
        if id(t) not in self.tokens:
            self.tokens[id(t)] = 1 + sum(1 for v in self.tokens.values() if v != 0)
            self.keep.append(t)
        return self.tokens[id(t)]

    def __call__(self, k, num_samples=1, initial_state=None, overwrite=False):
        # recorded by VALUE (a numpy integer / 0-d array / 0-d tensor handed on by the library counts as the int it denotes); the
        # objects themselves are passed on unchanged
        rec = {"k": plain(k), "num_samples": plain(num_samples), "init": self.tok(initial_state), "overwrite": plain(overwrite),
               "init_copy": None if initial_state is None else initial_state.clone()}
        out = self.orig(k=k, num_samples=num_samples, initial_state=initial_state, overwrite=overwrite)
        rec["ret"] = self.tok(out)
        rec["ret_copy"] = out.clone()
        self.calls.append(rec)
        return out


def record_run(st, user, fn):
    """run fn(user) with st.sample wrapped on the instance -> (result, error name, recorded calls)"""
    rec = Recorder(st, user)
    r, err = None, None
    try:
        r = fn(user)
    except Exception as e:  # noqa: BLE001
        err = type(e).__name__
    finally:
        del st.sample  # remove the instance wrapper
    return r, err, rec.calls


INIT_FORMS = ("f64", "f32", "f16", "i64", "u8", "bool", "cols", "rows", "T", "f32cols", "expand")
IN_PLACE_FORMS = ("f64", "cols", "rows", "T")   # float64 tensors: `.to(weights)` is the identity, Gibbs steps write into the caller's tensor


def make_user(rows, n, form):
    """the caller's initial_state in the given dtype / memory layout -> (tensor, backing buffer or None).
    f64 / f32 / f16 / i64 / u8 / bool: contiguous tensors of that dtype; cols / rows: strided views of a larger float64 buffer;
    T: transposed (column-major) float64; f32cols: strided float32 view; expand: one row broadcast with stride 0 (read-only use)"""
    base = torch.tensor(rows, dtype=torch.double).reshape(len(rows), n)
    R = len(rows)
    if form == "f64":
        return base, None
    if form in ("f32", "f16", "i64", "u8", "bool"):
        return base.to({"f32": torch.float32, "f16": torch.float16, "i64": torch.int64, "u8": torch.uint8, "bool": torch.bool}[form]), None
    if form in ("cols", "f32cols"):
        big = torch.full((R, 2 * n + 1), 7.0, dtype=torch.double if form == "cols" else torch.float32)
        big[:, 1::2] = base.to(big.dtype)
        return big[:, 1::2], big
    if form == "rows":
        big = torch.full((2 * R + 1, n), 7.0, dtype=torch.double)
        big[1::2] = base
        return big[1::2], big
    if form == "T":
        return base.t().contiguous().t(), None
    if form == "expand":
        return base[0:1].expand(R, n), None
    raise ValueError(form)


STAT_ARGS = ("num_samples", "num_chains", "burn_in", "steps", "initial_state", "overwrite")   # the documented order after nn_state
# the DOCUMENTED defaults of both `statistics` methods (docstrings / signatures of ObservableBase.statistics and System.statistics):
# the model is always told these values when an option is left out, so a changed default is a mismatch
STAT_DEFAULTS = {"num_chains": 0, "burn_in": 1000, "steps": 1, "initial_state": None, "overwrite": False}


def canon_call(cl):
    """one recorded sampler call, reduced to what the sampler's documented contract makes observable: `num_samples` is ignored when an
    `initial_state` is given (the row count of that tensor counts: canonical value = its rows) and `overwrite` is meaningless without
    one (canonical value True, the model's); k and the identity token of initial_state are kept as they are"""
    has = cl["init_copy"] is not None
    return {"num_samples": len(cl["init_copy"]) if has else cl["num_samples"], "k": cl["k"], "init": cl["init"],
            "overwrite": cl["overwrite"] if has else True}


def stat_call(F, what, target, st, ns, nc, burn, steps, init, ow):
    """ONE call of `target.statistics` (an observable or a System): the four integer options and `overwrite` are drawn from the case's
    streams (forms the clean code accepts), and a prefix of the documented argument order is passed positionally"""
    ow_obj, ow_pos = F.flag(f"{what} overwrite", ow)
    vals = {"num_samples": F.int(f"{what} num_samples", ns, COUNT_FORMS), "num_chains": F.int(f"{what} num_chains", nc, COUNT_FORMS),
            "burn_in": F.int(f"{what} burn_in", burn, STEP_FORMS), "steps": F.int(f"{what} steps", steps, STEP_FORMS),
            "initial_state": init, "overwrite": ow_obj}
    p = F.prefix(what, len(STAT_ARGS), full=ow_pos)
    named = [(k, vals[k]) for k in STAT_ARGS]
    rng = F.it.rng
    if F.omit or (F.omit is None and rng is not None and rng.random() < 0.4):
        # the forms users write: `obs.statistics(state, N)`, `System.statistics(state, N, burn_in=..)`, `statistics(state, N,
        # initial_state=c)` - every option behind the positional prefix whose value is the documented default is simply not passed
        plainv = {"num_chains": nc, "burn_in": burn, "steps": steps, "initial_state": init, "overwrite": ow}
        if F.omit:
            p = min(p, 1)                                   # marked cases: `statistics(state, N, <keywords>)`
        elif p == len(STAT_ARGS) and ow is False:
            p = 0 if rng is None else rng.randrange(0, 3)   # a positional `overwrite` default would keep every option in the call
        omitted = [k for k in STAT_ARGS[p:] if k in STAT_DEFAULTS and (plainv[k] is None if k == "initial_state" else
                                                                         (plainv[k] is not None and plainv[k] == STAT_DEFAULTS[k]))]
        named = named[:p] + [(k, v) for k, v in named[p:] if k not in omitted]
        for k in omitted:
            F.ctx.count(f"{what} {k} omitted (documented default)")
        F.ctx.count(f"{what}: call with {len(omitted)} options omitted")
    return call_with_prefix(target.statistics, st, named, p)


def spinconv_case(ctx, case):
    """`to_01` next to `to_pm1` (observables/utils.py): entry-wise `(x + 1) / 2` and `2 x - 1` (Observables.to01 / toPm1), inverse to each
    other (C13_to01_toPm1, C13_toPm1_to01).  Not part of C13's text: recorded only (ctx.info, audit 3); the round trip on the conventions' own values is exact."""
    from qucumber.observables import utils as U
    xs, dt = case["xs"], case["dtype"]
    if dt == "i64" and any(x != int(x) for x in xs):
        dt = "f64"
    tdt = {"f64": torch.double, "f32": torch.float32, "i64": torch.int64}[dt]
    t = torch.tensor(xs, dtype=torch.double).to(tdt)
    if case.get("rows"):
        t = t.repeat(case["rows"], 1)            # batched form: the conversion is entry-wise
    ctx.case({"spinconv": xs, "dtype": dt, "rows": case.get("rows")}, nontrivial=len(xs) >= 2, sample={"part": "spinconv", "kind": case["kind"], "dtype": dt})
    ctx.count(f"spinconv:{case['kind']}:{dt}:{'batched' if case.get('rows') else 'vector'}")
    before = t.clone()
    got01 = U.to_01(t)
    gotpm = U.to_pm1(t)
    # audit 3 (B12): to_01 / to_pm1 are helpers C13's text does not name (to_01 is never called by the library): recorded only, no verdict
    ctx.info("spinconv/no-mutation: to_01 / to_pm1 leave their argument unchanged", bool(torch.equal(t, before)), True)
    flat = [float(v) for v in t.reshape(-1).to(torch.double).tolist()]
    if case["kind"] in ("pm1", "01"):
        rt = U.to_pm1(U.to_01(t)) if case["kind"] == "pm1" else U.to_01(U.to_pm1(t))
        # audit 3 (B12): the spin-convention helpers are outside C13's statement -> info, never an alarm
        ctx.info("spinconv/round-trip: round trip through the other spin convention", [float(v) for v in rt.reshape(-1).tolist()], flat)
    if ctx.driver is not None:
        m = ctx.driver.call("c13.spinconv", xs=bits(flat))
        tol = 1e-6 if dt == "f32" else 1e-12

        def close(a, b):
            return len(a) == len(b) and all(abs(x - y) <= tol * (1.0 + abs(y)) for x, y in zip(a, b))
        # audit 3 (B12): to_01 / to_pm1 values against the Lean lemmas C13_to01_* - helpers not named by C13 (lemmas only): info
        ctx.info("spinconv/to_01", close([float(v) for v in got01.reshape(-1).tolist()], unbits(m["to_01"])), True)
        ctx.info("spinconv/to_pm1", close([float(v) for v in gotpm.reshape(-1).tolist()], unbits(m["to_pm1"])), True)
        ctx.info("spinconv/model-inverse: model to_01(to_pm1(x)) == x", close(flat, unbits(m["to_01_to_pm1"])), True)


# names of the observables = the keys of System's dictionaries (extension round 2): the model's names (Observables.Builtin.names,
# Composite.buildN) computed from the constructor arguments / the expression, never from `.name`
def name_model_input(spec, o, idx):
    """-> (leaf descriptions, expression over them) of the observable `o` made from `spec` by make_obs, or None (not denotable: a non-integer
    scalar)"""
    from . import c16
    t = spec["type"]
    mname = spec.get("name", f"O{idx}")
    if t == "mock":
        return [c16.leaf_ident(o, (mname, mname))], ["leaf", 0]
    if t in ("SigmaX", "SigmaY", "SigmaZ", "NI", "SWAP"):
        return [c16.leaf_ident(o)], ["leaf", 0]
    if t == "composite":
        # -NI(c=1) - 3*SigmaZ() + 1 - 2*mock
        leaves = [{"builtin": "NI", "periodic": {"form": 0, "value": 0}, "c": 1}, {"builtin": "SigmaZ"},
                  {"cls": "MockObs", "name": mname + "m", "symbol": mname + "m"}]
        e = ["sub", ["add", ["sub", ["neg", ["leaf", 0]], ["mul", ["const", "int", 3], ["leaf", 1]]], ["const", "int", 1]],
             ["mul", ["const", "int", 2], ["leaf", 2]]]
        return leaves, e
    if t == "composite3":
        return [{"builtin": "SigmaX"}], ["add", ["leaf", 0], ["const", "int", 1]]
    return None


def model_names(ctx, case, obs):
    """the model's name of every observable of the case (None where not denotable)"""
    out = []
    for i, (spec, o) in enumerate(zip(case["obs"], obs)):
        inp = name_model_input(spec, o, i)
        if inp is None:
            ctx.count("names: observable not denotable by the name model (non-integer scalar)")
            out.append(None)
            continue
        m = ctx.driver.call("c16.names", leaves=inp[0], expr=inp[1])
        out.append(m.get("name") if m.get("kind") == "obs" else {"model": m})
        ctx.count("names: modelled " + spec["type"])
    return out


def stats_case(ctx, case):
    n = case["state"]["n"]
    F = Forms(ctx, case)
    st = make_state(case["state"], F)
    obs = [make_obs(s, n, i, F) for i, s in enumerate(case["obs"])]
    names = [o.name for o in obs]          # the library's own names: a System keys its observables by them
    keys = first_occ(names)
    last = {nm: max(i for i, x in enumerate(names) if x == nm) for nm in keys}   # index of the last observable given with that name
    if len(keys) < len(names):
        ctx.count("same_named_observables_in_set")
    user_before = None
    form = case.get("init_form", "f64")
    if case["init"] is not None:
        rows_ = [case["init"][0]] * len(case["init"]) if form == "expand" and case["init"] else case["init"]
        user_before = make_user(rows_, n, form)[0].clone()
        ctx.count(f"init_form={form}")

    def new_user():
        """a fresh copy of the caller's tensor in the case's dtype / layout (+ its backing buffer)"""
        if user_before is None:
            return None, None
        return make_user(rows_, n, form)
    ns, nc, burn, steps, ow, system = case["ns"], case["nc"], case["burn_in"], case["steps"], case["overwrite"], case["system"]
    sysobj = System(*obs) if system else None
    if case.get("before"):
        # an EARLIER run with another configuration on the very same observable / System / state objects (results discarded here:
        # every configuration is checked as a case of its own); the checked run below must not depend on it
        b = case["before"]
        ctx.count("second_run_on_same_objects")
        torch.manual_seed(b["torch_seed"])
        ub = None if b["rows"] is None else torch.tensor(b["rows"], dtype=torch.double).reshape(len(b["rows"]), n)
        try:
            for tgt in ([sysobj] if system else obs):
                stat_call(F, "earlier statistics", tgt, st, b["ns"], b["nc"], b["burn_in"], b["steps"], ub, b["overwrite"])
        except ZeroDivisionError:
            pass
    runs = []  # (result dicts per observable, error, calls, observables covered, the caller's tensor after the run)
    if system:
        torch.manual_seed(case["torch_seed"])
        user, backing = new_user()
        r, err, calls = record_run(st, user, lambda u: stat_call(F, "System.statistics", sysobj, st, ns, nc, burn, steps, u, ow))
        sys_keys = None if r is None else list(r.keys())
        if r is not None:
            ctx.oracle("System.statistics returns one entry per distinct name", sorted(r.keys()) == sorted(keys), case,
                       detail={"impl": list(r.keys()), "expected": keys}, sig="system/keys", theorem=THEOREMS["keys"])
        runs.append((None if r is None else [r.get(nm) for nm in names], err, calls, list(range(len(obs))), user, backing))
    else:
        # one observable at a time; every run is recorded and checked on its own chain states
        for i, o in enumerate(obs):
            torch.manual_seed(case["torch_seed"] + i)
            user, backing = new_user()
            r, err, calls = record_run(st, user, lambda u: stat_call(F, "statistics", o, st, ns, nc, burn, steps, u, ow))
            runs.append((None if r is None else [r], err, calls, [i], user, backing))

    c_exp = (len(case["init"]) if case["init"] is not None else (min(nc, ns) if nc != 0 else ns))
    T_exp = None if c_exp == 0 else -(-ns // c_exp)
    desc = {k: case[k] for k in ("ns", "nc", "burn_in", "steps", "overwrite", "system", "obs")}
    desc["init_rows"] = None if case["init"] is None else len(case["init"])
    nontriv = False
    sig0 = "system" if system else "single"
    ctx.count(f"stats_{sig0}"); ctx.count(f"state={case['state']['kind']}"); ctx.count(f"ns={ns}"); ctx.count(f"nc={nc}"); ctx.count(f"burn_in={burn}"); ctx.count(f"steps={steps}")
    ctx.count("user_chains_overwrite" if (user_before is not None and ow) else ("user_chains_clone" if user_before is not None else "fresh_chains"))
    for s in case["obs"]:
        ctx.count(f"obs={s['type']}")
    if nc == 0:
        ctx.count("nc_zero")
    elif nc > ns:
        ctx.count("nc_gt_ns")
    elif ns % max(nc, 1):
        ctx.count("nc_nondivisor")
    if c_exp == 1 or ns == 1:
        ctx.count("single_value_chunks_or_single_sample")

    if ns == 0 or c_exp == 0:
        # OUTSIDE the quantifier (nothing requested / a zero-row initial_state): the property says nothing about what happens - the
        # unchanged code divides by zero; a ValueError("num_samples must be positive"), or undefined statistics of no sample, would be
        # as good.  The outcome is only counted: no oracle, no model comparison.
        for (r, err, calls, idxs, user, backing) in runs:
            ctx.count(f"outside the quantifier (num_samples = 0 / no chains): {err if err else 'no exception'}")
        ctx.case(desc | {"seed": case["torch_seed"]}, nontrivial=False,
                 sample={"part": "statistics", **{k: desc[k] for k in ("ns", "nc", "burn_in", "steps", "overwrite", "system", "init_rows")},
                         "obs": [s["type"] for s in case["obs"]]})
        return

    for (r, err, calls, idxs, user, backing) in runs:
        exp_err, survivor = None, {}
        ctx.oracle("no exception for num_samples >= 1 and >= 1 chain", err is None, case, detail={"impl": err, "expected": exp_err},
                   sig=f"{sig0}/error-oracle", theorem=THEOREMS["count"])
        vals = [[o.apply(st, cl["ret_copy"].clone()).detach().numpy().astype(np.float64).tolist() for cl in calls] for o in (obs[i] for i in idxs)]
        ks = [cl["k"] for cl in calls]
        if err != exp_err:
            continue  # already a violation; nothing sensible to evaluate further for this run
        if err is None and calls:
            T = len(calls)
            # ---- oracles on the implementation
            ctx.oracle("k schedule == [burn_in, steps, ...]", ks == [burn] + [steps] * (T - 1), case, detail={"k": ks},
                       sig=f"{sig0}/k-schedule", theorem=THEOREMS["schedule"])
            ctx.oracle("draws == ceil(num_samples / chains), chains as documented",
                       T == T_exp and all(canon_call(cl)["num_samples"] == c_exp and len(cl["ret_copy"]) == c_exp for cl in calls), case,
                       detail={"T": T, "T_expected": T_exp, "c_expected": c_exp, "c": [len(cl["ret_copy"]) for cl in calls],
                               "num_samples (where the sampler reads it)": [canon_call(cl)["num_samples"] for cl in calls]},
                       sig=f"{sig0}/count", theorem=THEOREMS["count"])
            cont = all(calls[i + 1]["init"] == calls[i]["ret"] and torch.equal(calls[i + 1]["init_copy"], calls[i]["ret_copy"])
                       for i in range(T - 1)) and all(canon_call(cl)["overwrite"] is True for cl in calls)
            ctx.oracle("each draw continues the chains returned by the previous one", cont, case,
                       detail={"inits": [cl["init"] for cl in calls], "rets": [cl["ret"] for cl in calls]},
                       sig=f"{sig0}/continuity", theorem=THEOREMS["schedule"])
            if user is not None:
                if backing is not None:
                    other = torch.ones_like(backing, dtype=torch.bool)
                    (other[:, 1::2] if form in ("cols", "f32cols") else other[1::2]).fill_(False)
                    ctx.oracle("elements of the caller's buffer outside the initial_state view are untouched",
                               bool((backing[other] == 7.0).all()), case, sig=f"{sig0}/outside-view", theorem=THEOREMS["schedule"])
                if ow and form in IN_PLACE_FORMS:
                    ctx.oracle("overwrite=True: the caller's tensor holds the final chain state",
                               bool(torch.equal(user, calls[-1]["ret_copy"])), case, sig=f"{sig0}/overwrite-final",
                               theorem=THEOREMS["schedule"])
                elif not ow:
                    ctx.oracle("overwrite=False: the caller's initial_state is untouched", bool(torch.equal(user, user_before)), case,
                               sig=f"{sig0}/untouched", theorem=THEOREMS["schedule"])
                first_ok = (calls[0]["init"] == 0) if ow else (calls[0]["init"] != 0 and all(cl["init"] != 0 for cl in calls))
                first_ok = first_ok and calls[0]["init_copy"] is not None and torch.equal(calls[0]["init_copy"], user_before)
                ctx.oracle("first draw starts from the user's chains (the tensor itself iff overwrite)", bool(first_ok), case,
                           detail={"inits": [cl["init"] for cl in calls]}, sig=f"{sig0}/start", theorem=THEOREMS["schedule"])
            else:
                ctx.oracle("first draw starts from fresh chains", calls[0]["init"] is None, case, sig=f"{sig0}/start",
                           theorem=THEOREMS["schedule"])
            oks, dets = {}, {}
            for j, oi in enumerate(idxs):
                allv = [x for ch in vals[j] for x in ch]
                M, V, N = exact_stats(allv)
                sc = max(1.0, max(abs(x) for x in allv))
                d = r[j]
                oks[oi] = bool(d is not None and (plain(d["num_samples"]) == N == T * c_exp and N >= ns and stat_close(d["mean"], M, sc, 1e-9)
                                                  and var_close(d["variance"], V, sc) and se_close(d["std_error"], V, N, sc)))
                dets[oi] = {"impl": None if d is None else {k: float(x) for k, x in d.items()},
                            "expected": [float(M), None if V is None else float(V), N], "obs": oi, "names": names}
                if T >= 2 and len(set(allv)) > 1:
                    nontriv = True
            # survivor: name given several times with different values -> the observable whose statistics the entry holds
            for j, oi in enumerate(idxs):
                # "each observable gets the result it would get alone on the same chain states".  Observables sharing a NAME with
                # different per-sample values are merged into one entry (known finding): that entry must still be the one-pass statistics
                # of ONE of them (which one is not constrained) - judged under the ordinary signature; only the others, which do not get
                # their own statistics, are reported under the known signature
                group = [k for k in idxs if names[k] == names[oi]] if system else [oi]
                merged = any(vals[idxs.index(k)] != vals[j] for k in group)
                th = THEOREMS["system"] if system else THEOREMS["stream"]
                if not merged:
                    ctx.oracle("result == one-pass statistics of every drawn sample", oks[oi], case, detail=dets[oi], sig=f"{sig0}/one-pass",
                               theorem=th)
                    continue
                ctx.count("same_name_different_values_merged")
                good = [k for k in group if oks[k]]
                if good:
                    survivor[names[oi]] = good[0]
                    ctx.oracle("result == one-pass statistics of every drawn sample" if oks[oi] else
                               "System: observables sharing a name are merged into one entry (this one does not get its own statistics)",
                               oks[oi], case, detail=dets[oi], sig=(f"{sig0}/one-pass" if oks[oi] else SIG_MERGED), theorem=th)
                elif oi == group[0]:
                    ctx.oracle("System: the entry under a shared name is the one-pass statistics of ONE of the observables given with that name",
                               False, case, detail={"group": group, "candidates": [dets[k] for k in group]}, sig=f"{sig0}/one-pass", theorem=th)
        # ---- model
        if ctx.driver is not None:
            m = ctx.driver.call("c13.statistics", num_samples=ns, num_chains=nc, burn_in=burn, steps=steps, overwrite=ow,
                                system=system, clone_id=1, user_id=0, init_rows=None if user_before is None else len(case["init"]),
                                ret_ids=[cl["ret"] for cl in calls], chunks=[[bits(ch) for ch in v] for v in vals],
                                names=[names[i] for i in idxs])
            mres = m["result"] if system else m["result"][0] if m["result"] else {"error": "no observable"}
            merr = mres.get("error") if isinstance(mres, dict) else None
            ctx.point("error kind", "property", err, merr, case, exact=True, sig=f"{sig0}/error-kind", theorem=THEOREMS["count"])
            if err is None and merr is None:
                # arguments the sampler ignores (num_samples next to an initial_state, overwrite without one) are canonicalised
                icalls = [canon_call(cl) for cl in calls]
                ctx.point("sampler calls (num_samples, k, initial_state identity, overwrite)", "property", icalls, mres["calls"], case,
                          exact=True, theorem=THEOREMS["schedule"], sig=f"{sig0}/calls")
                ctx.point("T and c", "property", [len(calls), c_exp], [m["T"], m["c"]], case, exact=True, theorem=THEOREMS["count"],
                          sig=f"{sig0}/T-c")
                if system:
                    # the dictionary: one entry per distinct name; the entry of a name is compared with the one-pass statistics of the LAST
                    # observable given with that name (C13_system_dict) and with the model's streaming result for that entry
                    ctx.point("dictionary keys (as a set)", "property", sorted(sys_keys), sorted(mres["names"]), case,
                              exact=True, theorem=THEOREMS["keys"], sig="system/keys")
                    # extension round 2: the keys ARE the observables' names (C13_system_keys_of_names), the names being the model's
                    # (built-in constants / composite strings, C16_name_of_build); names and order of first occurrence recorded only (ctx.info, audit 3)
                    mn = model_names(ctx, case, obs)
                    # audit 3 (B1): what an observable is CALLED is not constrained by C13 (nor C16/C17): recorded only
                    ctx.info("system/names: names of the observables given to System vs the model's names",
                             [nm for nm, x in zip(names, mn) if x is not None], [x for x in mn if x is not None])
                    # audit 3 (B8): the ORDER of the dictionary's keys is not constrained by C13: recorded only
                    ctx.info("system/key-order: dictionary keys in order of first occurrence", sys_keys, mres["names"])
                    # names given several times with DIFFERENT values: which of them survives is not constrained by the property (the merge
                    # itself is the finding reported above) - those entries are not compared with the model
                    # (the entry is compared with the model's one-pass statistics of the observable it was found to hold, and with the
                    # model's streaming entry only when that is the one the model keeps, the last)
                    conflict = {nm for nm in keys if any(vals[k] != vals[last[nm]] for k in range(len(obs)) if names[k] == nm)}
                    pick = {nm: (survivor.get(nm) if nm in conflict else last[nm]) for nm in keys}
                    entries = [(r[pick[nm]], pick[nm], m["onepass"][pick[nm]], mres["stats"][q] if pick[nm] == last[nm] else None)
                               for q, nm in enumerate(mres["names"]) if nm in last and pick[nm] is not None and r[pick[nm]] is not None]
                else:
                    entries = [(r[0], idxs[0], m["onepass"][0], mres["stats"])]
                for (d, oi, m_one, m_stream) in entries:
                    j = idxs.index(oi)
                    allv = [x for ch in vals[j] for x in ch]
                    sc = max(1.0, max(abs(x) for x in allv))
                    for key, lvl, mm in (("onepass", "property", m_one), ("stream", "aux", m_stream)):
                        if mm is None:
                            continue
                        if "error" in mm:
                            ctx.point(f"{key}", lvl, "ok", mm["error"], case, exact=True, sig=f"{sig0}/{key}")
                            continue
                        th = THEOREMS["system"] if system else THEOREMS["stream"]
                        ctx.point(f"{key}.mean", lvl, [d["mean"]], unbits([mm["mean"]]), case, scale=sc, theorem=th, sig=f"{sig0}/{key}")
                        ctx.point(f"{key}.variance", lvl, [d["variance"]], unbits([mm["variance"]]), case,
                                  scale=var_scale(exact_stats(allv)[1], sc), theorem=th,
                                  sig=f"{sig0}/{key}")
                        ctx.point(f"{key}.std_error", lvl, [float(d["std_error"])], unbits([mm["std_error"]]), case, scale=sc, rtol=1e-5,
                                  atol=1e-7, theorem=th, sig=f"{sig0}/{key}")
                        ctx.point(f"{key}.num_samples", lvl, plain(d["num_samples"]), mm["n"], case, exact=True, theorem=th, sig=f"{sig0}/{key}")
    ctx.case(desc | {"seed": case["torch_seed"]}, nontrivial=nontriv,
             sample={"part": "statistics", **{k: desc[k] for k in ("ns", "nc", "burn_in", "steps", "overwrite", "system", "init_rows")},
                     "obs": [s["type"] for s in case["obs"]]})


# ---------------------------------------------------------------- part C: statistics_from_samples (both classes), ObservableBase.sample
def from_samples_case(ctx, case):
    """`obs.statistics_from_samples(state, batch)` for every observable of the set, or `System(*obs).statistics_from_samples`, on a batch of
    0..9 rows: one-pass statistics of the observable's own per-sample values (exact rational oracle + model `fromSamples` /
    `systemFromSamples`), ZeroDivisionError for the empty batch, nan variance / std_error for one row."""
    n = case["state"]["n"]
    F = Forms(ctx, case)    # gpu flag of the state, constructor options of the observables
    st = make_state(case["state"], F)
    obs = [make_obs(sp, n, i, F) for i, sp in enumerate(case["obs"])]
    names = [o.name for o in obs]
    keys = first_occ(names)
    last = {nm: max(i for i, x in enumerate(names) if x == nm) for nm in keys}
    rows = case["rows"]
    B = len(rows)
    system = case["system"]
    sig0 = "sysfrom" if system else "from"
    t = torch.tensor(rows, dtype=torch.double).reshape(B, n)
    vals = [o.apply(st, t.clone()).detach().numpy().astype(np.float64).tolist() for o in obs]
    ctx.count(f"from_samples_{'system' if system else 'single'}"); ctx.count(f"from_samples_B={B}")
    ctx.count(f"state={case['state']['kind']}")
    for sp in case["obs"]:
        ctx.count(f"obs={sp['type']}")
    ctx.case({k: case[k] for k in ("obs", "rows", "system")} | {"state": case["state"]["kind"]},
             nontrivial=B >= 2 and any(len(set(v)) > 1 for v in vals),
             sample={"part": "from_samples", "system": system, "B": B, "obs": [sp["type"] for sp in case["obs"]], "state": case["state"]["kind"]})

    def check(d, oi, label, report=True):
        v = vals[oi]
        M, V, N = exact_stats(v)
        sc = max(1.0, max(abs(x) for x in v))
        ok = bool(d is not None and (d["num_samples"] == N == B and stat_close(d["mean"], M, sc, 1e-9) and var_close(d["variance"], V, sc)
                                     and se_close(d["std_error"], V, N, sc)))
        det = {"impl": None if d is None else {k: float(x) for k, x in d.items()},
               "expected": [float(M), None if V is None else float(V), N], "obs": oi, "names": names}
        if report:
            ctx.oracle(f"{label} == one-pass statistics of the observable's values on the batch", ok, case, detail=det,
                       sig=f"{sig0}/one-pass", theorem=THEOREMS["sysfrom" if system else "from"])
        return ok, det

    def points(d, mm, oi, label):
        sc = max(1.0, max(abs(x) for x in vals[oi]))
        th = THEOREMS["sysfrom" if system else "from"]
        ctx.point(f"{label}.mean", "property", [d["mean"]], unbits([mm["mean"]]), case, scale=sc, theorem=th, sig=f"{sig0}/model")
        ctx.point(f"{label}.variance", "property", [d["variance"]], unbits([mm["variance"]]), case,
                  scale=var_scale(exact_stats(vals[oi])[1], sc), theorem=th, sig=f"{sig0}/model")
        ctx.point(f"{label}.std_error", "property", [float(d["std_error"])], unbits([mm["std_error"]]), case, scale=sc, rtol=1e-5, atol=1e-7,
                  theorem=th, sig=f"{sig0}/model")
        ctx.point(f"{label}.num_samples", "property", d["num_samples"], mm["n"], case, exact=True, theorem=th, sig=f"{sig0}/model")

    def empty_ok(d):
        """statistics of NOTHING: the property does not say what they are - the library raises ZeroDivisionError (modelled); a result with
        num_samples == 0 and undefined (nan) statistics would be as good"""
        return d["num_samples"] == 0 and all(math.isnan(float(d[k])) for k in ("mean", "variance", "std_error"))

    survivor = {}
    if system:
        sysobj = System(*obs)
        r, err = None, None
        try:
            r = sysobj.statistics_from_samples(st, t)
        except Exception as e:  # noqa: BLE001
            err = type(e).__name__
        if B == 0:
            ctx.oracle("System.statistics_from_samples on an empty batch: ZeroDivisionError (or undefined statistics with num_samples 0)",
                       err == "ZeroDivisionError" or (err is None and all(empty_ok(d) for d in r.values())), case,
                       detail={"impl": err if err else {k: {kk: float(x) for kk, x in d.items()} for k, d in r.items()}},
                       sig=f"{sig0}/empty-batch", theorem="C13_fromSamples_empty")
        else:
            ctx.oracle("System.statistics_from_samples does not raise on a non-empty batch", err is None, case, detail={"impl": err},
                       sig=f"{sig0}/error-oracle", theorem=THEOREMS["sysfrom"])
        if err is None and B > 0:
            ctx.oracle("System.statistics_from_samples returns one entry per distinct name",
                       sorted(r.keys()) == sorted(keys), case, detail={"impl": list(r.keys()), "expected": keys}, sig=f"{sig0}/keys",
                       theorem=THEOREMS["keys"])
            res = [check(r.get(names[oi]), oi, "System.statistics_from_samples", report=False) for oi in range(len(obs))]
            for oi in range(len(obs)):
                # as in stats_case: an entry under a name shared by observables with different values must be the one-pass statistics of
                # ONE of them (ordinary signature); the others are the known finding
                group = [k for k in range(len(obs)) if names[k] == names[oi]]
                merged = any(vals[k] != vals[oi] for k in group)
                ok, det = res[oi]
                th = THEOREMS["sysfrom"]
                label = "System.statistics_from_samples == one-pass statistics of the observable's values on the batch"
                if not merged:
                    ctx.oracle(label, ok, case, detail=det, sig=f"{sig0}/one-pass", theorem=th)
                    continue
                good = [k for k in group if res[k][0]]
                if good:
                    survivor[names[oi]] = good[0]
                    ctx.oracle(label if ok else "System: observables sharing a name are merged into one entry (this one does not get its own "
                               "statistics)", ok, case, detail=det, sig=(f"{sig0}/one-pass" if ok else SIG_MERGED), theorem=th)
                elif oi == group[0]:
                    ctx.oracle("System: the entry under a shared name is the one-pass statistics of ONE of the observables given with that name",
                               False, case, detail={"group": group, "candidates": [res[k][1] for k in group]}, sig=f"{sig0}/one-pass",
                               theorem=th)
        if ctx.driver is not None and (B > 0 or err is not None):
            m = ctx.driver.call("c13.system_from_samples", names=names, values=[bits(v) for v in vals])
            ctx.point("System.statistics_from_samples: error kind", "property", err, m.get("error"), case, exact=True,
                      sig=f"{sig0}/error-kind", theorem="C13_fromSamples_empty")
            if err is None and "error" not in m:
                ctx.point("System.statistics_from_samples: keys (as a set)", "property", sorted(r.keys()), sorted(m["names"]), case, exact=True,
                          sig=f"{sig0}/keys", theorem=THEOREMS["keys"])
                conflict = {nm for nm in keys if any(vals[k] != vals[last[nm]] for k in range(len(obs)) if names[k] == nm)}
                for q, nm in enumerate(m["names"]):
                    if nm in r and nm in last and nm not in conflict:
                        points(r[nm], m["stats"][q], last[nm], f"System.statistics_from_samples[{q}]")
                    elif nm in r and survivor.get(nm) is not None:
                        # which of the conflicting observables the entry holds is not constrained: compared with the model's
                        # statistics_from_samples of the one it was found to hold
                        m1 = ctx.driver.call("c13.from_samples", xs=bits(vals[survivor[nm]]))
                        if "error" not in m1:
                            points(r[nm], m1, survivor[nm], f"System.statistics_from_samples[{q}]")
    else:
        for oi, o in enumerate(obs):
            d, err = None, None
            t2 = t.clone()
            try:
                d = o.statistics_from_samples(st, t2)
            except Exception as e:  # noqa: BLE001
                err = type(e).__name__
            if B == 0:
                ctx.oracle("statistics_from_samples on an empty batch: ZeroDivisionError (or undefined statistics with num_samples 0)",
                           err == "ZeroDivisionError" or (err is None and empty_ok(d)), case,
                           detail={"impl": err if err else {k: float(x) for k, x in d.items()}, "obs": oi}, sig=f"{sig0}/empty-batch",
                           theorem="C13_fromSamples_empty")
            else:
                ctx.oracle("statistics_from_samples does not raise on a non-empty batch", err is None, case, detail={"impl": err, "obs": oi},
                           sig=f"{sig0}/error-oracle", theorem=THEOREMS["from"])
            ctx.oracle("statistics_from_samples leaves the batch unchanged", bool(torch.equal(t2, t)), case, sig=f"{sig0}/no-mutation")
            if err is None and B > 0:
                check(d, oi, "statistics_from_samples")
            if ctx.driver is not None and (B > 0 or err is not None):
                m = ctx.driver.call("c13.from_samples", xs=bits(vals[oi]))
                ctx.point("statistics_from_samples: error kind", "property", err, m.get("error"), case, exact=True, sig=f"{sig0}/error-kind",
                          theorem="C13_fromSamples_empty")
                if err is None and "error" not in m:
                    points(d, m, oi, "statistics_from_samples")


def sample_case(ctx, case):
    """`ObservableBase.sample(nn_state, k, num_samples, initial_state, overwrite)`: exactly ONE sampler call that receives the caller's
    arguments unchanged (the caller's tensor itself), and the returned values are the observable on the tensor that call returned."""
    n = case["state"]["n"]
    F = Forms(ctx, case)
    st = make_state(case["state"], F)
    o = make_obs(case["obs"][0], n, 0, F)
    form = case.get("init_form", "f64")
    user, backing, user_before = None, None, None
    if case["init"] is not None:
        user, backing = make_user(case["init"], n, form)
        user_before = user.clone()
    k, ns, ow, call_form = case["k"], case["ns"], case["overwrite"], case["call_form"]
    ctx.count("sample_case"); ctx.count(f"sample_call_form={call_form}"); ctx.count(f"state={case['state']['kind']}")
    ctx.count(f"obs={case['obs'][0]['type']}")
    ctx.case({k_: case[k_] for k_ in ("obs", "k", "ns", "overwrite", "call_form", "init")} | {"state": case["state"]["kind"]},
             nontrivial=ns >= 2 or (case["init"] is not None and len(case["init"]) >= 2),
             sample={"part": "sample", "k": k, "ns": ns, "overwrite": ow, "call_form": call_form,
                     "init_rows": None if case["init"] is None else len(case["init"]), "obs": case["obs"][0]["type"]})
    torch.manual_seed(case["torch_seed"])

    # k, num_samples, overwrite in the forms of the case's streams (all of qc.INT_FORMS / qc.FLAG_FORMS are accepted by the clean code;
    # np.uint8 is not used for the count num_samples);
    # "keyword" cases with streams pass a prefix of (k, num_samples, initial_state, overwrite) positionally
    k_obj = F.int("sample k", k, STEP_FORMS)
    ns_obj = F.int("sample num_samples", ns, SAMPLE_NS_FORMS)
    ow_obj, ow_pos = F.flag("sample overwrite", ow)
    pfx = F.prefix("sample (keyword form)", 4, full=ow_pos) if call_form == "keyword" else 0

    def run(u):
        if call_form == "default":          # num_samples, initial_state, overwrite left at their defaults (1, None, False)
            return o.sample(st, k_obj)
        if call_form == "positional":
            return o.sample(st, k_obj, ns_obj, u, ow_obj)
        return call_with_prefix(o.sample, st,
                                [("k", k_obj), ("num_samples", ns_obj), ("initial_state", u), ("overwrite", ow_obj)], pfx)
    if call_form == "default":
        ns, ow, user, user_before = 1, False, None, None
    r, err, calls = record_run(st, user, run)
    # arguments the sampler ignores are canonicalised on both sides (num_samples := rows of initial_state when one is given, overwrite :=
    # True when none is): handing them on or not makes no observable difference
    exp_call = {"num_samples": ns if user is None else len(case["init"]), "k": k, "init": None if user is None else 0,
                "overwrite": ow if user is not None else True}
    got = [canon_call(cl) for cl in calls]
    ctx.oracle("sample: no exception, exactly one sampler call receiving (num_samples, k, the caller's tensor, overwrite) as far as the sampler reads them",
               err is None and got == [exp_call], case, detail={"error": err, "calls": got, "expected": [exp_call]}, sig="sample/call",
               theorem=THEOREMS["sample"])
    if err is not None or len(calls) != 1:
        return
    want = o.apply(st, calls[0]["ret_copy"].clone()).detach().numpy().astype(np.float64)
    gotv = r.detach().numpy().astype(np.float64)
    sc = max([1.0] + [abs(float(x)) for x in want])
    ctx.oracle("sample: the values are the observable on the tensor the sampler returned",
               gotv.shape == want.shape and bool(np.all(np.abs(gotv - want) <= 1e-12 * sc)), case,
               detail={"impl": gotv.tolist(), "expected": want.tolist()}, sig="sample/values", theorem=THEOREMS["sample"])
    exp_rows = len(case["init"]) if user is not None else ns
    ctx.oracle("sample: one value per chain (rows of initial_state if given, else num_samples)", len(gotv) == exp_rows, case,
               detail={"impl": len(gotv), "expected": exp_rows}, sig="sample/count", theorem=THEOREMS["sample"])
    if user is not None:
        if not ow:
            ctx.oracle("sample, overwrite=False: the caller's initial_state is untouched", bool(torch.equal(user, user_before)), case,
                       sig="sample/untouched", theorem=THEOREMS["sample"])
        elif form in IN_PLACE_FORMS:
            ctx.oracle("sample, overwrite=True: the caller's tensor holds the returned chain state",
                       bool(torch.equal(user, calls[0]["ret_copy"])), case, sig="sample/overwrite-final", theorem=THEOREMS["sample"])
    if ctx.driver is not None:
        m = ctx.driver.call("c13.sample", k=k, num_samples=ns, overwrite=ow, has_init=user is not None, ret_id=calls[0]["ret"],
                            values=bits(want))
        mcall = dict(m["call"])
        if user is not None:
            mcall["num_samples"] = len(case["init"])
        else:
            mcall["overwrite"] = True
        ctx.point("sample: the sampler call", "property", got[0], mcall, case, exact=True, theorem=THEOREMS["sample"], sig="sample/model-call")
        ctx.point("sample: values", "property", gotv, unbits(m["values"]), case, scale=sc, theorem=THEOREMS["sample"], sig="sample/model-values")


# ---------------------------------------------------------------- generation
def gen_obs_specs(rng, n, k=None):
    def mock():
        return {"type": "mock", "w": [rng.randrange(-3, 4) for _ in range(n)],
                "off": rng.randrange(-2, 3) if rng.random() < 0.85 else rng.choice([1e8, -3e7, 1e9])}
    pool = [mock, mock, lambda: {"type": "SigmaZ", "absolute": rng.random() < 0.2}, lambda: {"type": "SigmaX", "absolute": rng.random() < 0.2},
            lambda: {"type": "SigmaY", "absolute": rng.random() < 0.2},
            lambda: {"type": "NI", "periodic": rng.random() < 0.5, "c": rng.randrange(1, max(2, n))},
            lambda: {"type": "SWAP", "A": sorted(rng.sample(range(n), rng.randrange(1, n)))},
            lambda: {**mock(), "type": "composite"}, lambda: {**mock(), "type": "composite2"}]
    return [rng.choice(pool)() for _ in range(k if k is not None else rng.randrange(1, 4))]


def gen_same_named(rng, n):
    """a set of observables in which (at least) two carry the same library name"""
    w = lambda: [rng.randrange(-3, 4) for _ in range(n)]  # noqa: E731
    ni = {"type": "NI", "periodic": rng.random() < 0.5, "c": rng.randrange(1, max(2, n))}
    mk = {"type": "mock", "w": w(), "off": rng.randrange(-2, 3), "name": "M"}
    comp = {"type": "composite", "w": w(), "off": rng.randrange(-2, 3), "name": "Q"}
    pauli = rng.choice(["SigmaX", "SigmaY", "SigmaZ"])
    choices = [
        [{"type": pauli}, {"type": pauli, "absolute": True}],                                  # different values, one name
        [{"type": pauli, "absolute": True}, {"type": "SigmaZ" if pauli != "SigmaZ" else "SigmaX"}, {"type": pauli}],   # name at positions 0 and 2
        [dict(ni), dict(ni)],                                                                   # equal observables: merging is harmless
        [dict(comp), dict(comp)],                                                               # two equal composites
        [dict(comp), {**comp, "w": w(), "off": 5}],                                              # composites of one name, different mocks inside
        [{"type": "SWAP", "A": [0]}, {"type": "SWAP", "A": [1]}],                                # SWAP's name ignores the subsystem
        [dict(mk), {**mk, "w": w(), "off": mk["off"] + 1}, {"type": "mock", "w": w(), "off": 0, "name": "M2"}],
        [{"type": "composite3"}, {"type": "composite3", "absolute": True}],                     # "(SigmaX + 1)" twice
        [{"type": pauli}, {"type": pauli}, {"type": pauli, "absolute": True}, {"type": pauli}],  # the last one wins: plain again
    ]
    return rng.choice(choices)


def gen_state(rng, n=None):
    n = n if n is not None else rng.randrange(2, 4)
    h = rng.randrange(1, 3)
    kind = rng.choice(["pos", "pos", "cplx", "dens"])
    if kind == "dens":
        a = rng.randrange(1, 3)
        sc = rng.choice([0.1, 1.0])
        return {"kind": kind, "n": n, "h": h, "a": a, "am": qc.rand_prbm_params(rng, n, h, a, sc), "ph": qc.rand_prbm_params(rng, n, h, a, 0.5)}
    s = {"kind": kind, "n": n, "h": h, "am": qc.rand_rbm_params(rng, n, h, rng.choice([0.1, 1.0]))}
    if kind == "cplx":
        s["ph"] = qc.rand_rbm_params(rng, n, h, 0.5)
    return s


def form_seeds(rng):
    """seeds of the case's flag / integer form streams (qc.Flags / qc.Ints); only the seeds are stored in the case"""
    return {"fseed": rng.randrange(2 ** 31), "iseed": rng.randrange(2 ** 31)}


def gen_stats_case(rng, ns, nc, system, user_rows=None, overwrite=False, init_form=None, same_named=False):
    st = gen_state(rng)
    n = st["n"]
    case = {"part": "statistics", "state": st, "obs": gen_same_named(rng, n) if same_named else gen_obs_specs(rng, n), "ns": ns, "nc": nc,
            "burn_in": rng.randrange(0, 4), "steps": rng.randrange(0, 4),
            "init": None if user_rows is None else [[rng.randrange(2) for _ in range(n)] for _ in range(user_rows)],
            "overwrite": overwrite, "system": system, "torch_seed": rng.randrange(1 << 30)}
    if init_form is not None:
        case["init_form"] = init_form
    if ns > 0 and user_rows != 0:
        # the malformed stream (nothing requested / no chains) keeps plain Python values: there the clean code's outcome depends on the
        # form (0 / 0 is ZeroDivisionError for Python ints, nan + ValueError for numpy integers) and the property says nothing about it
        case.update(form_seeds(rng))
    return case


def gen_from_samples_case(rng, B, system, same_named=False):
    st = gen_state(rng)
    n = st["n"]
    return {"part": "from_samples", "state": st, "obs": gen_same_named(rng, n) if same_named else gen_obs_specs(rng, n),
            "rows": [[rng.randrange(2) for _ in range(n)] for _ in range(B)], "system": system, **form_seeds(rng)}


def gen_sample_case(rng):
    st = gen_state(rng)
    n = st["n"]
    ur = rng.choice([None, None, 1, 2, 3])
    ow = rng.random() < 0.5
    return {"part": "sample", "state": st, "obs": gen_obs_specs(rng, n, 1), "k": rng.randrange(0, 5), "ns": rng.randrange(1, 6),
            "init": None if ur is None else [[rng.randrange(2) for _ in range(n)] for _ in range(ur)], "overwrite": ow,
            "init_form": rng.choice(["f64", "f64", "f32", "cols", "rows", "T", "i64"]),
            "call_form": rng.choice(["keyword", "keyword", "keyword", "positional", "positional", "default"]), "torch_seed": rng.randrange(1 << 30),
            **form_seeds(rng)}


SPECIAL_PAIRS = [(1, 0), (1, 1), (1, 5), (2, 1), (5, 1), (7, 3), (9, 4), (6, 0), (4, 10), (6, 3), (9, 9), (8, 5), (3, 2)]


def gen_cases(ctx, thorough):
    rng = ctx.rng
    # extension round 2: to_01 / to_pm1 (observables/utils.py), the two spin conventions
    for _ in range(12 if thorough else 4):
        kind = rng.choice(["pm1", "01", "mixed"])
        n = rng.randrange(1, 9)
        xs = ([float(rng.choice([-1, 1])) for _ in range(n)] if kind == "pm1" else [float(rng.randrange(2)) for _ in range(n)] if kind == "01"
              else [rng.choice([-1.0, 1.0, 0.0, 0.5, -3.0, round(rng.gauss(0, 2), 3)]) for _ in range(n)])
        yield {"part": "spinconv", "kind": kind, "xs": xs, "dtype": rng.choice(["f64", "f64", "f32", "i64"]), "rows": rng.choice([0, 1, 2])}
    # part A
    for _ in range(60 if thorough else 15):
        N = rng.randrange(2, 10)
        yield {"part": "merge", "xs": [float(rng.randrange(-6, 7)) for _ in range(N)], "iseed": rng.randrange(2 ** 31)}
        yield {"part": "merge", "xs": [rng.gauss(0, 3) for _ in range(N)], "iseed": rng.randrange(2 ** 31)}
    yield {"part": "merge", "xs": [2.0, 2.0, 2.0, 2.0]}
    yield {"part": "merge", "xs": [1e6 + 1, 1e6 + 2, 1e6 + 4, 1e6 - 3, 1e6, 1e6 + 9], "iseed": rng.randrange(2 ** 31)}
    # |mean| >> spread: the variance must come out to relative accuracy, not to accuracy relative to mean^2
    for off in (1e8, -3e7, 1e9, 2.0 ** 40):
        N = rng.randrange(3, 10)
        yield {"part": "merge", "xs": [off + float(rng.randrange(-6, 7)) for _ in range(N)], "iseed": rng.randrange(2 ** 31)}
        yield {"part": "merge", "xs": [off + round(rng.gauss(0, 2), 2) for _ in range(N)]}
    yield {"part": "formula", "args": [3, None, 0, 4, None, 1]}
    for _ in range(300 if thorough else 40):
        la, lb = rng.randrange(0, 6), rng.randrange(0, 6)
        # operands as a statistics run can produce them: an empty chunk is (0, 0) [the initial running state], a one-value chunk has an
        # undefined (nan) variance [torch.var_mean], otherwise any mean and any variance >= 0
        opa = [0, 0, 0] if la == 0 else [rng.randrange(-9, 10), None if la == 1 else rng.randrange(0, 20), la]
        opb = [0, 0, 0] if lb == 0 else [rng.randrange(-9, 10), None if lb == 1 else rng.randrange(0, 20), lb]
        yield {"part": "formula", "args": opa + opb, "iseed": rng.randrange(2 ** 31)}
    # part B
    pairs = [(ns, nc) for ns in range(1, 10) for nc in range(0, 11)]
    if not thorough:
        rng.shuffle(pairs)
        pairs = SPECIAL_PAIRS + pairs[:27]
    for (ns, nc) in pairs:
        for system in ((False, True) if thorough else (rng.random() < 0.5,)):
            yield gen_stats_case(rng, ns, nc, system)
    for _ in range(80 if thorough else 16):
        ow = rng.random() < 0.5
        yield gen_stats_case(rng, rng.randrange(1, 10), rng.randrange(0, 11), rng.random() < 0.5, user_rows=rng.randrange(1, 5),
                             overwrite=ow, init_form=rng.choice([f for f in INIT_FORMS if not (ow and f == "expand")]))
    # the caller's chains in every dtype / memory layout x overwrite on/off, at least two draws (usually more, also non-divisible counts):
    # the continuity observation (each sample() call starts from the tensor and content the previous call returned) and the
    # one-pass statistics must hold whether or not Gibbs sampling can work in place on the caller's tensor
    for rep in range(3 if thorough else 1):
        for form in INIT_FORMS:
            for ow in (False, True):
                if form == "expand" and ow:
                    continue  # writing through a stride-0 view is refused by torch
                rows = rng.randrange(1, 4)
                T = rng.randrange(2, 5)
                ns = rows * T - (rng.randrange(0, rows) if rng.random() < 0.4 else 0)
                yield gen_stats_case(rng, ns, rng.randrange(0, 5), rng.random() < 0.4, user_rows=rows, overwrite=ow, init_form=form)
    # two consecutive runs on the same observable / System / state objects with different configurations
    for _ in range(60 if thorough else 12):
        ns, nc = rng.choice(SPECIAL_PAIRS + [(rng.randrange(1, 10), rng.randrange(0, 11))])
        ur = rng.choice([None, None, rng.randrange(1, 4)])
        c = gen_stats_case(rng, ns, nc, rng.random() < 0.5, user_rows=ur, overwrite=rng.random() < 0.5)
        n_ = c["state"]["n"]
        br = rng.choice([None, rng.randrange(1, 5)])
        c["before"] = {"ns": rng.randrange(1, 10), "nc": rng.randrange(0, 6), "burn_in": rng.randrange(0, 4), "steps": rng.randrange(0, 4),
                       "rows": None if br is None else [[rng.randrange(2) for _ in range(n_)] for _ in range(br)],
                       "overwrite": rng.random() < 0.5, "torch_seed": rng.randrange(1 << 30)}
        yield c
    # sets in which observables share a name (System keys them by name): System runs, plus single runs of the same sets
    for i in range(40 if thorough else 10):
        ns, nc = rng.choice(SPECIAL_PAIRS[3:] + [(rng.randrange(2, 10), rng.randrange(0, 6))])
        yield gen_stats_case(rng, ns, nc, i % 5 != 4, user_rows=rng.choice([None, None, 2]), overwrite=rng.random() < 0.5, same_named=True)
    # statistics_from_samples of every observable / of System(...) on batches of 0..9 rows
    for B in list(range(0, 10)) * (3 if thorough else 1):
        yield gen_from_samples_case(rng, B, False)
        yield gen_from_samples_case(rng, B, True, same_named=(B % 3 == 2))
    yield {**gen_from_samples_case(rng, 0, True), "obs": []}       # an empty System on an empty batch: {}
    yield {**gen_from_samples_case(rng, 3, True), "obs": []}
    # ObservableBase.sample
    for _ in range(90 if thorough else 30):
        yield gen_sample_case(rng)
    # the DOCUMENTED defaults (num_chains=0, burn_in=1000, steps=1, initial_state=None, overwrite=False): calls that leave every option
    # with that value out, the way users write them; besides, every case with form streams omits them with probability 0.4 (stat_call)
    def with_(c, **kw):
        c.update(kw)
        return c
    for rep_ in range(3 if thorough else 1):
        yield with_(gen_stats_case(rng, rng.randrange(2, 8), 0, False), burn_in=1000, steps=1, omit=True)      # obs.statistics(state, N)
        yield with_(gen_stats_case(rng, rng.randrange(2, 8), 0, True), burn_in=1000, steps=1, omit=True)       # System(..).statistics(state, N)
        yield with_(gen_stats_case(rng, 7, 3, rng.random() < 0.5), steps=1, omit=True)                         # ..., num_chains=3, burn_in=b): 3 draws
        yield with_(gen_stats_case(rng, 9, 4, rng.random() < 0.5), burn_in=1000, omit=True)                    # ..., num_chains=4, steps=s)
        yield with_(gen_stats_case(rng, 6, 0, rng.random() < 0.5, user_rows=2), burn_in=1000, steps=1, omit=True)   # ..., initial_state=c): c untouched
        yield with_(gen_stats_case(rng, 5, 0, rng.random() < 0.5, user_rows=3, init_form="cols"), steps=1, omit=True)
        yield with_(gen_stats_case(rng, 4, 0, rng.random() < 0.5, user_rows=2, overwrite=True), burn_in=1000, steps=1, omit=True)
    # an empty set of observables ("any set"): System().statistics draws as usual and returns {}
    yield {**gen_stats_case(rng, 5, 2, True), "obs": []}
    yield {**gen_stats_case(rng, 4, 0, True, user_rows=3, overwrite=True), "obs": []}
    # more than a handful of samples: hundreds of values per observable, many draws / one wide draw
    yield gen_stats_case(rng, 120, 7, False)
    yield gen_stats_case(rng, 257, 0, True)
    yield gen_stats_case(rng, 100, 100, rng.random() < 0.5)
    yield gen_stats_case(rng, 101, 50, False)                    # just above a multiple: 3 draws of 50
    yield gen_stats_case(rng, 103, 25, True)                     # 5 draws of 25
    if thorough:
        yield gen_stats_case(rng, 1000, 64, True)
        yield gen_stats_case(rng, 333, 1, False)
    # outside the quantifier (outcome only counted): nothing requested / no chains
    yield gen_stats_case(rng, 0, 0, False)
    yield gen_stats_case(rng, 0, 3, True)
    yield gen_stats_case(rng, 0, 2, False, user_rows=2)
    yield gen_stats_case(rng, 0, 2, True, user_rows=2, overwrite=True)
    yield gen_stats_case(rng, 3, 2, False, user_rows=0)


def one_case(ctx, case):
    if case["part"] == "spinconv":
        spinconv_case(ctx, case)
    elif case["part"] == "merge":
        merge_case(ctx, case)
    elif case["part"] == "formula":
        formula_case(ctx, case)
    elif case["part"] == "from_samples":
        from_samples_case(ctx, case)
    elif case["part"] == "sample":
        sample_case(ctx, case)
    else:
        stats_case(ctx, case)


def gen_tie(ctx):
    """translator tie (notes/translator.md): `_update_statistics` is re-translated from the source of the checked tree into Lean and
    compared with the committed lean/QV/Gen/UpdateStatistics.lean, which `C13_gen_update_eq_model` proves equal to the model's
    `updateStatistics` for all inputs; a textually different translation is re-proved in a scratch copy of the lake project"""
    from . import gentie
    return gentie.tie(ctx, "UpdateStatistics", "C13_gen_update_eq_model")


def run(ctx):
    ctx.rule = RULE
    gen_tie(ctx)
    for case in gen_cases(ctx, ctx.tier == "thorough"):
        one_case(ctx, case)


def search(ctx):
    """larger oracle-only sweep used when a proof obligation / auxiliary correspondence point is broken"""
    drv, ctx.driver = ctx.driver, None
    try:
        for case in gen_cases(ctx, True):
            one_case(ctx, case)
    finally:
        ctx.driver = drv


def replay(ctx, case):
    # replay files carry the sub-case fields (split / chunk) too; the whole case is re-run
    one_case(ctx, {k: v for k, v in case.items() if k not in ("split", "chunk")})
