"""C11 — save / load / autoload histories: correspondence of the heap model (QV.Model.Store, theorems
QV.Props.C11_*) with NeuralStateBase.save/load, the three autoloads and ModelSaver (driven through its public callback
interface), plus the property
oracles ("path -> snapshot at the last successful save") evaluated directly on the implementation."""
import copy
import hashlib
import os

from . import storeops as so
from .qc import torch

FILES = [
    "qucumber/nn_states/neural_state.py",
    "qucumber/nn_states/positive_wavefunction.py",
    "qucumber/nn_states/complex_wavefunction.py",
    "qucumber/nn_states/density_matrix.py",
    "qucumber/callbacks/model_saver.py",
    "qucumber/rbm/binary_rbm.py",
    "qucumber/rbm/purification_rbm.py",
    "qucumber/utils/unitaries.py",
]
REQUIRED_THEOREMS = ["C11_roundtrip", "C11_roundtrip_autoload", "C11_reserved", "C11_no_side_effect", "C11_idempotent", "C11_history",
                     "C11_autoload_stream", "C11_load_stream", "C11_save_stream", "C11_history_streams", "C11_load_replaces_dict", "C11_saver_path"]
EXTRA_TRUSTED = [
    "torch.save / torch.load are a faithful map from the saved dict to the loaded dict (a file is a map of tokens in the model)",
    "tensor contents are identified by the hash of their bytes (tokens); storage identity by data_ptr() with all observed tensors kept alive",
]
RULE = ("case = random history (<= 12 ops quick / <= 40 thorough) over up to 3 states, 3 RBM modules, 3 metadata dict objects and 3 files: "
        "construct (3 state types, num_hidden/num_aux None or != num_visible, custom unitary dicts via create_dict(**extra), or a caller-owned "
        "dictionary object shared by several constructors and checked after every op), external "
        "in-place randomisation of all parameters (non-zero biases), real fit, addUnitary, mkMeta (None, {}, flat, nested, tensor-valued, "
        "reserved keys, non-string key; the key 'unitary_dict' also on states WITHOUT a dictionary, where it is ordinary metadata), save, repeated "
        "save with the same dict, ModelSaver checkpoints through on_epoch_end (dict / callable / None, metadata_only), location as a path or "
        "as an open file object (save, load, autoload; a real file or an io.BytesIO; positioned at 0, BEHIND a header of 1-1000 bytes the caller "
        "wrote first, or at the end of a STREAM of checkpoints shared by several saves of several models - a history file is (physical file, "
        "start position) and is read back from exactly there; checkpoints followed by later data are not readable by torch.load itself and not read), "
        "load (compatible and incompatible), autoload (same and other state type), reinitialise; after every op all parameter tokens, "
        "identity classes, unitary dicts, metadata contents, torch.load of every file and the error kind are compared exactly with the "
        "model. ARGUMENT FORMS (seed `af` of every op with options): num_visible / num_hidden / num_aux, epochs / pos_batch_size / k of fit and the "
        "ModelSaver period (a divisor of the epoch) as Python int / numpy.int64 / int32 / intp / uint8 / 0-d numpy array / 0-d torch tensor; gpu, "
        "save_initial, metadata_only as bool / int / numpy.bool_ / numpy comparison result / 0-d numpy array / 0-d torch tensor; ModelSaver and "
        "autoload by keyword or positionally. LOCATION FORMS: one history in four (and every hand-written history a second time) writes every path "
        "RELATIVE to the caller's working directory, and changes the working directory between creating a ModelSaver and the epochs it saves at "
        "(the files stay <folder_path as given at construction>/<file_name>); the hand-written histories and 12 generated ones run again under "
        "each process-global environment (default dtype float64, no_grad, another cwd). non-trivial iff some load/autoload succeeds from a file written after a randomisation/training of its source; "
        "distinct by hash of the plan")

MD_KINDS = {
    "empty": [],
    "flat": [["epoch", "int"], ["lr", "float"], ["note", "str"]],
    "nested": [["cfg", "dict"], ["hist", "list"], ["epoch", "int"]],
    "tensor": [["t", "tensor"], ["td", "tdict"], ["epoch", "zero"]],
    "falsyvals": [["epoch", "zero"], ["cfg", "emptydict"]],
    "res_am": [["epoch", "int"], ["rbm_am", "int"]],
    "res_ph": [["rbm_ph", "dict"], ["note", "str"]],
    "res_ud": [["epoch", "int"], ["unitary_dict", "int"]],
    "res_both": [["unitary_dict", "str"], ["rbm_am", "dict"]],
    "res_am_falsy": [["rbm_am", "zero"], ["epoch", "int"]],
    "res_ph_falsy": [["note", "str"], ["rbm_ph", "emptydict"]],
    "res_ud_falsy": [["unitary_dict", "zero"]],
    "nonstr": [[7, "str"], ["epoch", "int"]],
    "nonstr_res": [[7, "str"], ["rbm_am", "int"]],
}
MD_WEIGHTS = [("empty", 2), ("flat", 5), ("nested", 4), ("tensor", 4), ("falsyvals", 1), ("res_am", 2), ("res_ph", 2),
              ("res_ud", 2), ("res_both", 1), ("res_am_falsy", 2), ("res_ph_falsy", 2), ("res_ud_falsy", 1), ("nonstr", 1), ("nonstr_res", 1)]


def wchoice(rng, pairs):
    tot = sum(w for _, w in pairs)
    x = rng.random() * tot
    for v, w in pairs:
        x -= w
        if x <= 0:
            return v
    return pairs[-1][0]


def rand_arch(rng, kind):
    nv = rng.choice([1, 2, 2, 3])
    nh = rng.choice([None, nv + 1, nv + 2, 1 if nv > 1 else 3])
    na = rng.choice([None, nv + 1, 1 if nv > 1 else 2]) if kind == "dens" else None
    return nv, nh, na


def fobj_form(rng, writing):
    """`location` as an open file object. Writing: a fresh file (the state starts at position 0), a file in which the caller has already
    written a header of his own (the state starts at position n > 0), or a stream of checkpoints to which the state is appended (shared
    by several saves of this and other models); a real file or an io.BytesIO.  Reading: WHERE the state starts is a fact of the history
    (how the file was written) - a location that is not the start of its own file is always handed over as a file object positioned there;
    the reader only chooses between path / real file object / BytesIO."""
    io = "bytes" if rng.random() < 0.4 else None
    if not writing:
        f = {"fobj": True} if rng.random() < 0.3 else {}
        if io:
            f["io"] = io   # used whenever the location has to be (or is chosen to be) a file object
        return f
    f = {"fobj": True}
    r = rng.random()
    if r < 0.3:
        f["hdr"] = rng.choice([1, 14, 15, 1000])
    elif r < 0.65:
        f["stream"] = rng.randrange(2)
    if io:
        f["io"] = io
    return f


def gen_plan(rng, maxlen):
    plan = []
    archs = []  # (kind, nv, nh, na) used so far: reused to make compatible loads likely
    states, metas, saved = {}, set(), {}
    uds = []  # caller-owned unitary dictionaries created so far (each may be handed to SEVERAL constructors)

    def construct(slot):
        if archs and rng.random() < 0.45:
            kind, nv, nh, na = rng.choice(archs)
        else:
            kind = rng.choice(["pos", "cplx", "cplx", "dens", "dens"])
            nv, nh, na = rand_arch(rng, kind)
            archs.append((kind, nv, nh, na))
        ud = None
        if kind != "pos":
            ud = rng.choice([None, None, "empty", ["H"], ["H", "S"], ["X"], {"raw": ["Z", "H"]}, {"raw": ["X", "Z"]},
                             {"raw": ["Z", "X", "K"]}, {"raw": ["H"]}])
            if rng.random() < 0.4:
                # the caller keeps the dictionary object and passes the same one to every constructor that asks for it
                if not uds or rng.random() < 0.3:
                    us = len(uds)
                    uds.append(us)
                    plan.append({"t": "mkUD", "udslot": us, "names": rng.choice([["H"], ["H", "S"], ["X", "K"], ["S"], {"raw": ["Z", "Y", "S"]}, {"raw": ["K"]}])})
                ud = {"ref": rng.choice(uds)}
        states[slot] = (kind, nv, nh, na)
        return {"t": "construct", "slot": slot, "kind": kind, "nv": nv, "nh": nh, "na": na, "ud": ud}

    n = rng.randint(max(4, maxlen // 2), maxlen)
    plan.append(construct(0))
    plan.append({"t": "write", "slot": 0, "net": "rbm_am"})
    while len(plan) < n:
        r = rng.random()
        slot = rng.choice(sorted(states))
        kind = states[slot][0]
        path = rng.randrange(3)
        if r < 0.10:
            plan.append(construct(rng.randrange(3)))
        elif r < 0.24:
            plan.append({"t": "write", "slot": slot, "net": rng.choice(so.NETS[kind])})
        elif r < 0.30:
            plan.append({"t": "train", "slot": slot, "bases": True, "opt": rng.choice(["sgd", "adam"]), "epochs": 1})
        elif r < 0.36:
            plan.append({"t": "addUnitary", "slot": slot, "name": rng.choice(["H", "S", "K", "X"])})
        elif r < 0.47:
            s = rng.randrange(3)
            metas.add(s)
            plan.append({"t": "mkMeta", "mdslot": s, "items": MD_KINDS[wchoice(rng, MD_WEIGHTS)]})
        elif r < 0.66:
            md = rng.choice(sorted(metas)) if metas and rng.random() < 0.8 else None
            op = {"t": "save", "slot": slot, "md": md, "path": path}
            if rng.random() < 0.4:
                op.update(fobj_form(rng, True))  # `location` is an open file object (fresh file / after a header / appended to a stream)
            plan.append(op)
            saved[path] = states[slot]
            if rng.random() < 0.35:
                plan.append(dict(op))  # save again with the very same arguments
        elif r < 0.74:
            src = rng.choice(["dict", "dict", "none", "callable"])
            op = {"t": "saverSave", "slot": slot, "src": src, "mdslot": rng.choice(sorted(metas)) if metas else 0,
                  "items": MD_KINDS[wchoice(rng, MD_WEIGHTS)], "metadataOnly": rng.random() < 0.2, "path": path}
            if src == "dict" and not metas:
                op["src"] = "none"
            plan.append(op)
            if not op["metadataOnly"]:
                saved[path] = states[slot]
            for _ in range(rng.choice([0, 1, 2])):  # ModelSaver: the same saver and metadata object every period ...
                if rng.random() < 0.5:              # ... with the state trained / changed between the periods, as in a real fit
                    plan.append({"t": "write", "slot": slot, "net": rng.choice(so.NETS[kind])} if rng.random() < 0.5 else
                                {"t": "train", "slot": slot, "bases": True, "opt": rng.choice(["sgd", "adam"]), "epochs": 1})
                plan.append(dict(op))
        elif r < 0.87:
            # load: prefer a file written by a state of the same architecture
            good = [p for p, a in saved.items() if a == states[slot]]
            p = rng.choice(good) if good and rng.random() < 0.7 else (rng.choice(sorted(saved)) if saved and rng.random() < 0.8 else path)
            if kind != "pos" and rng.random() < 0.5:
                # the receiver owns user letters the file (most likely) lacks: `load` REPLACES the dictionary, it does not merge
                for nm in rng.choice([["Q"], ["R", "Q"], ["Q", "H"]]):
                    plan.append({"t": "addUnitary", "slot": slot, "name": nm})
            plan.append({"t": "load", "slot": slot, "path": p})
            plan[-1].update(fobj_form(rng, False))
        elif r < 0.97:
            p = rng.choice(sorted(saved)) if saved and rng.random() < 0.85 else path
            k = saved[p][0] if p in saved and rng.random() < 0.7 else rng.choice(["pos", "cplx", "dens"])
            s = rng.randrange(3)
            plan.append({"t": "autoload", "slot": s, "kind": k, "path": p})
            plan[-1].update(fobj_form(rng, False))
            if p in saved and k == saved[p][0]:
                states[s] = saved[p]
        else:
            plan.append({"t": "reinit", "slot": slot})
    return so.add_forms(plan[: maxlen + 4], rng)


def file_hash(p):
    """hash of the bytes of a file; a missing file and an empty one (a stream the caller has just opened) hold the same: nothing"""
    return hashlib.sha1(open(p, "rb").read() if os.path.exists(p) else b"").hexdigest()


class Hooks:
    """property oracles evaluated on the implementation only"""

    def __init__(self, ctx, case):
        self.ctx = ctx
        self.case = case
        self.last_saved = {}  # path -> snapshot at the last successful save  (the abstract specification)
        self.prev = None
        self.dirty = {}  # slot -> source modified (write/train) since construction
        self.nontrivial = False
        self.cut = False   # set when the implementation's outcome is unconstrained by the property and the model cannot follow it: the history ends
        self.cross_kind = set()  # id(op) of autoloads as ANOTHER state type than the one that wrote the file

    def canon_err(self, op, e_impl, e_model):
        """autoload of a file written by another state type is outside the property ("auto-constructing a model from it"): which
        exception it raises depends on which entry of the file the autoload happens to read first; only raises / does not raise is compared"""
        if op["t"] == "autoload" and id(op) in self.cross_kind:
            return (None if e_impl is None else "raises"), (None if e_model is None else "raises")
        return e_impl, e_model

    def theorem(self, op, comp):
        t = op["t"]
        if t in ("save", "saverSave"):
            return {"err": "C11_reserved", "files": "C11_roundtrip (file[k] = md[k]), C11_idempotent",
                    "metas": "C11_no_side_effect", "states": "C11_no_side_effect", "modules": "C11_no_side_effect"}[comp]
        if t in ("load", "autoload"):
            return "C11_roundtrip, C11_history"
        return "model of the operation (by construction)"

    def cs(self, op):
        return {"plan": self.case["plan"], "tseed": self.case["tseed"], "op": op, **({"rel": True} if self.case.get("rel") else {})}

    def before(self, real, op):
        t = op["t"]
        pre = {}
        if t in ("save", "saverSave"):
            st = real.models[op["slot"]]
            pre["snap"] = so.snapshot_state(st)
            md = None
            if t == "save" and op["md"] is not None:
                md = real.metas[op["md"]]
            if t == "saverSave" and op["src"] == "dict":
                md = real.metas[op["mdslot"]]
            pre["md"] = md
            pre["md_copy"] = copy.deepcopy(md)
            pre["hash"] = file_hash(real.target_of(op))
            pre["metas"] = {k: copy.deepcopy(v) for k, v in real.metas.items()}
        if t == "load":
            pre["snap"] = so.snapshot_state(real.models[op["slot"]])
        return pre

    def after(self, real, op, pre, err, w):
        ctx, t = self.ctx, op["t"]
        cs = self.cs(op)
        if getattr(real, "unconstrained", None):
            # audit 3 (B5): the saver wrote, but under the working directory of the moment - where it writes after a chdir is not in the
            # property text: recorded, no verdict, and the history ends here (storeops.Real.apply, saverSave)
            ctx.info("saverSave/relative-folder-denotes-the-directory-at-construction", False, True)
            self.cut = True
            return
        if real.uds:
            bad = real.changed_uds()
            ctx.oracle("no operation changes a unitary dictionary the caller owns (keys and tensor bytes)", not bad, cs,
                       detail={"changed_udslots": bad}, sig=f"{t}/caller-unitary-dict", theorem="C11_no_side_effect")
            if t in ("load", "autoload", "addUnitary") and err is None:
                ctx.count("shared_ud_checked_after_" + t)
        if t in ("write", "train") and err is None:
            self.dirty[op["slot"]] = True
        if t in ("construct", "constructFrom") and err is None:
            self.dirty[op["slot"]] = False
        if t == "save" and op.get("fobj") and err is None and real.last_write is not None:
            lw = real.last_write
            ctx.oracle("save(open file object) writes the state from the object's current position on and leaves the bytes in front of it "
                       "(the caller's header, earlier checkpoints of the stream) unchanged", lw["prefix_intact"] and lw["grew"], cs, detail=lw,
                       sig="save/file-object-position", theorem="C11_no_side_effect, C11_history (other files keep their snapshot)")
        if t in ("save", "saverSave"):
            st = real.models[op["slot"]]
            target = real.target_of(op)
            md = pre["md"]
            keys = list(pre["md_copy"].keys()) if pre["md_copy"] else []
            if t == "saverSave" and op["src"] == "callable":
                keys = [k for k, _ in op["items"]]
            monly = t == "saverSave" and op["metadataOnly"]
            has_ud = hasattr(st, "unitary_dict")
            reserved = (not monly) and (any(k in st.networks for k in keys) or (has_ud and "unitary_dict" in keys))
            nonstr = (not monly) and any(not isinstance(k, str) for k in keys)
            # "reserved names refused": refused or not - with whatever exception class. A metadata key that is not a string is outside the
            # property (torch can store it; the present code happens to refuse it): its outcome is a counter, and a history in which the
            # implementation accepts it ends there (the model refuses, `Store.lean` save)
            if reserved or not nonstr:
                ctx.oracle("save refuses exactly the reserved names (refused with any exception / not refused)", (err is not None) == reserved, cs,
                           detail={"err": err, "reserved": reserved, "keys": [str(k) for k in keys]}, sig="save/reserved", theorem="C11_reserved")
            else:
                ctx.count("save:non-string-metadata-key:" + ("accepted" if err is None else f"refused({err})"))
                if err is None:
                    self.cut = True
            # no side effects on the metadata object (identity is the caller's variable; contents compared deeply) nor on the model
            ctx.oracle("save leaves the caller's metadata dict unchanged", so.deep_equal(md, pre["md_copy"]), cs,
                       detail={"before": repr(pre["md_copy"])[:300], "after": repr(md)[:300]}, sig="save/metadata-mutated", theorem="C11_no_side_effect")
            ctx.oracle("save leaves every metadata object unchanged",
                       all(so.deep_equal(real.metas[k], v) for k, v in pre["metas"].items()), cs, sig="save/other-metadata-mutated", theorem="C11_no_side_effect")
            now = so.snapshot_state(st)
            ctx.oracle("save leaves the model unchanged", so.deep_equal(now["nets"], pre["snap"]["nets"]) and so.deep_equal(now["ud"], pre["snap"]["ud"]),
                       cs, sig="save/model-mutated", theorem="C11_no_side_effect")
            if err is not None:
                ctx.oracle("a refused save writes nothing", file_hash(target) == pre["hash"], cs, sig="save/wrote-after-refusal", theorem="C11_reserved")
            elif not real.file_exists(op["path"]):
                what = ("ModelSaver(period, folder, file_name).on_epoch_end(state, epoch) with epoch % period == 0 writes folder/file_name.format(epoch)"
                        if t == "saverSave" else "a successful save leaves a file at the requested location")
                ctx.oracle(what, False, cs, detail={"expected_file": os.path.basename(target), "present": sorted(os.listdir(real.tmp))[:8]},
                           sig=f"{t}/no-file", theorem="C11_roundtrip")
            else:
                try:
                    f = real.read_file(op["path"])
                except Exception as e:  # noqa: BLE001 - what the save wrote is not a checkpoint torch can read
                    f = {"<unreadable>": type(e).__name__}
                if monly:
                    self.last_saved[op["path"]] = {"metadata_only": True}
                    if op["src"] != "callable":
                        ctx.oracle("metadata_only file == metadata", so.deep_equal(f, md if op["src"] == "dict" else {}), cs, sig="saver/metadata-only")
                else:
                    snap = pre["snap"]
                    ok_n = all(n in f and so.nets_equal(dict(f[n]), snap["nets"][n]) for n in st.networks)
                    ok_u = (not has_ud) or ("unitary_dict" in f and so.deep_equal(dict(f["unitary_dict"]), snap["ud"]))
                    ok_m = all(k in f and so.deep_equal(f[k], pre["md_copy"][k]) for k in keys) if md else True
                    ctx.oracle("file == snapshot of the state + metadata", ok_n and ok_u and ok_m, cs,
                               detail={"nets": ok_n, "ud": ok_u, "metadata": ok_m}, sig="save/file-contents", theorem="C11_roundtrip")
                    self.last_saved[op["path"]] = {"snap": snap, "dirty": self.dirty.get(op["slot"], False)}
                    # idempotence: the very same call directly before succeeded too and wrote an equal file
                    if self.prev is not None and self.prev["op"] == op and op.get("src") != "callable":
                        ctx.oracle("save; save with the same arguments: both succeed, equal files",
                                   self.prev["err"] is None and so.deep_equal(self.prev["file"], f), cs,
                                   detail={"first_err": self.prev["err"]}, sig="save/idempotent", theorem="C11_idempotent")
                        ctx.count("double_save")
            if self.prev is not None and self.prev["op"] == op and self.prev["err"] is None and not monly:
                ctx.oracle("second save with the same arguments succeeds", err is None, cs, detail={"err": err}, sig="save/second-save-fails", theorem="C11_idempotent")
            self.prev = {"op": dict(op), "err": err, "file": f if err is None and real.file_exists(op["path"]) else None}
        else:
            self.prev = None
        if t == "load":
            st = real.models[op["slot"]]
            ls = self.last_saved.get(op["path"])
            if ls is None:
                ctx.count("load:path-never-saved:" + str(err))   # not a clause of the property
            elif ls.get("metadata_only"):
                ctx.oracle("load of a metadata-only file fails", err is not None, cs, sig="load/metadata-only")
            else:
                snap = ls["snap"]
                compat = all(n in snap["nets"] and [(k, tuple(v.shape)) for k, v in snap["nets"][n].items()]
                             == [(k, tuple(v.shape)) for k, v in pre["snap"]["nets"][n].items()] for n in st.networks)
                if compat:
                    now = so.snapshot_state(st)
                    ok = err is None and all(so.nets_equal(now["nets"][n], snap["nets"][n]) for n in st.networks)
                    if now["ud"] is not None and snap["ud"] is not None:
                        ok = ok and so.deep_equal(now["ud"], snap["ud"])
                    ctx.oracle("load yields the snapshot of the most recent successful save", ok, cs, detail={"err": err}, sig="load/roundtrip", theorem="C11_history")
                    ctx.count("load_compatible")
                    if pre["snap"]["ud"] is not None and snap["ud"] is not None:
                        extra = [k for k in pre["snap"]["ud"] if k not in snap["ud"]]
                        if extra:
                            ctx.count("load_into_receiver_whose_dictionary_has_letters_the_file_lacks")
                            ctx.oracle("after load the receiver's unitary dictionary is EXACTLY the saved one: the letters only the receiver had are gone",
                                       err is None and sorted((now["ud"] or {}).keys()) == sorted(snap["ud"].keys()), cs,   # audit 3 (B9): as SETS - letter order is not constrained
                                       detail={"receiver_had": list(pre["snap"]["ud"].keys()), "file_has": list(snap["ud"].keys()), "receiver_has": list((now["ud"] or {}).keys())},
                                       sig="load/dict-replaced", theorem="C11_load_replaces_dict")
                    if ls["dirty"]:
                        self.nontrivial = True
                else:
                    ctx.oracle("load into an incompatible model fails", err is not None, cs, sig="load/incompatible-accepted")
                    ctx.count("load_incompatible")
        if t in ("save", "load", "autoload"):
            is_fobj = bool(op.get("fobj")) or (t != "save" and real.must_be_fileobj(op["path"]))
            if is_fobj:
                ctx.count(f"location_is_open_file:{t}" + (":BytesIO" if op.get("io") == "bytes" else ""))
                phys, off = (real.target_of(op), (real.last_write or {}).get("start", 0)) if t == "save" else real.where(op["path"])
                if off != 0:
                    ctx.count(f"location_starts_at_nonzero_position:{t}" + (":in_a_stream_of_checkpoints" if os.path.basename(phys).startswith("stream") else ":after_a_header"))
        if t in ("save", "saverSave") and pre.get("md_copy") and "unitary_dict" in pre["md_copy"] and not hasattr(real.models[op["slot"]], "unitary_dict"):
            ctx.count("metadata_key_unitary_dict_on_state_without_dictionary:" + ("accepted" if err is None else str(err)))
        if t == "autoload":
            ls = self.last_saved.get(op["path"])
            if ls is None:
                ctx.count("autoload:path-never-saved:" + str(err))   # not a clause of the property
            elif ls.get("metadata_only"):
                self.cross_kind.add(id(op))  # a metadata-only checkpoint is not a saved state
            else:
                snap = ls["snap"]
                same = so.KINDS[op["kind"]].__name__ == snap["kind"]
                if same:
                    ok = err is None
                    if ok:
                        now = so.snapshot_state(real.models[op["slot"]])
                        ok = (now["arch"] == snap["arch"] and so.deep_equal(now["nets"], snap["nets"]) and so.deep_equal(now["ud"], snap["ud"]))
                    ctx.oracle("autoload reproduces architecture, parameters and unitary dict of the last save", ok, cs, detail={"err": err},
                               sig="autoload/file-object" if (op.get("fobj") or real.must_be_fileobj(op["path"])) else "autoload/roundtrip", theorem="C11_roundtrip_autoload")
                    ctx.count("autoload_same_kind")
                    if ls["dirty"]:
                        self.nontrivial = True
                else:
                    self.cross_kind.add(id(op))
                    ctx.count("autoload_other_kind")
                    if err is None:
                        now = so.snapshot_state(real.models[op["slot"]])
                        ctx.oracle("autoload as another state type, when accepted, reproduces the shared networks",
                                   all(so.nets_equal(now["nets"][n], snap["nets"][n]) for n in now["nets"]), cs, sig="autoload/cross-kind")


def level_fn(op, err):
    return "property" if err is None or op["t"] in ("save", "saverSave") else "aux"


def one_case(ctx, case):
    hooks = Hooks(ctx, case)
    kept, obs = so.run_history(ctx, case, "c11.run", hooks, level_fn)
    ctx.case({"plan": case["plan"], "tseed": case["tseed"], "rel": bool(case.get("rel"))}, nontrivial=hooks.nontrivial,
             sample={"ops": [o["t"] for o in kept], "errors": [e for e, _ in obs], "tseed": case["tseed"]})
    ctx.count("cases_with_roundtrip" if hooks.nontrivial else "cases_without_roundtrip")


def fixed_cases():
    """hand-written histories that every run replays (see `_fixed_cases`), each with argument forms from a stream seeded by its tseed"""
    import random

    for case in _fixed_cases():
        so.add_forms(case["plan"], random.Random(case["tseed"]))
        yield case


def _fixed_cases():
    """hand-written histories that every run replays: F5 scenario (ModelSaver reusing one dict on a state with a unitary
    dict), cross-type autoloads, partial load, reserved names"""
    c = lambda **k: k  # noqa: E731
    yield {"tseed": 101, "plan": [
        c(t="construct", slot=0, kind="cplx", nv=2, nh=3, na=None, ud=["H"]), c(t="write", slot=0, net="rbm_am"), c(t="write", slot=0, net="rbm_ph"),
        c(t="mkMeta", mdslot=0, items=MD_KINDS["flat"]),
        c(t="saverSave", slot=0, src="dict", mdslot=0, items=[], metadataOnly=False, path=0),
        c(t="saverSave", slot=0, src="dict", mdslot=0, items=[], metadataOnly=False, path=0),
        c(t="save", slot=0, md=0, path=1), c(t="save", slot=0, md=0, path=1),
        c(t="addUnitary", slot=0, name="K"), c(t="save", slot=0, md=0, path=1),
        c(t="autoload", slot=1, kind="cplx", path=1), c(t="autoload", slot=2, kind="pos", path=1), c(t="autoload", slot=2, kind="dens", path=1),
        c(t="construct", slot=2, kind="cplx", nv=2, nh=2, na=None, ud=None), c(t="load", slot=2, path=1)]}
    yield {"tseed": 102, "plan": [
        c(t="construct", slot=0, kind="dens", nv=2, nh=3, na=1, ud=["S", "H"]), c(t="train", slot=0, bases=True, opt="adam", epochs=1),
        c(t="mkMeta", mdslot=1, items=MD_KINDS["res_ud"]), c(t="save", slot=0, md=1, path=0),
        c(t="mkMeta", mdslot=2, items=MD_KINDS["tensor"]), c(t="save", slot=0, md=2, path=0), c(t="save", slot=0, md=2, path=0),
        c(t="autoload", slot=1, kind="dens", path=0), c(t="autoload", slot=2, kind="cplx", path=0), c(t="autoload", slot=2, kind="pos", path=0),
        c(t="construct", slot=2, kind="dens", nv=2, nh=3, na=1, ud=None), c(t="load", slot=2, path=0),
        c(t="construct", slot=2, kind="dens", nv=2, nh=3, na=2, ud=None), c(t="load", slot=2, path=0), c(t="load", slot=2, path=2)]}
    yield {"tseed": 103, "plan": [
        c(t="construct", slot=0, kind="pos", nv=3, nh=None, na=None, ud=None), c(t="write", slot=0, net="rbm_am"),
        c(t="mkMeta", mdslot=0, items=MD_KINDS["res_ph"]), c(t="save", slot=0, md=0, path=2),
        c(t="mkMeta", mdslot=1, items=MD_KINDS["res_am"]), c(t="save", slot=0, md=1, path=2),
        c(t="mkMeta", mdslot=2, items=MD_KINDS["nonstr"]), c(t="save", slot=0, md=2, path=2),
        c(t="construct", slot=1, kind="cplx", nv=3, nh=3, na=None, ud=None), c(t="load", slot=1, path=2),
        c(t="autoload", slot=2, kind="cplx", path=2), c(t="autoload", slot=2, kind="pos", path=2),
        c(t="saverSave", slot=0, src="callable", mdslot=0, items=MD_KINDS["nested"], metadataOnly=True, path=1), c(t="load", slot=0, path=1)]}


    # two (three) models built from the SAME caller-owned unitary dictionary; a file whose same-named unitaries have other values is
    # loaded into one of them: the other models and the caller's dictionary must keep theirs
    yield {"tseed": 104, "plan": [
        c(t="mkUD", udslot=0, names=["H", "S"]), c(t="mkUD", udslot=1, names=["H", "S"]),
        c(t="construct", slot=0, kind="cplx", nv=2, nh=3, na=None, ud={"ref": 0}),
        c(t="construct", slot=1, kind="cplx", nv=2, nh=3, na=None, ud={"ref": 0}),
        c(t="construct", slot=2, kind="cplx", nv=2, nh=3, na=None, ud={"ref": 1}), c(t="write", slot=2, net="rbm_am"), c(t="addUnitary", slot=2, name="K"),
        c(t="save", slot=2, md=None, path=0), c(t="load", slot=0, path=0), c(t="save", slot=1, md=None, path=1),
        c(t="addUnitary", slot=0, name="H"), c(t="save", slot=0, md=None, path=2), c(t="load", slot=1, path=2),
        c(t="construct", slot=2, kind="dens", nv=2, nh=3, na=1, ud={"ref": 0}), c(t="autoload", slot=0, kind="cplx", path=1),
        c(t="load", slot=0, path=0), c(t="reinit", slot=0), c(t="save", slot=0, md=None, path=0)]}


    # a metadata key "unitary_dict" on a state that HAS no unitary dictionary is ordinary metadata: saved, saved again, loaded,
    # auto-loaded as the same state type; also in a metadata-only checkpoint (which is then not a loadable state)
    yield {"tseed": 105, "plan": [
        c(t="construct", slot=0, kind="pos", nv=2, nh=3, na=None, ud=None), c(t="write", slot=0, net="rbm_am"),
        c(t="mkMeta", mdslot=0, items=MD_KINDS["res_ud"]), c(t="save", slot=0, md=0, path=0), c(t="save", slot=0, md=0, path=0),
        c(t="construct", slot=1, kind="pos", nv=2, nh=3, na=None, ud=None), c(t="load", slot=1, path=0),
        c(t="autoload", slot=2, kind="pos", path=0),
        c(t="mkMeta", mdslot=1, items=MD_KINDS["res_ud_falsy"]), c(t="save", slot=0, md=1, path=1, fobj=True), c(t="autoload", slot=2, kind="pos", path=1, fobj=True),
        c(t="saverSave", slot=0, src="dict", mdslot=0, items=[], metadataOnly=False, path=2),
        c(t="saverSave", slot=0, src="dict", mdslot=0, items=[], metadataOnly=False, path=2), c(t="load", slot=1, path=2, fobj=True),
        c(t="saverSave", slot=0, src="dict", mdslot=0, items=[], metadataOnly=True, path=1), c(t="load", slot=1, path=1), c(t="autoload", slot=2, kind="pos", path=1),
        c(t="mkMeta", mdslot=2, items=MD_KINDS["res_both"]), c(t="save", slot=0, md=2, path=0)]}
    # `location` as an open file object for every state type: save, save again, load, autoload
    yield {"tseed": 106, "plan": [
        c(t="construct", slot=0, kind="cplx", nv=2, nh=1, na=None, ud=["H"]), c(t="write", slot=0, net="rbm_ph"),
        c(t="mkMeta", mdslot=0, items=MD_KINDS["tensor"]), c(t="save", slot=0, md=0, path=0, fobj=True), c(t="save", slot=0, md=0, path=0, fobj=True),
        c(t="autoload", slot=1, kind="cplx", path=0, fobj=True), c(t="write", slot=1, net="rbm_am"), c(t="load", slot=1, path=0, fobj=True),
        c(t="construct", slot=2, kind="dens", nv=2, nh=3, na=1, ud=None), c(t="write", slot=2, net="rbm_am"), c(t="save", slot=2, md=None, path=1, fobj=True),
        c(t="autoload", slot=0, kind="dens", path=1, fobj=True), c(t="mkMeta", mdslot=1, items=MD_KINDS["res_ud"]), c(t="save", slot=2, md=1, path=1, fobj=True),
        c(t="autoload", slot=1, kind="dens", path=1), c(t="load", slot=0, path=1, fobj=True)]}

    # the receiver of a load owns user letters (Q, R, its own H) the file lacks: afterwards it has exactly the file's dictionary
    yield {"tseed": 110, "plan": [
        c(t="construct", slot=0, kind="cplx", nv=2, nh=3, na=None, ud=["H"]), c(t="write", slot=0, net="rbm_am"), c(t="addUnitary", slot=0, name="K"),
        c(t="construct", slot=1, kind="cplx", nv=2, nh=3, na=None, ud=["H"]), c(t="addUnitary", slot=1, name="Q"), c(t="addUnitary", slot=1, name="R"),
        c(t="save", slot=0, md=None, path=0), c(t="load", slot=1, path=0), c(t="save", slot=1, md=None, path=1),
        c(t="construct", slot=2, kind="dens", nv=2, nh=3, na=1, ud={"raw": ["Z", "Q"]}), c(t="write", slot=2, net="rbm_ph"), c(t="save", slot=2, md=None, path=2),
        c(t="construct", slot=0, kind="dens", nv=2, nh=3, na=1, ud=["R", "S"]), c(t="addUnitary", slot=0, name="Q"), c(t="load", slot=0, path=2, fobj=True),
        c(t="autoload", slot=1, kind="dens", path=2)]}

    # file objects that do NOT start at position 0, for every state type: a stream of checkpoints (the same model saved, changed, saved
    # again into one open file; another model's checkpoint behind it), each checkpoint auto-loaded / loaded from its own start position;
    # a state saved behind a header the caller wrote first; real files and io.BytesIO
    for i, (kind, nh, na) in enumerate((("pos", 3, None), ("cplx", 1, None), ("dens", 3, 1))):
        ud = None if kind == "pos" else ["H"]
        other = {"pos": "cplx", "cplx": "dens", "dens": "pos"}[kind]
        yield {"tseed": 107 + i, "plan": [
            c(t="construct", slot=0, kind=kind, nv=2, nh=nh, na=na, ud=ud), c(t="write", slot=0, net="rbm_am"),
            c(t="mkMeta", mdslot=0, items=MD_KINDS["flat"]),
            c(t="save", slot=0, md=0, path=0, fobj=True, stream=0),                       # checkpoint 1 of the stream
            c(t="write", slot=0, net="rbm_am"), c(t="save", slot=0, md=0, path=1, fobj=True, stream=0),   # checkpoint 2 (same model, trained on)
            c(t="autoload", slot=2, kind=kind, path=1), c(t="write", slot=0, net="rbm_am"), c(t="load", slot=0, path=1, io="bytes"),
            c(t="construct", slot=1, kind=other, nv=3, nh=2, na=(2 if other == "dens" else None), ud=None), c(t="write", slot=1, net="rbm_am"),
            c(t="save", slot=1, md=None, path=2, fobj=True, stream=0, io="bytes"),        # checkpoint 3: another model
            c(t="autoload", slot=2, kind=other, path=2), c(t="autoload", slot=2, kind=other, path=2, io="bytes"),
            c(t="write", slot=0, net=so.NETS[kind][-1]), c(t="save", slot=0, md=0, path=3, fobj=True, hdr=14),   # state behind a 14-byte header
            c(t="save", slot=0, md=0, path=3, fobj=True, hdr=14), c(t="autoload", slot=2, kind=kind, path=3),
            c(t="save", slot=0, md=None, path=4, fobj=True, hdr=1000, io="bytes"), c(t="autoload", slot=1, kind=kind, path=4, io="bytes"),
            c(t="reinit", slot=0), c(t="load", slot=0, path=3),
            c(t="save", slot=0, md=0, path=1),                                            # the file number now names an ordinary file
            c(t="autoload", slot=2, kind=kind, path=1),
            c(t="mkMeta", mdslot=1, items=MD_KINDS["res_am"]), c(t="save", slot=0, md=1, path=0, fobj=True, stream=0),   # refused: nothing appended
            c(t="autoload", slot=2, kind=other, path=2)]}


def gen_cases(ctx, thorough, ncases=None):
    maxlen = 40 if thorough else 12
    n = ncases if ncases is not None else (400 if thorough else 120)
    for k in range(n):
        # one history in four: every location written as a RELATIVE path, the working directory changed between creating a ModelSaver and using it
        yield {"plan": gen_plan(ctx.rng, maxlen), "tseed": ctx.rng.randrange(1, 2 ** 31), "rel": ctx.rng.random() < 0.25}


# ---------------------------------------------------------------- extension round 2: the location forms inside the model
# (lean/QV/Model/StoreLoc.lean; driver ops c11.srun, c11.saverPath)

def gen_stream_case(rng):
    """ONE open file object (io.BytesIO or a real file opened "w+b"), optionally a header the caller writes first, then 2-4 checkpoints of
    different models appended back to back (different architectures AND - reusing an architecture - equal sizes; parameters always
    different); after every save: autoload from the boundary of EVERY checkpoint written so far (those the installed torch cannot read at
    all are skipped, counter), and a load of one of them into its (changed) source model"""
    plan = [{"t": "openS", "sid": 0, "io": rng.choice(["bytes", "file"])}]
    hdr = rng.choice([0, 0, 1, 14, 1000])
    if hdr:
        plan.append({"t": "writeHdr", "sid": 0, "n": hdr})
    plan.append({"t": "mkMeta", "mdslot": 0, "items": MD_KINDS["flat"]})
    plan.append({"t": "mkMeta", "mdslot": 1, "items": MD_KINDS[rng.choice(["res_am", "res_ud", "res_ph"])]})
    archs, n = [], rng.randint(2, 4)
    for k in range(n):
        slot = k % 3
        if archs and rng.random() < 0.5:
            kind, nv, nh, na, ud = rng.choice(archs)       # same architecture as an earlier checkpoint: archives of EQUAL size
        else:
            kind = rng.choice(["pos", "cplx", "dens"])
            nv, nh, na = rand_arch(rng, kind)
            ud = None if kind == "pos" else rng.choice([None, ["H"], ["H", "S"], {"raw": ["Z", "X", "K"]}])
        archs.append((kind, nv, nh, na, ud))
        plan.append({"t": "construct", "slot": slot, "kind": kind, "nv": nv, "nh": nh, "na": na, "ud": ud})
        for net in so.NETS[kind]:
            plan.append({"t": "write", "slot": slot, "net": net})
        if kind != "pos" and rng.random() < 0.4:
            plan.append({"t": "addUnitary", "slot": slot, "name": rng.choice(["K", "Q"])})
        if rng.random() < 0.25:
            plan.append({"t": "saveS", "slot": slot, "md": 1, "sid": 0})   # mostly refused (reserved name): nothing appended
        plan.append({"t": "saveS", "slot": slot, "md": rng.choice([None, 0]), "sid": 0, "ck": k})
        for j in range(k + 1):
            plan.append({"t": "autoloadS", "slot": 3 + (j % 2), "kind": archs[j][0], "sid": 0, "at": j})
        j = rng.randrange(k + 1)
        if archs[j][:4] == archs[k][:4]:
            plan.append({"t": "write", "slot": slot, "net": "rbm_am"})
            if kind != "pos":
                plan.append({"t": "addUnitary", "slot": slot, "name": "R"})
            plan.append({"t": "loadS", "slot": slot, "sid": 0, "at": j})
    return so.add_forms(plan, rng)


def fixed_stream_cases():
    c = lambda **k: k  # noqa: E731
    import random
    for i, (io_kind, hdr) in enumerate((("bytes", 0), ("file", 14))):
        plan = [c(t="openS", sid=0, io=io_kind)] + ([c(t="writeHdr", sid=0, n=hdr)] if hdr else []) + [
            c(t="mkMeta", mdslot=0, items=MD_KINDS["flat"]),
            c(t="construct", slot=0, kind="dens", nv=2, nh=3, na=1, ud=["H"]), c(t="write", slot=0, net="rbm_am"), c(t="write", slot=0, net="rbm_ph"),
            c(t="saveS", slot=0, md=0, sid=0, ck=0), c(t="autoloadS", slot=3, kind="dens", sid=0, at=0),
            c(t="write", slot=0, net="rbm_am"), c(t="addUnitary", slot=0, name="K"),
            c(t="saveS", slot=0, md=0, sid=0, ck=1),                                                     # same model, trained on: equal size
            c(t="autoloadS", slot=3, kind="dens", sid=0, at=0), c(t="autoloadS", slot=4, kind="dens", sid=0, at=1),
            c(t="construct", slot=1, kind="pos", nv=3, nh=2, na=None, ud=None), c(t="write", slot=1, net="rbm_am"),
            c(t="saveS", slot=1, md=None, sid=0, ck=2),                                                  # another model: another size
            c(t="autoloadS", slot=3, kind="dens", sid=0, at=0), c(t="autoloadS", slot=4, kind="dens", sid=0, at=1), c(t="autoloadS", slot=3, kind="pos", sid=0, at=2),
            c(t="write", slot=1, net="rbm_am"), c(t="loadS", slot=1, sid=0, at=2)]
        yield {"kind": "stream", "tseed": 201 + i, "plan": so.add_forms(plan, random.Random(201 + i))}


def stream_case(ctx, case):
    """history with ONE open file object on the real code and on `QV.Store.srun` (driver op c11.srun)"""
    import io

    real = so.Real(case["tseed"])
    real.ctx = ctx
    fh = None
    segs = []       # (start, end, snapshot of the saved state | None for the caller's header)
    mops, checks = [], []   # model ops; (index of the model op, op, err, observation, extra)
    nontrivial = False
    cs0 = {"kind": "stream", "plan": case["plan"], "tseed": case["tseed"]}

    def content():
        pos = fh.tell()
        fh.seek(0)
        data = fh.read()
        fh.seek(pos)
        return data

    try:
        for op in case["plan"]:
            t = op["t"]
            cs = {**cs0, "op": op}
            if t == "openS":
                fh = io.BytesIO() if op["io"] == "bytes" else open(os.path.join(real.tmp, "stream.bin"), "w+b")
                mops.append({"t": "openS", "sid": 0})
                ctx.count("stream_object:" + op["io"])
                continue
            if t == "writeHdr":
                fh.seek(0, 2)
                a = fh.tell()
                fh.write(real.header_bytes(op["n"]))
                segs.append((a, fh.tell(), None))
                mops += [{"t": "seekS", "sid": 0, "pos": a}, {"t": "writeHdr", "sid": 0, "n": op["n"]}]
                ctx.count("stream_header_bytes:%d" % op["n"])
                continue
            if t == "saveS":
                if op["slot"] not in real.models:
                    continue
                st = real.models[op["slot"]]
                md = None if op["md"] is None else real.metas[op["md"]]
                snap = so.snapshot_state(st)
                before = content()
                fh.seek(0, 2)
                a = fh.tell()
                err = None
                try:
                    st.save(fh, md)
                except Exception as e:  # noqa: BLE001 - refused or not is what is compared
                    err = type(e).__name__
                after = content()
                keys = list(md.keys()) if md else []
                reserved = any(k in st.networks for k in keys) or (hasattr(st, "unitary_dict") and "unitary_dict" in keys)
                ctx.oracle("save(open file object) refuses exactly the reserved names", (err is not None) == reserved, cs, detail={"err": err},
                           sig="saveS/reserved", theorem="C11_save_stream")
                ctx.oracle("save(open file object) leaves every byte in front of the object's position unchanged",
                           after[:a] == before[:a], cs, sig="saveS/prefix", theorem="C11_save_stream")
                if err is not None:
                    # audit 3 (B9): WHICH bytes a refused save leaves behind the position is a partial effect after an exception - the
                    # property only says "reserved names refused": recorded, never judged
                    ctx.info("saveS/refused-save-leaves-the-whole-object-unchanged", after == before, True)
                    if after != before:
                        segs.append((a, len(after), None))   # whatever it left is opaque data for the later positions
                if err is None:
                    segs.append((a, len(after), snap))
                    ctx.count("stream_checkpoint_appended" + (":equal_size_as_an_earlier_one" if any(e - b == len(after) - a for b, e, sn in segs[:-1] if sn) else ""))
                mops += [{"t": "seekS", "sid": 0, "pos": a}, {"t": "saveS", "slot": op["slot"], "md": op["md"], "sid": 0, "size": max(len(after) - a, 1)}]
                checks.append((len(mops) - 1, op, err, real.observe(), {"segs": stream_obs(real, after, segs)}))
                continue
            if t in ("autoloadS", "loadS"):
                cks = [sg for sg in segs if sg[2] is not None]
                if op["at"] >= len(cks) or (t == "loadS" and op["slot"] not in real.models):
                    continue
                a, b, snap = cks[op["at"]]
                data = content()
                # which offsets can the INSTALLED torch read at all? (zip archives are located from the END of the file object: a checkpoint
                # that is followed by further data is in general unreadable whatever the library does; equal-sized archives are read by accident)
                try:
                    probe = torch.load(_at(io.BytesIO(data), a), weights_only=False)
                    want = torch.load(io.BytesIO(data[a:b]), weights_only=False)
                    readable = so.deep_equal(dict(probe), dict(want))
                except Exception:  # noqa: BLE001
                    readable = False
                last = b == len(data)
                ctx.count(f"stream_boundary:{'last' if last else 'followed_by_data'}:{'readable' if readable else 'not_readable_by_installed_torch(skipped)'}")
                if not readable:
                    continue
                if a != 0:
                    ctx.count(f"{t}_from_nonzero_position")
                if not last:
                    ctx.count(f"{t}_from_a_checkpoint_followed_by_other_checkpoints")
                fh.seek(a)
                err = None
                fm = so.af.Forms(op.get("af"), ctx)
                mop = {"t": t, "slot": op["slot"], "sid": 0}
                # `load` is only promised to succeed into a SHAPE-COMPATIBLE receiver of the writer's kind (C11's statement); into any other
                # model torch's load_state_dict refuses (RuntimeError: size mismatch) and the oracle has nothing to say
                recv = so.snapshot_state(real.models[op["slot"]]) if t == "loadS" else None
                try:
                    if t == "autoloadS":
                        real.models[op["slot"]] = so.KINDS[op["kind"]].autoload(fh, gpu=fm.gpu())
                        mop.update(kind=op["kind"], rand=[])
                    else:
                        real.models[op["slot"]].load(fh)
                except Exception as e:  # noqa: BLE001
                    err = type(e).__name__
                    if t == "autoloadS":
                        mop.update(kind=op["kind"], rand=[])
                same = so.KINDS[op["kind"]].__name__ == snap["kind"] if t == "autoloadS" else \
                    (recv["kind"] == snap["kind"] and recv["arch"] == snap["arch"])
                if not same:
                    ctx.count(f"{t}: receiver / requested kind not compatible with the checkpoint (outcome compared with the model only)")
                if same:
                    ok = err is None
                    if ok:
                        now = so.snapshot_state(real.models[op["slot"]])
                        ok = so.deep_equal(now["nets"], snap["nets"]) and so.deep_equal(now["ud"], snap["ud"]) and (t == "loadS" or now["arch"] == snap["arch"])
                    ctx.oracle(("autoload" if t == "autoloadS" else "load") + " through a file object positioned at the boundary of checkpoint k of a stream yields the state "
                               "saved THERE (architecture, parameters, unitary dictionary)", ok, cs,
                               detail={"err": err, "position": a, "checkpoint": op["at"], "of": len(cks)}, sig=f"{t}/stream-position",
                               theorem="C11_autoload_stream" if t == "autoloadS" else "C11_load_stream")
                    nontrivial = nontrivial or (ok and a != 0)
                mops += [{"t": "seekS", "sid": 0, "pos": a}, mop]
                checks.append((len(mops) - 1, op, err, real.observe(), None))
                continue
            if not so.admissible(real, op):
                continue
            mop, err = real.apply(op)
            ctx.count(f"op={t}")
            if mop is not None:
                mops.append(mop)
                checks.append((len(mops) - 1, op, err, real.observe(), None))
        if ctx.driver is not None and mops:
            res = ctx.driver.call("c11.srun", ops=mops)
            for k, op, err, w, extra in checks:
                mw = res[k]
                cs = {**cs0, "op": op, "step": k}
                t = op["t"]
                lvl = "property" if t in ("saveS", "autoloadS", "loadS") and (err is None or t == "saveS") else "aux"
                thm = {"saveS": "C11_save_stream, C11_history_streams", "autoloadS": "C11_autoload_stream, C11_history_streams",
                       "loadS": "C11_load_stream, C11_load_replaces_dict, C11_history_streams"}.get(t, "model of the operation (by construction)")
                ctx.point(f"{t}.refused", lvl, err is not None, mw["err"] is not None, cs, exact=True, sig=f"{t}/refused", theorem=thm)
                if t == "loadS" and err is not None:
                    continue
                iw, cm = so.tuplify(so.canon_world(w)), so.tuplify(so.canon_world(mw))
                for comp in ("states", "metas"):
                    ctx.point(f"{t}.{comp}", lvl, iw[comp], cm[comp], cs, exact=True, sig=f"{t}/{comp}", theorem=thm)
                if extra is not None:
                    ms = (mw.get("streams") or {}).get("0", {"recs": []})
                    # audit 3 (B9): the property fixes the CONTENTS of a checkpoint, not the order of the archive's top-level keys (nor of
                    # the unitary dictionary's letters): both sides are compared with their entries sorted by key
                    i_st = so.tuplify([[r[0], so.by_key(r[1])] for r in extra["segs"]])
                    m_st = so.tuplify([[r[0], so.by_key(r[1])] for r in ms["recs"]])
                    if err is None:
                        ctx.point("saveS.stream", lvl, i_st, m_st, cs, exact=True, sig="saveS/stream-contents",
                                  theorem="C11_save_stream (the archive written at the position is the snapshot; everything in front is kept)")
                    else:
                        # a REFUSED save: what the file object holds afterwards is a partial effect (the prefix is judged by saveS/prefix)
                        ctx.info("saveS/stream-contents-after-a-refused-save", i_st, m_st)
        ctx.case({"kind": "stream", "plan": case["plan"], "tseed": case["tseed"]}, nontrivial=nontrivial,
                 sample={"stream_ops": [o["t"] for o in case["plan"]][:40], "tseed": case["tseed"]})
        ctx.count("stream_cases_with_autoload_from_nonzero_position" if nontrivial else "stream_cases_without")
    finally:
        if fh is not None:
            fh.close()
        real.close()


def _at(fh, pos):
    fh.seek(pos)
    return fh


def stream_obs(real, data, segs):
    """the harness's own reading of the file object: [size, null (header) | contents of the archive] per segment, in the model's vocabulary"""
    import io

    out = []
    for a, b, snap in segs:
        if snap is None:
            out.append([b - a, None])
        else:
            try:
                f = torch.load(io.BytesIO(data[a:b]), weights_only=False)
                out.append([b - a, real.obs_dict(f)])
            except Exception as e:  # noqa: BLE001
                out.append([b - a, {"<unreadable>": type(e).__name__}])
    return so.tuplify(out)


# ---- where (and whether) ModelSaver writes
FILE_NAMES = [
    ("file{}.pt", ["file", {"auto": True}, ".pt"]), ("m{0}.pt", ["m", {"idx": 0}, ".pt"]), ("e{0}-{0}.pt", ["e", {"idx": 0}, "-", {"idx": 0}, ".pt"]),
    ("const.pt", ["const.pt"]), ("e{}_{}.pt", ["e", {"auto": True}, "_", {"auto": True}, ".pt"]), ("e{epoch}.pt", ["e", {"named": "epoch"}, ".pt"]),
    ("e{1}.pt", ["e", {"idx": 1}, ".pt"]),
]
FOLDERS = [["w"], ["a", "b"], ["..", "up"], [".", "w"], ["a", "..", "b"], ["exists"], ["exists", "sub"], ["blocked"], ["blocked", "x"], ["deep", "..", "..", "up2"]]


def gen_saver_case(rng):
    return {"kind": "saverpath", "tseed": rng.randrange(1, 2 ** 31), "folder": rng.choice(FOLDERS), "abs": rng.random() < 0.25,
            "fname": rng.randrange(len(FILE_NAMES)) if rng.random() < 0.35 else rng.choice([0, 0, 1]), "period": rng.choice([1, 1, 2, 3]),
            "si": rng.random() < 0.5, "meta": rng.choice(["none", "dict", "callable", "dict", "other_list", "other_str", "other_int"]),
            "mo": rng.random() < 0.25, "mode": rng.choice(["events", "events", "fit"]), "cwds": [rng.choice(["c0", "c0/deep", "elsewhere", "elsewhere/x/y"]) for _ in range(6)],
            "epochs": rng.choice([2, 3, 4])}


def fixed_saver_cases():
    base = {"kind": "saverpath", "abs": False, "fname": 0, "period": 1, "si": True, "meta": "dict", "mo": False, "mode": "events",
            "cwds": ["elsewhere", "elsewhere/x/y", "c0/deep", "c0", "elsewhere", "c0"], "epochs": 3}
    yield {**base, "tseed": 301, "folder": ["w"]}
    yield {**base, "tseed": 302, "folder": ["a", "..", "b"], "mode": "fit", "period": 2}
    yield {**base, "tseed": 303, "folder": ["exists", "sub"], "meta": "other_list"}
    yield {**base, "tseed": 304, "folder": ["blocked", "x"]}
    yield {**base, "tseed": 305, "folder": ["w"], "abs": True, "fname": 4}
    yield {**base, "tseed": 306, "folder": ["..", "up"], "meta": "other_str", "mo": True, "fname": 1}


def saver_case(ctx, case):
    """ModelSaver created in one working directory (relative / absolute folder, `.` and `..` levels, an existing directory, a regular file
    in the way) and driven - through its public callbacks, or by a real `fit` - after the caller moved elsewhere: WHERE each checkpoint lands and
    WHETHER the call is refused, against `QV.Store.PSaver` / `saverSaveArg` (driver op c11.saverPath)"""
    import shutil
    import tempfile

    from qucumber.callbacks import ModelSaver

    base = os.path.realpath(tempfile.mkdtemp(prefix="qv_saver_"))
    assert not base.startswith("/repo") and not base.startswith("/verif")
    old_cwd = os.getcwd()
    comps = lambda p: [c for c in os.path.realpath(p).split(os.sep) if c]  # noqa: E731
    cs = dict(case)
    try:
        for d in ("c0/deep", "c0/exists", "elsewhere/x/y"):
            os.makedirs(os.path.join(base, d))
        open(os.path.join(base, "c0", "blocked"), "w").write("a regular file")
        torch.manual_seed(int(case["tseed"]))
        st = so.KINDS["pos"](num_visible=2, num_hidden=1, gpu=False)
        cwd0 = os.path.join(base, "c0")
        folder = os.path.join(cwd0, *case["folder"]) if case["abs"] else os.path.join(*case["folder"])
        fname, tmpl = FILE_NAMES[case["fname"]]
        md_obj = {"none": None, "dict": {"epoch": 1, "note": "x"}, "callable": (lambda s, e: {"epoch": e}), "other_list": [1, 2], "other_str": "meta",
                  "other_int": 5}[case["meta"]]
        for k in ("folder", "abs", "meta", "mode", "mo"):
            ctx.count(f"saver_{k}:{case[k] if k != 'folder' else '/'.join(case['folder'])}")
        ctx.count("saver_file_name:" + fname)

        def tree():
            out = {}
            for r, ds, fs in os.walk(base):
                for f in fs:
                    p = os.path.join(r, f)
                    # audit 3 (B14): the content too - a file rewritten with equal size within the clock's granularity is still "written"
                    out[p] = (os.path.getsize(p), os.stat(p).st_mtime_ns, hashlib.sha1(open(p, "rb").read()).hexdigest())
            return out

        def listing():
            dirs, files = [], []
            for r, ds, fs in os.walk(base):
                dirs.append(comps(r))
                files += [comps(os.path.join(r, f)) for f in fs]
            c = comps(base)
            return [c[:i] for i in range(1, len(c))] + dirs, files

        dirs0, files0 = listing()
        os.chdir(cwd0)
        init_err = None
        try:
            saver = ModelSaver(case["period"], folder, fname, save_initial=case["si"], metadata=md_obj, metadata_only=case["mo"])
        except Exception as e:  # noqa: BLE001
            init_err = type(e).__name__
        events = [("initial", case["cwds"][0])] + [(e, case["cwds"][e % len(case["cwds"])]) for e in range(1, case["epochs"] + 1)]
        impl = []
        if init_err is None:
            if case["mode"] == "fit":
                # a real training run started after the caller moved to another directory (every event happens there)
                events = [(e, case["cwds"][0]) for e, _ in events]
                os.chdir(os.path.join(base, case["cwds"][0]))
                before = tree()
                err = None
                try:
                    data = torch.randint(0, 2, (6, 2)).to(torch.double)
                    st.fit(data, epochs=case["epochs"], pos_batch_size=3, callbacks=[saver])
                except Exception as e:  # noqa: BLE001
                    err = type(e).__name__
                after = tree()
                wrote = sorted(comps(p) for p in after if before.get(p) != after[p])
                impl = {"refused": err is not None, "wrote": wrote if err is None else None}
            else:
                for e, cwd in events:
                    os.chdir(os.path.join(base, cwd))
                    before = tree()
                    err = None
                    try:
                        if e == "initial":
                            saver.on_train_start(st)
                        else:
                            saver.on_epoch_end(st, e)
                    except Exception as ex:  # noqa: BLE001
                        err = type(ex).__name__
                    after = tree()
                    wrote = sorted(comps(p) for p in after if before.get(p) != after[p])
                    impl.append({"refused": err is not None, "wrote": wrote if err is None else None})
                    if err is None and wrote and not case["mo"]:
                        back = so.KINDS["pos"].autoload(os.sep + os.sep.join(wrote[0]), gpu=False)
                        ctx.oracle("the checkpoint ModelSaver wrote reproduces the state (autoload)",
                                   so.deep_equal(so.snapshot_state(back)["nets"], so.snapshot_state(st)["nets"]), cs, sig="saver/checkpoint-roundtrip",
                                   theorem="C11_roundtrip_autoload")
                    with torch.no_grad():   # the state changes between the periods, as in training
                        st.rbm_am.weights.add_(0.125)
        os.chdir(old_cwd)
        # audit 3 (B5): WHERE the callback writes after the caller changed directory is not in C11's text (the docstring only says "the
        # directory in which to save the files"; a saver that keeps the path as written and creates it at write time still saves, reloads
        # bit-identically and can save any number of times): the present code's rule (the folder as it resolved when the saver was created)
        # is RECORDED, never judged
        if init_err is None:
            want_dir = comps(os.path.join(cwd0, *case["folder"]))
            all_wrote = (impl["wrote"] or []) if isinstance(impl, dict) else [p for ev in impl for p in (ev["wrote"] or [])]
            ctx.info("saver/folder-at-construction", all(p[:-1] == want_dir for p in all_wrote), True)
        if ctx.driver is not None:
            m = ctx.driver.call("c11.saverPath", cwd0=comps(cwd0), folder={"abs": bool(case["abs"]), "comps": (comps(cwd0) if case["abs"] else []) + list(case["folder"])},
                                fileName=tmpl, period=case["period"], saveInitial=bool(case["si"]), dirs=dirs0, files=files0,
                                metaForm={"none": "none", "dict": "dict", "callable": "callable"}.get(case["meta"], "other"), metadataOnly=bool(case["mo"]),
                                queries=[{"cwd": comps(os.path.join(base, cwd)), "epoch": e} for e, cwd in events])
            thm = "C11_saver_path"
            # what an undocumented `metadata` object or a file name that is no one-blank format string does is not constrained by the property
            # text (the present code refuses at the first write): compared with the model at aux level only
            # audit 3 (B3/B5): those classes are malformed / undocumented inputs -> ctx.info (no verdict at all, not even auxiliary)
            documented = not (case["meta"].startswith("other") or case["fname"] >= 3)
            # audit 3 (B3): WHEN ModelSaver refuses (at construction or at the first write; an undocumented metadata object, a regular file
            # in the way of the folder) is not in C11's text: recorded only
            ctx.info("saver/init-refused", init_err is not None, m["initError"] is not None)
            if init_err is None and m["initError"] is None:
                mod = []
                for tg in m["targets"]:
                    if tg is None:
                        mod.append({"refused": False, "wrote": []})
                    elif "error" in tg or m["writeRefused"]:
                        mod.append({"refused": True, "wrote": None})
                    else:
                        mod.append({"refused": False, "wrote": [tg["dir"] + [tg["name"]]]})
                if isinstance(impl, dict):   # a whole fit: refused iff some event is; otherwise the set of files of all events
                    ref = any(x["refused"] for x in mod)
                    mod = {"refused": ref, "wrote": None if ref else sorted({tuple(p) for x in mod for p in x["wrote"]})}
                    mod["wrote"] = None if ref else [list(p) for p in mod["wrote"]]
                # the full paths (the DIRECTORY of every file): recorded only (B5); for the undocumented classes nothing else is compared
                ctx.info("saver/files" + ("" if documented else ":undocumented-metadata-or-file-name"), so.tuplify(impl), so.tuplify(mod))
                if documented:
                    # what the property does say ("can be saved any number of times, as the periodic model-saving callback does"; the file
                    # is named by the epoch): a saver of a documented form that was constructed saves at every due event, under the
                    # formatted NAME, wherever the caller is - refusal flag and file names per event, directories left out
                    def proj(x):
                        if isinstance(x, dict):
                            return {"refused": x["refused"], "names": None if x["wrote"] is None else sorted({p[-1] for p in x["wrote"]})}
                        return [proj(y) for y in x]
                    ctx.point("saver.events", "property", so.tuplify(proj(impl)), so.tuplify(proj(mod)), cs, exact=True, sig="saver/events", theorem=thm)
        ctx.case({k: v for k, v in case.items()}, nontrivial=init_err is None and not case["abs"], sample={"saver": {k: case[k] for k in ("folder", "abs", "meta", "mode")}})
    finally:
        os.chdir(old_cwd)
        shutil.rmtree(base, ignore_errors=True)


def ext_cases(ctx, n_stream, n_saver):
    yield from fixed_stream_cases()
    for _ in range(n_stream):
        yield {"kind": "stream", "tseed": ctx.rng.randrange(1, 2 ** 31), "plan": gen_stream_case(ctx.rng)}
    yield from fixed_saver_cases()
    for _ in range(n_saver):
        yield gen_saver_case(ctx.rng)


def ext_one(ctx, case):
    (stream_case if case["kind"] == "stream" else saver_case)(ctx, case)


def run(ctx):
    ctx.rule = RULE
    for case in fixed_cases():
        one_case(ctx, case)
        one_case(ctx, {**case, "rel": True})
    for case in gen_cases(ctx, ctx.tier == "thorough"):
        one_case(ctx, case)
    for case in ext_cases(ctx, *((60, 120) if ctx.tier == "thorough" else (14, 30))):
        ext_one(ctx, case)


def env_run(ctx, env_name):
    """the same property for a caller who changed a process-global setting (harness/common.py ENVS: default dtype float64, no_grad,
    another working directory): every hand-written history (all operation families, all three state types, ModelSaver, file objects)
    with absolute and with relative locations, and a few generated ones; all objects are constructed inside the environment, and in the
    relative-path histories the ModelSaver is created BEFORE a further change of the working directory and used after it"""
    for case in fixed_cases():
        one_case(ctx, {**case, "rel": case["tseed"] % 2 == 0})
        one_case(ctx, {**case, "rel": case["tseed"] % 2 == 1})
    for case in gen_cases(ctx, False, ncases=12):
        one_case(ctx, case)
    for case in ext_cases(ctx, 2, 4):
        ext_one(ctx, case)


def search(ctx):
    drv, ctx.driver = ctx.driver, None
    try:
        for case in fixed_cases():
            one_case(ctx, case)
            one_case(ctx, {**case, "rel": True})
        for case in gen_cases(ctx, True, ncases=250):
            one_case(ctx, case)
        for case in ext_cases(ctx, 40, 80):
            ext_one(ctx, case)
    finally:
        ctx.driver = drv


def replay(ctx, case):
    if case.get("kind") in ("stream", "saverpath"):
        return ext_one(ctx, {k: v for k, v in case.items() if k not in ("op", "step")})
    one_case(ctx, {"plan": case["plan"], "tseed": case["tseed"], "rel": bool(case.get("rel"))})
