"""C11 — save / load / autoload histories: correspondence of the heap model (QV.Model.Store, theorems
QV.Props.C11_*) with NeuralStateBase.save/load, the three autoloads and ModelSaver (driven through its public callback
interface), plus the property
oracles ("path -> snapshot at the last successful save") evaluated directly on the implementation."""
import copy
import hashlib
import os

from . import storeops as so
from .qc import torch

FILES = [
    "qucumber/nn_states/neural_state.py",
    "qucumber/nn_states/positive_wavefunction.py",
    "qucumber/nn_states/complex_wavefunction.py",
    "qucumber/nn_states/density_matrix.py",
    "qucumber/callbacks/model_saver.py",
    "qucumber/rbm/binary_rbm.py",
    "qucumber/rbm/purification_rbm.py",
    "qucumber/utils/unitaries.py",
]
REQUIRED_THEOREMS = ["C11_roundtrip", "C11_roundtrip_autoload", "C11_reserved", "C11_no_side_effect", "C11_idempotent", "C11_history"]
EXTRA_TRUSTED = [
    "torch.save / torch.load are a faithful map from the saved dict to the loaded dict (a file is a map of tokens in the model)",
    "tensor contents are identified by the hash of their bytes (tokens); storage identity by data_ptr() with all observed tensors kept alive",
]
RULE = ("case = random history (<= 12 ops quick / <= 40 thorough) over up to 3 states, 3 RBM modules, 3 metadata dict objects and 3 files: "
        "construct (3 state types, num_hidden/num_aux None or != num_visible, custom unitary dicts via create_dict(**extra), or a caller-owned "
        "dictionary object shared by several constructors and checked after every op), external "
        "in-place randomisation of all parameters (non-zero biases), real fit, addUnitary, mkMeta (None, {}, flat, nested, tensor-valued, "
        "reserved keys, non-string key; the key 'unitary_dict' also on states WITHOUT a dictionary, where it is ordinary metadata), save, repeated "
        "save with the same dict, ModelSaver checkpoints through on_epoch_end (dict / callable / None, metadata_only), location as a path or "
        "as an open file object (save, load, autoload; a real file or an io.BytesIO; positioned at 0, BEHIND a header of 1-1000 bytes the caller "
        "wrote first, or at the end of a STREAM of checkpoints shared by several saves of several models - a history file is (physical file, "
        "start position) and is read back from exactly there; checkpoints followed by later data are not readable by torch.load itself and not read), "
        "load (compatible and incompatible), autoload (same and other state type), reinitialise; after every op all parameter tokens, "
        "identity classes, unitary dicts, metadata contents, torch.load of every file and the error kind are compared exactly with the "
        "model. ARGUMENT FORMS (seed `af` of every op with options): num_visible / num_hidden / num_aux, epochs / pos_batch_size / k of fit and the "
        "ModelSaver period (a divisor of the epoch) as Python int / numpy.int64 / int32 / intp / uint8 / 0-d numpy array / 0-d torch tensor; gpu, "
        "save_initial, metadata_only as bool / int / numpy.bool_ / numpy comparison result / 0-d numpy array / 0-d torch tensor; ModelSaver and "
        "autoload by keyword or positionally. LOCATION FORMS: one history in four (and every hand-written history a second time) writes every path "
        "RELATIVE to the caller's working directory, and changes the working directory between creating a ModelSaver and the epochs it saves at "
        "(the files stay <folder_path as given at construction>/<file_name>); the hand-written histories and 12 generated ones run again under "
        "each process-global environment (default dtype float64, no_grad, another cwd). non-trivial iff some load/autoload succeeds from a file written after a randomisation/training of its source; "
        "distinct by hash of the plan")

MD_KINDS = {
    "empty": [],
    "flat": [["epoch", "int"], ["lr", "float"], ["note", "str"]],
    "nested": [["cfg", "dict"], ["hist", "list"], ["epoch", "int"]],
    "tensor": [["t", "tensor"], ["td", "tdict"], ["epoch", "zero"]],
    "falsyvals": [["epoch", "zero"], ["cfg", "emptydict"]],
    "res_am": [["epoch", "int"], ["rbm_am", "int"]],
    "res_ph": [["rbm_ph", "dict"], ["note", "str"]],
    "res_ud": [["epoch", "int"], ["unitary_dict", "int"]],
    "res_both": [["unitary_dict", "str"], ["rbm_am", "dict"]],
    "res_am_falsy": [["rbm_am", "zero"], ["epoch", "int"]],
    "res_ph_falsy": [["note", "str"], ["rbm_ph", "emptydict"]],
    "res_ud_falsy": [["unitary_dict", "zero"]],
    "nonstr": [[7, "str"], ["epoch", "int"]],
    "nonstr_res": [[7, "str"], ["rbm_am", "int"]],
}
MD_WEIGHTS = [("empty", 2), ("flat", 5), ("nested", 4), ("tensor", 4), ("falsyvals", 1), ("res_am", 2), ("res_ph", 2),
              ("res_ud", 2), ("res_both", 1), ("res_am_falsy", 2), ("res_ph_falsy", 2), ("res_ud_falsy", 1), ("nonstr", 1), ("nonstr_res", 1)]


def wchoice(rng, pairs):
    tot = sum(w for _, w in pairs)
    x = rng.random() * tot
    for v, w in pairs:
        x -= w
        if x <= 0:
            return v
    return pairs[-1][0]


def rand_arch(rng, kind):
    nv = rng.choice([1, 2, 2, 3])
    nh = rng.choice([None, nv + 1, nv + 2, 1 if nv > 1 else 3])
    na = rng.choice([None, nv + 1, 1 if nv > 1 else 2]) if kind == "dens" else None
    return nv, nh, na


def fobj_form(rng, writing):
    """`location` as an open file object. Writing: a fresh file (the state starts at position 0), a file in which the caller has already
    written a header of his own (the state starts at position n > 0), or a stream of checkpoints to which the state is appended (shared
    by several saves of this and other models); a real file or an io.BytesIO.  Reading: WHERE the state starts is a fact of the history
    (how the file was written) - a location that is not the start of its own file is always handed over as a file object positioned there;
    the reader only chooses between path / real file object / BytesIO."""
    io = "bytes" if rng.random() < 0.4 else None
    if not writing:
        f = {"fobj": True} if rng.random() < 0.3 else {}
        if io:
            f["io"] = io   # used whenever the location has to be (or is chosen to be) a file object
        return f
    f = {"fobj": True}
    r = rng.random()
    if r < 0.3:
        f["hdr"] = rng.choice([1, 14, 15, 1000])
    elif r < 0.65:
        f["stream"] = rng.randrange(2)
    if io:
        f["io"] = io
    return f


def gen_plan(rng, maxlen):
    plan = []
    archs = []  # (kind, nv, nh, na) used so far: reused to make compatible loads likely
    states, metas, saved = {}, set(), {}
    uds = []  # caller-owned unitary dictionaries created so far (each may be handed to SEVERAL constructors)

    def construct(slot):
        if archs and rng.random() < 0.45:
            kind, nv, nh, na = rng.choice(archs)
        else:
            kind = rng.choice(["pos", "cplx", "cplx", "dens", "dens"])
            nv, nh, na = rand_arch(rng, kind)
            archs.append((kind, nv, nh, na))
        ud = None
        if kind != "pos":
            ud = rng.choice([None, None, "empty", ["H"], ["H", "S"], ["X"], {"raw": ["Z", "H"]}, {"raw": ["X", "Z"]},
                             {"raw": ["Z", "X", "K"]}, {"raw": ["H"]}])
            if rng.random() < 0.4:
                # the caller keeps the dictionary object and passes the same one to every constructor that asks for it
                if not uds or rng.random() < 0.3:
                    us = len(uds)
                    uds.append(us)
                    plan.append({"t": "mkUD", "udslot": us, "names": rng.choice([["H"], ["H", "S"], ["X", "K"], ["S"], {"raw": ["Z", "Y", "S"]}, {"raw": ["K"]}])})
                ud = {"ref": rng.choice(uds)}
        states[slot] = (kind, nv, nh, na)
        return {"t": "construct", "slot": slot, "kind": kind, "nv": nv, "nh": nh, "na": na, "ud": ud}

    n = rng.randint(max(4, maxlen // 2), maxlen)
    plan.append(construct(0))
    plan.append({"t": "write", "slot": 0, "net": "rbm_am"})
    while len(plan) < n:
        r = rng.random()
        slot = rng.choice(sorted(states))
        kind = states[slot][0]
        path = rng.randrange(3)
        if r < 0.10:
            plan.append(construct(rng.randrange(3)))
        elif r < 0.24:
            plan.append({"t": "write", "slot": slot, "net": rng.choice(so.NETS[kind])})
        elif r < 0.30:
            plan.append({"t": "train", "slot": slot, "bases": True, "opt": rng.choice(["sgd", "adam"]), "epochs": 1})
        elif r < 0.36:
            plan.append({"t": "addUnitary", "slot": slot, "name": rng.choice(["H", "S", "K", "X"])})
        elif r < 0.47:
            s = rng.randrange(3)
            metas.add(s)
            plan.append({"t": "mkMeta", "mdslot": s, "items": MD_KINDS[wchoice(rng, MD_WEIGHTS)]})
        elif r < 0.66:
            md = rng.choice(sorted(metas)) if metas and rng.random() < 0.8 else None
            op = {"t": "save", "slot": slot, "md": md, "path": path}
            if rng.random() < 0.4:
                op.update(fobj_form(rng, True))  # `location` is an open file object (fresh file / after a header / appended to a stream)
            plan.append(op)
            saved[path] = states[slot]
            if rng.random() < 0.35:
                plan.append(dict(op))  # save again with the very same arguments
        elif r < 0.74:
            src = rng.choice(["dict", "dict", "none", "callable"])
            op = {"t": "saverSave", "slot": slot, "src": src, "mdslot": rng.choice(sorted(metas)) if metas else 0,
                  "items": MD_KINDS[wchoice(rng, MD_WEIGHTS)], "metadataOnly": rng.random() < 0.2, "path": path}
            if src == "dict" and not metas:
                op["src"] = "none"
            plan.append(op)
            if not op["metadataOnly"]:
                saved[path] = states[slot]
            for _ in range(rng.choice([0, 1, 2])):  # ModelSaver: the same saver and metadata object every period ...
                if rng.random() < 0.5:              # ... with the state trained / changed between the periods, as in a real fit
                    plan.append({"t": "write", "slot": slot, "net": rng.choice(so.NETS[kind])} if rng.random() < 0.5 else
                                {"t": "train", "slot": slot, "bases": True, "opt": rng.choice(["sgd", "adam"]), "epochs": 1})
                plan.append(dict(op))
        elif r < 0.87:
            # load: prefer a file written by a state of the same architecture
            good = [p for p, a in saved.items() if a == states[slot]]
            p = rng.choice(good) if good and rng.random() < 0.7 else (rng.choice(sorted(saved)) if saved and rng.random() < 0.8 else path)
            plan.append({"t": "load", "slot": slot, "path": p})
            plan[-1].update(fobj_form(rng, False))
        elif r < 0.97:
            p = rng.choice(sorted(saved)) if saved and rng.random() < 0.85 else path
            k = saved[p][0] if p in saved and rng.random() < 0.7 else rng.choice(["pos", "cplx", "dens"])
            s = rng.randrange(3)
            plan.append({"t": "autoload", "slot": s, "kind": k, "path": p})
            plan[-1].update(fobj_form(rng, False))
            if p in saved and k == saved[p][0]:
                states[s] = saved[p]
        else:
            plan.append({"t": "reinit", "slot": slot})
    return so.add_forms(plan[: maxlen + 4], rng)


def file_hash(p):
    """hash of the bytes of a file; a missing file and an empty one (a stream the caller has just opened) hold the same: nothing"""
    return hashlib.sha1(open(p, "rb").read() if os.path.exists(p) else b"").hexdigest()


class Hooks:
    """property oracles evaluated on the implementation only"""

    def __init__(self, ctx, case):
        self.ctx = ctx
        self.case = case
        self.last_saved = {}  # path -> snapshot at the last successful save  (the abstract specification)
        self.prev = None
        self.dirty = {}  # slot -> source modified (write/train) since construction
        self.nontrivial = False
        self.cut = False   # set when the implementation's outcome is unconstrained by the property and the model cannot follow it: the history ends
        self.cross_kind = set()  # id(op) of autoloads as ANOTHER state type than the one that wrote the file

    def canon_err(self, op, e_impl, e_model):
        """autoload of a file written by another state type is outside the property ("auto-constructing a model from it"): which
        exception it raises depends on which entry of the file the autoload happens to read first; only raises / does not raise is compared"""
        if op["t"] == "autoload" and id(op) in self.cross_kind:
            return (None if e_impl is None else "raises"), (None if e_model is None else "raises")
        return e_impl, e_model

    def theorem(self, op, comp):
        t = op["t"]
        if t in ("save", "saverSave"):
            return {"err": "C11_reserved", "files": "C11_roundtrip (file[k] = md[k]), C11_idempotent",
                    "metas": "C11_no_side_effect", "states": "C11_no_side_effect", "modules": "C11_no_side_effect"}[comp]
        if t in ("load", "autoload"):
            return "C11_roundtrip, C11_history"
        return "model of the operation (by construction)"

    def cs(self, op):
        return {"plan": self.case["plan"], "tseed": self.case["tseed"], "op": op, **({"rel": True} if self.case.get("rel") else {})}

    def before(self, real, op):
        t = op["t"]
        pre = {}
        if t in ("save", "saverSave"):
            st = real.models[op["slot"]]
            pre["snap"] = so.snapshot_state(st)
            md = None
            if t == "save" and op["md"] is not None:
                md = real.metas[op["md"]]
            if t == "saverSave" and op["src"] == "dict":
                md = real.metas[op["mdslot"]]
            pre["md"] = md
            pre["md_copy"] = copy.deepcopy(md)
            pre["hash"] = file_hash(real.target_of(op))
            pre["metas"] = {k: copy.deepcopy(v) for k, v in real.metas.items()}
        if t == "load":
            pre["snap"] = so.snapshot_state(real.models[op["slot"]])
        return pre

    def after(self, real, op, pre, err, w):
        ctx, t = self.ctx, op["t"]
        cs = self.cs(op)
        if real.uds:
            bad = real.changed_uds()
            ctx.oracle("no operation changes a unitary dictionary the caller owns (keys and tensor bytes)", not bad, cs,
                       detail={"changed_udslots": bad}, sig=f"{t}/caller-unitary-dict", theorem="C11_no_side_effect")
            if t in ("load", "autoload", "addUnitary") and err is None:
                ctx.count("shared_ud_checked_after_" + t)
        if t in ("write", "train") and err is None:
            self.dirty[op["slot"]] = True
        if t in ("construct", "constructFrom") and err is None:
            self.dirty[op["slot"]] = False
        if t == "save" and op.get("fobj") and err is None and real.last_write is not None:
            lw = real.last_write
            ctx.oracle("save(open file object) writes the state from the object's current position on and leaves the bytes in front of it "
                       "(the caller's header, earlier checkpoints of the stream) unchanged", lw["prefix_intact"] and lw["grew"], cs, detail=lw,
                       sig="save/file-object-position", theorem="C11_no_side_effect, C11_history (other files keep their snapshot)")
        if t in ("save", "saverSave"):
            st = real.models[op["slot"]]
            target = real.target_of(op)
            md = pre["md"]
            keys = list(pre["md_copy"].keys()) if pre["md_copy"] else []
            if t == "saverSave" and op["src"] == "callable":
                keys = [k for k, _ in op["items"]]
            monly = t == "saverSave" and op["metadataOnly"]
            has_ud = hasattr(st, "unitary_dict")
            reserved = (not monly) and (any(k in st.networks for k in keys) or (has_ud and "unitary_dict" in keys))
            nonstr = (not monly) and any(not isinstance(k, str) for k in keys)
            # "reserved names refused": refused or not - with whatever exception class. A metadata key that is not a string is outside the
            # property (torch can store it; the present code happens to refuse it): its outcome is a counter, and a history in which the
            # implementation accepts it ends there (the model refuses, `Store.lean` save)
            if reserved or not nonstr:
                ctx.oracle("save refuses exactly the reserved names (refused with any exception / not refused)", (err is not None) == reserved, cs,
                           detail={"err": err, "reserved": reserved, "keys": [str(k) for k in keys]}, sig="save/reserved", theorem="C11_reserved")
            else:
                ctx.count("save:non-string-metadata-key:" + ("accepted" if err is None else f"refused({err})"))
                if err is None:
                    self.cut = True
            # no side effects on the metadata object (identity is the caller's variable; contents compared deeply) nor on the model
            ctx.oracle("save leaves the caller's metadata dict unchanged", so.deep_equal(md, pre["md_copy"]), cs,
                       detail={"before": repr(pre["md_copy"])[:300], "after": repr(md)[:300]}, sig="save/metadata-mutated", theorem="C11_no_side_effect")
            ctx.oracle("save leaves every metadata object unchanged",
                       all(so.deep_equal(real.metas[k], v) for k, v in pre["metas"].items()), cs, sig="save/other-metadata-mutated", theorem="C11_no_side_effect")
            now = so.snapshot_state(st)
            ctx.oracle("save leaves the model unchanged", so.deep_equal(now["nets"], pre["snap"]["nets"]) and so.deep_equal(now["ud"], pre["snap"]["ud"]),
                       cs, sig="save/model-mutated", theorem="C11_no_side_effect")
            if err is not None:
                ctx.oracle("a refused save writes nothing", file_hash(target) == pre["hash"], cs, sig="save/wrote-after-refusal", theorem="C11_reserved")
            elif not real.file_exists(op["path"]):
                what = ("ModelSaver(period, folder, file_name).on_epoch_end(state, epoch) with epoch % period == 0 writes folder/file_name.format(epoch)"
                        if t == "saverSave" else "a successful save leaves a file at the requested location")
                ctx.oracle(what, False, cs, detail={"expected_file": os.path.basename(target), "present": sorted(os.listdir(real.tmp))[:8]},
                           sig=f"{t}/no-file", theorem="C11_roundtrip")
            else:
                try:
                    f = real.read_file(op["path"])
                except Exception as e:  # noqa: BLE001 - what the save wrote is not a checkpoint torch can read
                    f = {"<unreadable>": type(e).__name__}
                if monly:
                    self.last_saved[op["path"]] = {"metadata_only": True}
                    if op["src"] != "callable":
                        ctx.oracle("metadata_only file == metadata", so.deep_equal(f, md if op["src"] == "dict" else {}), cs, sig="saver/metadata-only")
                else:
                    snap = pre["snap"]
                    ok_n = all(n in f and so.nets_equal(dict(f[n]), snap["nets"][n]) for n in st.networks)
                    ok_u = (not has_ud) or ("unitary_dict" in f and so.deep_equal(dict(f["unitary_dict"]), snap["ud"]))
                    ok_m = all(k in f and so.deep_equal(f[k], pre["md_copy"][k]) for k in keys) if md else True
                    ctx.oracle("file == snapshot of the state + metadata", ok_n and ok_u and ok_m, cs,
                               detail={"nets": ok_n, "ud": ok_u, "metadata": ok_m}, sig="save/file-contents", theorem="C11_roundtrip")
                    self.last_saved[op["path"]] = {"snap": snap, "dirty": self.dirty.get(op["slot"], False)}
                    # idempotence: the very same call directly before succeeded too and wrote an equal file
                    if self.prev is not None and self.prev["op"] == op and op.get("src") != "callable":
                        ctx.oracle("save; save with the same arguments: both succeed, equal files",
                                   self.prev["err"] is None and so.deep_equal(self.prev["file"], f), cs,
                                   detail={"first_err": self.prev["err"]}, sig="save/idempotent", theorem="C11_idempotent")
                        ctx.count("double_save")
            if self.prev is not None and self.prev["op"] == op and self.prev["err"] is None and not monly:
                ctx.oracle("second save with the same arguments succeeds", err is None, cs, detail={"err": err}, sig="save/second-save-fails", theorem="C11_idempotent")
            self.prev = {"op": dict(op), "err": err, "file": f if err is None and real.file_exists(op["path"]) else None}
        else:
            self.prev = None
        if t == "load":
            st = real.models[op["slot"]]
            ls = self.last_saved.get(op["path"])
            if ls is None:
                ctx.count("load:path-never-saved:" + str(err))   # not a clause of the property
            elif ls.get("metadata_only"):
                ctx.oracle("load of a metadata-only file fails", err is not None, cs, sig="load/metadata-only")
            else:
                snap = ls["snap"]
                compat = all(n in snap["nets"] and [(k, tuple(v.shape)) for k, v in snap["nets"][n].items()]
                             == [(k, tuple(v.shape)) for k, v in pre["snap"]["nets"][n].items()] for n in st.networks)
                if compat:
                    now = so.snapshot_state(st)
                    ok = err is None and all(so.nets_equal(now["nets"][n], snap["nets"][n]) for n in st.networks)
                    if now["ud"] is not None and snap["ud"] is not None:
                        ok = ok and so.deep_equal(now["ud"], snap["ud"])
                    ctx.oracle("load yields the snapshot of the most recent successful save", ok, cs, detail={"err": err}, sig="load/roundtrip", theorem="C11_history")
                    ctx.count("load_compatible")
                    if ls["dirty"]:
                        self.nontrivial = True
                else:
                    ctx.oracle("load into an incompatible model fails", err is not None, cs, sig="load/incompatible-accepted")
                    ctx.count("load_incompatible")
        if t in ("save", "load", "autoload"):
            is_fobj = bool(op.get("fobj")) or (t != "save" and real.must_be_fileobj(op["path"]))
            if is_fobj:
                ctx.count(f"location_is_open_file:{t}" + (":BytesIO" if op.get("io") == "bytes" else ""))
                phys, off = (real.target_of(op), (real.last_write or {}).get("start", 0)) if t == "save" else real.where(op["path"])
                if off != 0:
                    ctx.count(f"location_starts_at_nonzero_position:{t}" + (":in_a_stream_of_checkpoints" if os.path.basename(phys).startswith("stream") else ":after_a_header"))
        if t in ("save", "saverSave") and pre.get("md_copy") and "unitary_dict" in pre["md_copy"] and not hasattr(real.models[op["slot"]], "unitary_dict"):
            ctx.count("metadata_key_unitary_dict_on_state_without_dictionary:" + ("accepted" if err is None else str(err)))
        if t == "autoload":
            ls = self.last_saved.get(op["path"])
            if ls is None:
                ctx.count("autoload:path-never-saved:" + str(err))   # not a clause of the property
            elif ls.get("metadata_only"):
                self.cross_kind.add(id(op))  # a metadata-only checkpoint is not a saved state
            else:
                snap = ls["snap"]
                same = so.KINDS[op["kind"]].__name__ == snap["kind"]
                if same:
                    ok = err is None
                    if ok:
                        now = so.snapshot_state(real.models[op["slot"]])
                        ok = (now["arch"] == snap["arch"] and so.deep_equal(now["nets"], snap["nets"]) and so.deep_equal(now["ud"], snap["ud"]))
                    ctx.oracle("autoload reproduces architecture, parameters and unitary dict of the last save", ok, cs, detail={"err": err},
                               sig="autoload/file-object" if (op.get("fobj") or real.must_be_fileobj(op["path"])) else "autoload/roundtrip", theorem="C11_roundtrip_autoload")
                    ctx.count("autoload_same_kind")
                    if ls["dirty"]:
                        self.nontrivial = True
                else:
                    self.cross_kind.add(id(op))
                    ctx.count("autoload_other_kind")
                    if err is None:
                        now = so.snapshot_state(real.models[op["slot"]])
                        ctx.oracle("autoload as another state type, when accepted, reproduces the shared networks",
                                   all(so.nets_equal(now["nets"][n], snap["nets"][n]) for n in now["nets"]), cs, sig="autoload/cross-kind")


def level_fn(op, err):
    return "property" if err is None or op["t"] in ("save", "saverSave") else "aux"


def one_case(ctx, case):
    hooks = Hooks(ctx, case)
    kept, obs = so.run_history(ctx, case, "c11.run", hooks, level_fn)
    ctx.case({"plan": case["plan"], "tseed": case["tseed"], "rel": bool(case.get("rel"))}, nontrivial=hooks.nontrivial,
             sample={"ops": [o["t"] for o in kept], "errors": [e for e, _ in obs], "tseed": case["tseed"]})
    ctx.count("cases_with_roundtrip" if hooks.nontrivial else "cases_without_roundtrip")


def fixed_cases():
    """hand-written histories that every run replays (see `_fixed_cases`), each with argument forms from a stream seeded by its tseed"""
    import random

    for case in _fixed_cases():
        so.add_forms(case["plan"], random.Random(case["tseed"]))
        yield case


def _fixed_cases():
    """hand-written histories that every run replays: F5 scenario (ModelSaver reusing one dict on a state with a unitary
    dict), cross-type autoloads, partial load, reserved names"""
    c = lambda **k: k  # noqa: E731
    yield {"tseed": 101, "plan": [
        c(t="construct", slot=0, kind="cplx", nv=2, nh=3, na=None, ud=["H"]), c(t="write", slot=0, net="rbm_am"), c(t="write", slot=0, net="rbm_ph"),
        c(t="mkMeta", mdslot=0, items=MD_KINDS["flat"]),
        c(t="saverSave", slot=0, src="dict", mdslot=0, items=[], metadataOnly=False, path=0),
        c(t="saverSave", slot=0, src="dict", mdslot=0, items=[], metadataOnly=False, path=0),
        c(t="save", slot=0, md=0, path=1), c(t="save", slot=0, md=0, path=1),
        c(t="addUnitary", slot=0, name="K"), c(t="save", slot=0, md=0, path=1),
        c(t="autoload", slot=1, kind="cplx", path=1), c(t="autoload", slot=2, kind="pos", path=1), c(t="autoload", slot=2, kind="dens", path=1),
        c(t="construct", slot=2, kind="cplx", nv=2, nh=2, na=None, ud=None), c(t="load", slot=2, path=1)]}
    yield {"tseed": 102, "plan": [
        c(t="construct", slot=0, kind="dens", nv=2, nh=3, na=1, ud=["S", "H"]), c(t="train", slot=0, bases=True, opt="adam", epochs=1),
        c(t="mkMeta", mdslot=1, items=MD_KINDS["res_ud"]), c(t="save", slot=0, md=1, path=0),
        c(t="mkMeta", mdslot=2, items=MD_KINDS["tensor"]), c(t="save", slot=0, md=2, path=0), c(t="save", slot=0, md=2, path=0),
        c(t="autoload", slot=1, kind="dens", path=0), c(t="autoload", slot=2, kind="cplx", path=0), c(t="autoload", slot=2, kind="pos", path=0),
        c(t="construct", slot=2, kind="dens", nv=2, nh=3, na=1, ud=None), c(t="load", slot=2, path=0),
        c(t="construct", slot=2, kind="dens", nv=2, nh=3, na=2, ud=None), c(t="load", slot=2, path=0), c(t="load", slot=2, path=2)]}
    yield {"tseed": 103, "plan": [
        c(t="construct", slot=0, kind="pos", nv=3, nh=None, na=None, ud=None), c(t="write", slot=0, net="rbm_am"),
        c(t="mkMeta", mdslot=0, items=MD_KINDS["res_ph"]), c(t="save", slot=0, md=0, path=2),
        c(t="mkMeta", mdslot=1, items=MD_KINDS["res_am"]), c(t="save", slot=0, md=1, path=2),
        c(t="mkMeta", mdslot=2, items=MD_KINDS["nonstr"]), c(t="save", slot=0, md=2, path=2),
        c(t="construct", slot=1, kind="cplx", nv=3, nh=3, na=None, ud=None), c(t="load", slot=1, path=2),
        c(t="autoload", slot=2, kind="cplx", path=2), c(t="autoload", slot=2, kind="pos", path=2),
        c(t="saverSave", slot=0, src="callable", mdslot=0, items=MD_KINDS["nested"], metadataOnly=True, path=1), c(t="load", slot=0, path=1)]}


    # two (three) models built from the SAME caller-owned unitary dictionary; a file whose same-named unitaries have other values is
    # loaded into one of them: the other models and the caller's dictionary must keep theirs
    yield {"tseed": 104, "plan": [
        c(t="mkUD", udslot=0, names=["H", "S"]), c(t="mkUD", udslot=1, names=["H", "S"]),
        c(t="construct", slot=0, kind="cplx", nv=2, nh=3, na=None, ud={"ref": 0}),
        c(t="construct", slot=1, kind="cplx", nv=2, nh=3, na=None, ud={"ref": 0}),
        c(t="construct", slot=2, kind="cplx", nv=2, nh=3, na=None, ud={"ref": 1}), c(t="write", slot=2, net="rbm_am"), c(t="addUnitary", slot=2, name="K"),
        c(t="save", slot=2, md=None, path=0), c(t="load", slot=0, path=0), c(t="save", slot=1, md=None, path=1),
        c(t="addUnitary", slot=0, name="H"), c(t="save", slot=0, md=None, path=2), c(t="load", slot=1, path=2),
        c(t="construct", slot=2, kind="dens", nv=2, nh=3, na=1, ud={"ref": 0}), c(t="autoload", slot=0, kind="cplx", path=1),
        c(t="load", slot=0, path=0), c(t="reinit", slot=0), c(t="save", slot=0, md=None, path=0)]}


    # a metadata key "unitary_dict" on a state that HAS no unitary dictionary is ordinary metadata: saved, saved again, loaded,
    # auto-loaded as the same state type; also in a metadata-only checkpoint (which is then not a loadable state)
    yield {"tseed": 105, "plan": [
        c(t="construct", slot=0, kind="pos", nv=2, nh=3, na=None, ud=None), c(t="write", slot=0, net="rbm_am"),
        c(t="mkMeta", mdslot=0, items=MD_KINDS["res_ud"]), c(t="save", slot=0, md=0, path=0), c(t="save", slot=0, md=0, path=0),
        c(t="construct", slot=1, kind="pos", nv=2, nh=3, na=None, ud=None), c(t="load", slot=1, path=0),
        c(t="autoload", slot=2, kind="pos", path=0),
        c(t="mkMeta", mdslot=1, items=MD_KINDS["res_ud_falsy"]), c(t="save", slot=0, md=1, path=1, fobj=True), c(t="autoload", slot=2, kind="pos", path=1, fobj=True),
        c(t="saverSave", slot=0, src="dict", mdslot=0, items=[], metadataOnly=False, path=2),
        c(t="saverSave", slot=0, src="dict", mdslot=0, items=[], metadataOnly=False, path=2), c(t="load", slot=1, path=2, fobj=True),
        c(t="saverSave", slot=0, src="dict", mdslot=0, items=[], metadataOnly=True, path=1), c(t="load", slot=1, path=1), c(t="autoload", slot=2, kind="pos", path=1),
        c(t="mkMeta", mdslot=2, items=MD_KINDS["res_both"]), c(t="save", slot=0, md=2, path=0)]}
    # `location` as an open file object for every state type: save, save again, load, autoload
    yield {"tseed": 106, "plan": [
        c(t="construct", slot=0, kind="cplx", nv=2, nh=1, na=None, ud=["H"]), c(t="write", slot=0, net="rbm_ph"),
        c(t="mkMeta", mdslot=0, items=MD_KINDS["tensor"]), c(t="save", slot=0, md=0, path=0, fobj=True), c(t="save", slot=0, md=0, path=0, fobj=True),
        c(t="autoload", slot=1, kind="cplx", path=0, fobj=True), c(t="write", slot=1, net="rbm_am"), c(t="load", slot=1, path=0, fobj=True),
        c(t="construct", slot=2, kind="dens", nv=2, nh=3, na=1, ud=None), c(t="write", slot=2, net="rbm_am"), c(t="save", slot=2, md=None, path=1, fobj=True),
        c(t="autoload", slot=0, kind="dens", path=1, fobj=True), c(t="mkMeta", mdslot=1, items=MD_KINDS["res_ud"]), c(t="save", slot=2, md=1, path=1, fobj=True),
        c(t="autoload", slot=1, kind="dens", path=1), c(t="load", slot=0, path=1, fobj=True)]}

    # file objects that do NOT start at position 0, for every state type: a stream of checkpoints (the same model saved, changed, saved
    # again into one open file; another model's checkpoint behind it), each checkpoint auto-loaded / loaded from its own start position;
    # a state saved behind a header the caller wrote first; real files and io.BytesIO
    for i, (kind, nh, na) in enumerate((("pos", 3, None), ("cplx", 1, None), ("dens", 3, 1))):
        ud = None if kind == "pos" else ["H"]
        other = {"pos": "cplx", "cplx": "dens", "dens": "pos"}[kind]
        yield {"tseed": 107 + i, "plan": [
            c(t="construct", slot=0, kind=kind, nv=2, nh=nh, na=na, ud=ud), c(t="write", slot=0, net="rbm_am"),
            c(t="mkMeta", mdslot=0, items=MD_KINDS["flat"]),
            c(t="save", slot=0, md=0, path=0, fobj=True, stream=0),                       # checkpoint 1 of the stream
            c(t="write", slot=0, net="rbm_am"), c(t="save", slot=0, md=0, path=1, fobj=True, stream=0),   # checkpoint 2 (same model, trained on)
            c(t="autoload", slot=2, kind=kind, path=1), c(t="write", slot=0, net="rbm_am"), c(t="load", slot=0, path=1, io="bytes"),
            c(t="construct", slot=1, kind=other, nv=3, nh=2, na=(2 if other == "dens" else None), ud=None), c(t="write", slot=1, net="rbm_am"),
            c(t="save", slot=1, md=None, path=2, fobj=True, stream=0, io="bytes"),        # checkpoint 3: another model
            c(t="autoload", slot=2, kind=other, path=2), c(t="autoload", slot=2, kind=other, path=2, io="bytes"),
            c(t="write", slot=0, net=so.NETS[kind][-1]), c(t="save", slot=0, md=0, path=3, fobj=True, hdr=14),   # state behind a 14-byte header
            c(t="save", slot=0, md=0, path=3, fobj=True, hdr=14), c(t="autoload", slot=2, kind=kind, path=3),
            c(t="save", slot=0, md=None, path=4, fobj=True, hdr=1000, io="bytes"), c(t="autoload", slot=1, kind=kind, path=4, io="bytes"),
            c(t="reinit", slot=0), c(t="load", slot=0, path=3),
            c(t="save", slot=0, md=0, path=1),                                            # the file number now names an ordinary file
            c(t="autoload", slot=2, kind=kind, path=1),
            c(t="mkMeta", mdslot=1, items=MD_KINDS["res_am"]), c(t="save", slot=0, md=1, path=0, fobj=True, stream=0),   # refused: nothing appended
            c(t="autoload", slot=2, kind=other, path=2)]}


def gen_cases(ctx, thorough, ncases=None):
    maxlen = 40 if thorough else 12
    n = ncases if ncases is not None else (400 if thorough else 120)
    for k in range(n):
        # one history in four: every location written as a RELATIVE path, the working directory changed between creating a ModelSaver and using it
        yield {"plan": gen_plan(ctx.rng, maxlen), "tseed": ctx.rng.randrange(1, 2 ** 31), "rel": ctx.rng.random() < 0.25}


def run(ctx):
    ctx.rule = RULE
    for case in fixed_cases():
        one_case(ctx, case)
        one_case(ctx, {**case, "rel": True})
    for case in gen_cases(ctx, ctx.tier == "thorough"):
        one_case(ctx, case)


def env_run(ctx, env_name):
    """the same property for a caller who changed a process-global setting (harness/common.py ENVS: default dtype float64, no_grad,
    another working directory): every hand-written history (all operation families, all three state types, ModelSaver, file objects)
    with absolute and with relative locations, and a few generated ones; all objects are constructed inside the environment, and in the
    relative-path histories the ModelSaver is created BEFORE a further change of the working directory and used after it"""
    for case in fixed_cases():
        one_case(ctx, {**case, "rel": case["tseed"] % 2 == 0})
        one_case(ctx, {**case, "rel": case["tseed"] % 2 == 1})
    for case in gen_cases(ctx, False, ncases=12):
        one_case(ctx, case)


def search(ctx):
    drv, ctx.driver = ctx.driver, None
    try:
        for case in fixed_cases():
            one_case(ctx, case)
            one_case(ctx, {**case, "rel": True})
        for case in gen_cases(ctx, True, ncases=250):
            one_case(ctx, case)
    finally:
        ctx.driver = drv


def replay(ctx, case):
    one_case(ctx, {"plan": case["plan"], "tseed": case["tseed"], "rel": bool(case.get("rel"))})
