"""C02 — correspondence of the mixed-state model (QV.Model.States.Density, QV.Model.Density, PRBM in QV.Model.Rbm)
with the real DensityMatrix / PurificationRBM, plus the property oracles evaluated on the implementation:
brute-force partial trace over {0,1}^H x {0,1}^A of the purified two-network state, Hermitian, eigenvalues >= 0,
diagonal == probability, trace == normalization, call forms agree, phase aux-bias ignored.

SAMPLING PROBE ("... the unnormalised probabilities the model reports AND SAMPLES FROM"): the scripted-bernoulli recorder /
replay machinery of harness/c05.py is run on the DensityMatrix (k = 0..3, every basis state as start, single vector, no start,
overwrite, chains continued across calls); the model `run`s PRBM.gibbsStepsB through the driver op c05.replay; the one-pass kernel
assembled from the public conditionals must be reversible w.r.t. diag rho / trace rho of the implementation.

HISTORY: a case may carry `writes`: after the full evaluation ALL parameters of BOTH networks of the SAME DensityMatrix are
overwritten (c05.WRITE_MODES) and everything (energies, gamma, pi, rho, probability, normalization in all call forms, sampling)
is evaluated again with the SAME argument tensor objects and compared with the model at the new parameters."""
import itertools
import math

import numpy as np

from . import argforms_a as af
from . import c05, qc
from . import callshape as cs
from .common import bits, unbits
from .qc import torch

FILES = [
    "qucumber/nn_states/density_matrix.py",
    "qucumber/rbm/purification_rbm.py",
    "qucumber/nn_states/neural_state.py",
]
REQUIRED_THEOREMS = [
    "C02_pi_unit", "C02_rho_eq_partial_trace", "C02_phase_aux_bias_irrelevant", "C02_hermitian", "C02_posSemidef",
    "C02_diagonal", "C02_trace", "C02_normalization_pos", "C02_call_forms", "C02_rhoDiag_eq_rho_diag", "C02_diagonal_sampled",
    "C02_NZ_of_x_ne_zero", "C02_NZ_of_amp_off_hyperplanes", "C02_posSemidef_of_x_ne_zero", "C02_posSemidef_of_amp_off_hyperplanes",
    "C02_expand_flag", "C02_expand_flag_partial_trace",   # round 4: `expand` as the object the caller passed
    # extension round 2: the call forms as the code computes them (rank tests, unsqueeze_, broadcasting) are theorems
    "C02_call_forms_single", "C02_call_forms_matrix", "C02_call_forms_paired", "C02_call_forms_mixed", "C02_call_forms_outcome", "C02_call_forms_pointwise_defs",
]
THEOREMS = {
    "rho": "C02_rho_eq_partial_trace (+ C02_hermitian, C02_posSemidef, C02_call_forms)",
    "rho_diag": "C02_diagonal, C02_rhoDiag_eq_rho_diag",
    "probability": "C02_diagonal, C02_probability_eq_partial_trace, C02_probability_eq_aux_marginal",
    "normalization": "C02_trace, C02_normalization",
}
EXTRA_TRUSTED = [
    "C02: partial-trace and positive-semidefinite theorems carry the guard NZ (no auxiliary unit with 1+e^{x+iy}=0, "
    "where Real.log 0 = 0 differs from the float log 0 = -inf); the excluded point is probed on the real code (nz-probe)",
]
RULE = ("CALL FORMS AS WRITTEN (extension round 2): per run 3 (thorough: 8) random models (n,h,a <= 3, scale in {0.1,1,3}) x every rank combination v in {vector, batch B=1..3} x "
        "vp in {None, vector, batch B'=1..3} x expand in {True, False} on random 0/1 rows with v != vp: rho / pi / gamma(+1, amplitude net) / gamma(-1, phase net) of the REAL state against "
        "Density.rhoCall / piCall / PRBM.gammaCall (accepted-or-refused, exact result shape, entries); the forms the quantifier names (both batches with expand=True, equal-size batches "
        "or vp=None with expand=False, both 1-D) at property level, mixed ranks / unequal batch sizes recorded only (ctx.info: outside the quantifier); "
        "case = (n, h, a, scale, amplitude-net params, phase-net params, alternative phase aux bias, 1-D pairs); every weight/bias "
        "= scale*N(0,1), scale in {0,0.1,1,3,10,30}, phase aux bias 0 in half of the cases and non-zero in the other half; all "
        "4^n pairs of basis states in the expand=True (full matrix, plus a rectangular sub-batch), expand=False (paired) forms, a "
        "seeded subset of pairs in the 1-D form; exp-domain points (rho, probability, normalization) only when every exponent "
        "|Gamma+ + Re Pi| <= 600, log-domain points (energies, gamma, pi) always, plus a few scale-100/300 overflow probes compared in the log "
        "domain only (inf/nan must be of the same class on both sides); non-trivial iff scale > 0 and all of b, c, d of the "
        "amplitude net non-zero and some phase-net U non-zero; distinct by hash of the case; every generated case also carries 7 scripted "
        "sampling calls (k = 0..3 from every basis state, vector start, no start, continued chain; overwrite / api / draw mode varied) and, "
        "for two of three cases, 1-2 complete re-parametrisations of the same state object (copy_|assign|zero_add|nograd_copy|reinit+copy_|"
        "reinit+assign) after each of which everything is evaluated again with the same argument tensors; every explicit `expand` argument "
        "of gamma / pi / rho (batch and 1-D forms) and every `overwrite` argument of the sampling calls is handed over as one of {bool "
        "singleton, int 1/0, numpy.bool_, result of a numpy comparison, 0-dim numpy bool array, 0-dim torch.bool tensor}, by keyword or "
        "positionally, drawn from a per-case seeded stream (`fseed`); the state is constructed with gpu=<falsy object of one of these forms>; argument-form "
        "sweep (round 5): every INTEGER option - num_visible / num_hidden / num_aux of the DensityMatrix and PurificationRBM constructors, `eta` "
        "of gamma (+1 / -1), `size` of generate_hilbert_space, `k` / `num_samples` of the sampling calls - is handed over as one of {Python int, "
        "np.int64, np.int32, np.intp, np.uint8, 0-d integer numpy array, 0-d integer torch tensor} and the normalisation `Z` of probability as the "
        "0-d tensor normalization() returned / float / numpy float, drawn from the case's stream `aseed`, keyword or positional")
EXP_LIMIT = 600.0


# ------------------------------------------------------------------ model-independent oracle
def _A(p, key, shape):
    return np.asarray(p[key], dtype=np.float64).reshape(shape)


def log_weights(p, n, h, a, rows, auxrows):
    """L[s, x] = log Σ_{hid ∈ {0,1}^H} exp(b·σ_s + c·hid + d·aux_x + hid·Wσ_s + aux_x·Uσ_s), hidden units enumerated
    explicitly (stable log-sum-exp over the enumeration); independent of the Lean model and of the library."""
    W, U, b, c, d = _A(p, "W", (h, n)), _A(p, "U", (a, n)), _A(p, "b", (n,)), _A(p, "c", (h,)), _A(p, "d", (a,))
    S = np.asarray(rows, dtype=np.float64).reshape(len(rows), n)
    X = np.asarray(auxrows, dtype=np.float64).reshape(len(auxrows), a)
    Hs = np.asarray(list(itertools.product([0.0, 1.0], repeat=h)), dtype=np.float64).reshape(2 ** h, h)
    vis = S @ b                                  # (N,)
    hid = Hs @ c                                 # (2^H,)
    hw = (S @ W.T) @ Hs.T                        # (N, 2^H)   hid·Wσ
    aux = X @ d                                  # (C,)
    au = (S @ U.T) @ X.T                         # (N, C)     aux·Uσ
    joint = vis[:, None, None] + hid[None, :, None] + hw[:, :, None] + aux[None, None, :] + au[:, None, :]  # (N, 2^H, C)
    m = joint.max(axis=1, keepdims=True)
    return (m + np.log(np.exp(joint - m).sum(axis=1, keepdims=True)))[:, 0, :]


def oracle_state(am, ph, n, h, a, rows):
    """log-domain description of the purified state: L_lam[s,x], L_mu[s,x]"""
    auxrows = qc.all_states(a)
    return log_weights(am, n, h, a, rows, auxrows), log_weights(ph, n, h, a, rows, auxrows)


def oracle_rho(Ll, Lm):
    """R[s,t] = Σ_aux φ(s,aux) conj φ(t,aux),  φ = exp(L_λ/2 + i L_μ/2) (requires max L_λ <= ~700)"""
    phi = np.exp(Ll / 2) * np.exp(1j * Lm / 2)
    return phi @ phi.conj().T


def oracle_corr(Ll, Lm):
    """normalised form C[s,t] = R[s,t]/sqrt(R[s,s] R[t,t]) computed without leaving the log domain"""
    m = Ll.max(axis=1, keepdims=True)
    lse = m + np.log(np.exp(Ll - m).sum(axis=1, keepdims=True))          # log R[s,s]
    phi = np.exp((Ll - lse) / 2) * np.exp(1j * Lm / 2)
    return phi @ phi.conj().T, lse[:, 0]


# ------------------------------------------------------------------ one case
def _np(t):
    return t.detach().numpy().copy()


def _norm_pair(impl_re, impl_im, m_re, m_im):
    """divide both sides entry-wise by the model's modulus so that every entry is compared at its own magnitude"""
    m_re = np.asarray(m_re, dtype=np.float64)
    m_im = np.asarray(m_im, dtype=np.float64)
    s = np.hypot(m_re, m_im)
    s = np.where(np.isfinite(s) & (s > 0), s, 1.0)
    with np.errstate(all="ignore"):
        return (np.asarray(impl_re) / s, np.asarray(impl_im) / s, m_re / s, m_im / s)


class ShapeMismatch(Exception):
    pass


def one_case(ctx, case):
    """run one case; an exception raised by the implementation on a valid input, or a result of the wrong shape, is a
    property-level failure (the property says the three call forms return the elements), not an internal error"""
    try:
        _one_case(ctx, case)
    except ShapeMismatch as e:
        ctx.oracle("call form returns the documented shape", False, case, detail=str(e), sig="shape", theorem="C02_call_forms")
    except (RuntimeError, ValueError, TypeError, IndexError, AttributeError) as e:
        import traceback
        tb = traceback.extract_tb(e.__traceback__)
        if any("qucumber" in (fr.filename or "") for fr in tb):
            ctx.oracle("implementation raised on a valid input", False, case, detail=f"{type(e).__name__}: {e}"[:300],
                       sig="impl-exception", theorem="C02_call_forms")
        else:
            raise


def _shape(x, shape, what):
    if tuple(np.shape(x)) != tuple(shape):
        raise ShapeMismatch(f"{what}: shape {tuple(np.shape(x))}, expected {tuple(shape)}")
    return x


class _Calls:
    """the flagged call forms of one case.  Every `expand` argument is drawn from the case's flag stream (`qc.Flags(case["fseed"])`): the truth
    value meant is handed over as a bool singleton / int 1|0 / numpy.bool_ / result of a numpy comparison / 0-dim numpy bool array / 0-dim
    torch.bool tensor, by keyword or positionally (gamma(v, vp, eta, expand), pi(v, vp, expand), rho(v, vp, expand)).  `rec` keeps, per call
    on BATCH arguments, (function, descriptor, vp is None, layout of the result) for the comparison with Density.gammaForm / piForm / rhoForm,
    `vals` the flagged rho calls on square batches for the comparison with Density.rhoFlagged (theorem C02_expand_flag)."""

    def __init__(self, fl, A=None):
        """`A`: the case's argument-form stream (argforms.Args): the integer `eta` (+1 / -1) of gamma is handed over as the object it draws"""
        self.fl, self.rec, self.vals = fl, [], []
        self.A = A if A is not None else af.Args(None)

    def eta(self, eta):
        return self.A.i(eta)

    def gamma(self, r, v, vp, eta, b):
        obj, d = self.fl(b)
        eta = self.A.i(eta)
        out = r.gamma(v, vp, eta, obj) if d["pos"] else r.gamma(v, vp, eta=eta, expand=obj)
        if v.dim() == 2 and vp.dim() == 2:
            self.rec.append(["gamma", d, False, "matrix" if out.dim() == 2 else "vector"])
        return out

    def pi(self, st, v, vp, b):
        obj, d = self.fl(b)
        out = st.pi(v, vp, obj) if d["pos"] else st.pi(v, vp, expand=obj)
        if v.dim() == 2 and vp.dim() == 2:
            self.rec.append(["pi", d, False, "matrix" if out.dim() == 3 else "vector"])
        return out

    def rho(self, st, v, vp, b, name=None):
        obj, d = self.fl(b)
        out = st.rho(v, vp, obj) if d["pos"] else (st.rho(v, expand=obj) if vp is None else st.rho(v, vp, expand=obj))
        if v.dim() == 2 and (vp is None or vp.dim() == 2):
            self.rec.append(["rho", d, vp is None, "matrix" if out.dim() == 3 else "vector"])
            if name is not None and (vp is None or vp.shape[0] == v.shape[0]):
                self.vals.append((name, d, v, vp, out.detach().numpy().copy()))
        return out


class _In:
    """the argument tensors of one case, built once and handed to the implementation again in every phase of a history"""

    def __init__(self, st, n, a, sub, A=None):
        rows, auxrows = qc.all_states(n), qc.all_states(a)
        N, C = len(rows), len(auxrows)
        self.space_t = torch.tensor(rows, dtype=torch.double)
        self.aux_t = torch.tensor(auxrows, dtype=torch.double)
        if A is None or A.aseed is None:
            self.gen_space = st.generate_hilbert_space()
        else:   # `size` = n as the object the case's stream draws, positional or by keyword
            self.gen_space = st.generate_hilbert_space(A.i(n)) if A.coin(0.5) else st.generate_hilbert_space(size=A.i(n))
        self.gen_space_d = self.gen_space.to(dtype=torch.double)
        self.vrep = self.space_t.repeat_interleave(N, 0)   # pair (i,j) at position i*N+j : v = row i
        self.vtile = self.space_t.repeat(N, 1)             #                               vp = row j
        self.sub_t = self.space_t[sub]
        self.vrepC = self.space_t.repeat_interleave(C, 0)
        self.auxtile = self.aux_t.repeat(N, 1)
        self.row = [self.space_t[i] for i in range(N)]     # 1-D arguments (views of the space tensor, as user code slices them)
        self.aux = [self.aux_t[x] for x in range(C)]
        self.sampling = c05.Inputs()
        self._names = ("space_t", "aux_t", "gen_space", "gen_space_d", "vrep", "vtile", "sub_t", "vrepC", "auxtile")
        self._orig = {k: getattr(self, k).clone() for k in self._names}

    def modified(self):
        return [k for k in self._names if not torch.equal(getattr(self, k), self._orig[k])] + self.sampling.modified()


def _one_case(ctx, case):
    n, h, a, scale = case["n"], case["h"], case["a"], case["scale"]
    am, ph = case["am"], case["ph"]
    tag = case.get("tag", "gen")
    ctx.current_case = case
    A = af.Args(case.get("aseed"))            # cases stored before round 5 carry no "aseed": Python ints by keyword, as before
    st = af.make_density(A, n, h, a, am, ph, gpu=qc.flag_value(qc.flag_desc(case.get("gpuf"), False)))
    if not af.check_sizes(ctx, st, (n, h, a), case, A, "ctor-sizes", "C02_rho_eq_partial_trace (stated for the architecture n x h x a the caller asked for)"):
        return
    I = _In(st, n, a, case["sub"], A)
    if A.aseed is not None:
        ctx.oracle("generate_hilbert_space(size = n given as an integer object) == all 2^n basis states in counting order",
                   bool(I.gen_space.dtype == torch.double and I.gen_space.tolist() == [[float(x) for x in r] for r in qc.all_states(n)]), case,
                   detail={"given_as": A.used()["ints"][-1:]}, sig="hilbert-space-size", theorem="C02_trace (the trace runs over the whole basis)")
    writes = case.get("writes") or []
    K = _Calls(qc.Flags(case.get("fseed")), A)   # cases stored before round 4 carry no "fseed": Python singletons by keyword, as before

    nontriv = (scale > 0 and all(x != 0 for x in am["b"]) and all(x != 0 for x in am["c"]) and all(x != 0 for x in am["d"])
               and any(x != 0 for r in ph["U"] for x in r))
    ctx.case({k: case[k] for k in ("n", "h", "a", "am", "ph")} | ({"writes": writes} if writes else {}), nontrivial=nontriv,
             sample={"n": n, "h": h, "a": a, "scale": scale, "am_b": am["b"], "am_d": am["d"], "ph_d": ph["d"], "pairs": 4 ** n, "tag": tag,
                     "writes": [w["mode"] for w in writes], "sampling_calls": len(case.get("sampling") or [])})
    for k, v in (("n", n), ("h", h), ("a", a), ("scale", scale)):
        ctx.count(f"{k}={v}")
    ctx.count("gpu=False given as " + qc.flag_desc(case.get("gpuf"), False)["form"])
    ctx.count("ph_d=0" if all(x == 0 for x in ph["d"]) else "ph_d!=0")
    if writes:
        ctx.count("history_cases")
    phases = [(None, am, ph)] + [(w["mode"], w["am"], w["ph"]) for w in writes]
    for i, (wmode, am_i, ph_i) in enumerate(phases):
        sub = ctx
        if wmode is not None:
            c05.rewrite(st, am_i, ph_i, wmode)
            ctx.count(f"write={wmode}")
            sub = c05.SubCtx(ctx, outer=case, prefix=f"after write {i} ({wmode}): ", sigsuffix="@rewritten")
        try:
            _eval_state(sub, st, case, am_i, ph_i, I, K)
        except ShapeMismatch as e:
            sub.oracle("call form returns the documented shape", False, case, detail=f"{e}; `expand` was given as {K.fl.used[-1] if K.fl.used else 'default'}",
                       sig="shape", theorem="C02_call_forms, C02_expand_flag")
        if case.get("sampling"):
            sampling_probe(sub, st, case, am_i, I)
        bad_in = I.modified()
        sub.oracle("argument tensors unmodified by the evaluation", not bad_in, case, detail={"modified": bad_in}, sig="args-untouched")
    for d in K.fl.used:
        ctx.count(f"expand={d['value']} given as {d['form']}:{'positional' if d['pos'] else 'keyword'}")
    A.count_into(ctx)
    alt = case.get("alt")
    if alt is not None:
        sets = [phases[-1][1:], (alt["am"], alt["ph"])]
        if all(in_exp_domain(p_am, p_ph, n, h, a) for (p_am, p_ph) in sets):
            c05.alternation(ctx, st, case, c02_thunks(st, case, I, sets, K), sets, alt["off"], "alternation")
            bad_in = I.modified()
            ctx.oracle("alternation: argument tensors unmodified", not bad_in, case, detail={"modified": bad_in}, sig="args-untouched")
        else:
            ctx.count("alternation_skipped(overflow regime)")


def np_gamma(p, V, Vp, sign):
    """Gamma^(+/-) matrix written out in numpy: (f(v) + sign f(v'))/2, f(v) = b.v + sum softplus(Wv + c)"""
    h, n = len(p["c"]), len(p["b"])
    W, b, c = _A(p, "W", (h, n)), _A(p, "b", (n,)), _A(p, "c", (h,))
    f = lambda X: X @ b + np.logaddexp(0.0, X @ W.T + c).sum(-1)  # noqa: E731
    return 0.5 * (f(V)[:, None] + sign * f(Vp)[None, :])


def np_pi(am, ph, V, Vp):
    """Pi matrix in numpy through the COMPLEX principal logarithm: sum_k log(1 + exp(x_k + i y_k))  (re, im)"""
    a, n = len(am["d"]), len(am["b"])
    Ua, d, Up = _A(am, "U", (a, n)), _A(am, "d", (a,)), _A(ph, "U", (a, n))
    x = ((V @ Ua.T + d)[:, None, :] + (Vp @ Ua.T + d)[None, :, :]) / 2
    y = ((V @ Up.T)[:, None, :] - (Vp @ Up.T)[None, :, :]) / 2
    z = np.log(1.0 + np.exp(x + 1j * y))
    return z.real.sum(-1), z.imag.sum(-1)


def c02_thunks(st, case, I, sets, K=None):
    """the observables of C02 in their call forms as (name, call, numpy reference per parameter set, theorem) for c05.alternation;
    rho / probability / normalization references: the brute-force partial trace (oracle_rho), NOT the library's formula"""
    n, h, a = case["n"], case["h"], case["a"]
    rows = qc.all_states(n)
    N = len(rows)
    V = np.asarray(rows, dtype=np.float64)
    i0, j0 = case["vec_pairs"][0]
    refs = []
    for (am, ph) in sets:
        Ll, Lm = oracle_state(am, ph, n, h, a, rows)
        R = oracle_rho(Ll, Lm)
        pr, pim = np_pi(am, ph, V, V)
        refs.append({"R": R, "diag": np.diag(R).real.copy(), "pi_re": pr, "pi_im": pim,
                     "g_am_p": np_gamma(am, V, V, 1.0), "g_ph_m": np_gamma(ph, V, V, -1.0),
                     "E_am": c05.np_energy("dens", am, rows), "E_ph": c05.np_energy("dens", ph, rows), "Eaux": -Ll})
    K = K if K is not None else _Calls(qc.Flags(None))
    cx = lambda t: _np(t)  # noqa: E731
    ri = lambda k, M: np.stack([refs[k][M].real, refs[k][M].imag])  # noqa: E731
    T = THEOREMS
    return [
        ("rho(space, space)", lambda: cx(st.rho(I.space_t, I.space_t)), lambda k: ri(k, "R"), T["rho"]),
        ("probability(space)", lambda: cx(st.probability(I.space_t, 1.0)), lambda k: refs[k]["diag"], T["probability"]),
        ("normalization(generated space)", lambda: np.array([float(st.normalization(I.gen_space))]), lambda k: np.array([refs[k]["diag"].sum()]), T["normalization"]),
        ("rho(space) vp=None", lambda: cx(st.rho(I.space_t)), lambda k: ri(k, "R"), T["rho"]),
        ("rho(v, vp, expand=False)", lambda: cx(K.rho(st, I.vrep, I.vtile, False)), lambda k: ri(k, "R").reshape(2, N * N), T["rho"]),
        ("rho(space, space, expand=True)", lambda: cx(K.rho(st, I.space_t, I.space_t, True)), lambda k: ri(k, "R"), T["rho"]),
        ("rho 1-D", lambda: cx(st.rho(I.row[i0], I.row[j0])).ravel(), lambda k: np.array([refs[k]["R"][i0, j0].real, refs[k]["R"][i0, j0].imag]), T["rho"],
         lambda k: float(np.sqrt(refs[k]["diag"][i0] * refs[k]["diag"][j0]))),
        ("rho(space, expand=False)", lambda: cx(K.rho(st, I.space_t, None, False)), lambda k: np.stack([refs[k]["diag"], np.zeros(N)]), T["rho_diag"]),
        ("rho(generated space)", lambda: cx(st.rho(I.gen_space_d, I.gen_space_d)), lambda k: ri(k, "R"), T["rho"]),
        ("pi(space, space)", lambda: cx(st.pi(I.space_t, I.space_t)), lambda k: np.stack([refs[k]["pi_re"], refs[k]["pi_im"]]), "C02_pi_unit", 1.0),
        ("pi(v, vp, expand=False)", lambda: cx(K.pi(st, I.vrep, I.vtile, False)),
         lambda k: np.stack([refs[k]["pi_re"].ravel(), refs[k]["pi_im"].ravel()]), "C02_pi_unit", 1.0),
        ("pi 1-D", lambda: cx(st.pi(I.row[i0], I.row[j0])).ravel(), lambda k: np.array([refs[k]["pi_re"][i0, j0], refs[k]["pi_im"][i0, j0]]), "C02_pi_unit", 1.0),
        ("gamma[am,+](space, space)", lambda: cx(K.gamma(st.rbm_am, I.space_t, I.space_t, 1, True)), lambda k: refs[k]["g_am_p"], T["rho"], 1.0),
        ("gamma[ph,-](v, vp, expand=False)", lambda: cx(K.gamma(st.rbm_ph, I.vrep, I.vtile, -1, False)), lambda k: refs[k]["g_ph_m"].ravel(), T["rho"], 1.0),
        ("gamma[ph,-] 1-D", lambda: np.array([float(st.rbm_ph.gamma(I.row[i0], I.row[j0], eta=-1))]), lambda k: np.array([refs[k]["g_ph_m"][i0, j0]]), T["rho"], 1.0),
        ("effective_energy[am](space)", lambda: cx(st.rbm_am.effective_energy(I.space_t)), lambda k: refs[k]["E_am"], T["probability"], 1.0),
        ("effective_energy[ph](space)", lambda: cx(st.rbm_ph.effective_energy(I.space_t)), lambda k: refs[k]["E_ph"], None, 1.0),
        ("effective_energy[am](v, a)", lambda: cx(st.rbm_am.effective_energy(I.vrepC, I.auxtile)).reshape(N, -1), lambda k: refs[k]["Eaux"], T["probability"], 1.0),
    ]


def in_exp_domain(am, ph, n, h, a):
    Ll, _ = oracle_state(am, ph, n, h, a, qc.all_states(n))
    return bool(np.all(np.isfinite(Ll)) and float(np.max(np.abs(Ll))) <= 0.5 * EXP_LIMIT)


def sampling_probe(ctx, st, case, am, I):
    """the distribution the state SAMPLES FROM: (1) one-pass kernel P assembled from the public conditionals of the amplitude network is
    reversible w.r.t. diag rho (implementation) and equals the law of the model's gibbsStep; (2) every scripted call of sample / gibbs_steps
    presents exactly those conditionals, pass after pass, and agrees with the model's gibbsStepsB `run` on the recorded draws
    (=> k-pass law = P^k, C05_k_step_law_purif; every P^k leaves diag rho / trace invariant and is reversible w.r.t. it: C02_diagonal_sampled)"""
    n, h, a = case["n"], case["h"], case["a"]
    N = 2 ** n
    inp = I.sampling
    sub = c05.SubCtx(ctx, outer=case, prefix="sampling: ", sigprefix="sampling/", theorem="C02_diagonal_sampled (= C02_diagonal + C05_invariant_k_purif), C05_k_step_law_purif", countprefix="sampling:")
    P = c05.public_kernel(st, "dens", n, h, a, inp)
    rows = P.sum(axis=1)
    sub.oracle("kernel rows sum to 1, entries >= 0", bool(np.all(np.abs(rows - 1) <= 1e-9) and np.all(P >= 0)), case, sig="row-sums", theorem="C05_kernel_purif")
    if ctx.driver is not None and n + h + a <= 8:
        mk = ctx.driver.call("c05.kernel", kind="prbm", n=n, h=h, a=a, p=qc.pbits(am))
        sub.point("kernel(public conditionals) vs law(gibbsStep)", "aux", P, unbits(mk["P"]), case, sig="kernel-law", theorem="C05_kernel_purif")
    E = _np(st.rbm_am.effective_energy(I.space_t))
    if np.all(np.isfinite(E)) and float(np.max(np.abs(E))) <= EXP_LIMIT:
        R = _np(st.rho(I.space_t, I.space_t))
        diag = np.diag(R[0]).copy()
        Z = float(st.normalization(I.gen_space))
        pZ = _np(st.probability(I.space_t, Z))
        pi = diag / diag.sum()
        sub.oracle("diag rho / trace rho == probability(v, normalization)", bool(np.all(np.abs(pi - pZ) <= 1e-9 + 1e-7 * pZ)), case,
                   detail={"diag/trace": pi.tolist(), "p/Z": pZ.tolist()}, sig="diag-vs-reported", theorem="C02_diagonal, C02_trace")
        flow = pi[:, None] * P
        err = np.abs(flow - flow.T)
        bad = np.argwhere(err > 1e-9 + 1e-6 * np.maximum(flow, flow.T))
        sub.oracle("detailed balance: diag rho(v) P(v,v') == diag rho(v') P(v',v)", len(bad) == 0, case,
                   detail=None if len(bad) == 0 else {"v": int(bad[0][0]), "vp": int(bad[0][1]), "lhs": float(flow[bad[0][0], bad[0][1]]),
                                                      "rhs": float(flow[bad[0][1], bad[0][0]])}, sig="detailed-balance", theorem="C02_diagonal_sampled, C05_detailed_balance_purif")
        for kk in (1, 3):
            Pk = np.linalg.matrix_power(P, kk)
            sub.oracle(f"invariance: (diag rho / trace) P^{kk} == diag rho / trace", bool(np.all(np.abs(pi @ Pk - pi) <= 1e-9 + 1e-6 * pi)), case,
                       detail={"pi": pi.tolist(), "piPk": (pi @ Pk).tolist()}, sig=f"invariance-{kk}", theorem="C02_diagonal_sampled, C05_invariant_k_purif")
    for j, spec in enumerate(case["sampling"]):
        sc = dict(spec, kind="dens", n=n, h=h, a=a)
        c05.replay_body(c05.SubCtx(ctx, outer=case, prefix=f"sampling call {j}: ", sigprefix="sampling/", theorem="C02_diagonal_sampled (= C02_diagonal + C05_invariant_k_purif), C05_k_step_law_purif",
                                   countprefix="sampling:"), st, sc, am, inp=inp, ikey=f"start.{j}")


def _eval_state(ctx, st, case, am, ph, I, K=None):
    """everything the property names, evaluated on the state object `st` which is supposed to carry the parameters (am, ph)"""
    n, h, a = case["n"], case["h"], case["a"]
    d_alt, vec_pairs, sub = case["d_alt"], case["vec_pairs"], case["sub"]
    rows = qc.all_states(n)
    N = len(rows)
    auxrows = qc.all_states(a)
    C = len(auxrows)
    space_t, aux_t, gen_space, vrep, vtile, sub_t = I.space_t, I.aux_t, I.gen_space, I.vrep, I.vtile, I.sub_t
    K = K if K is not None else _Calls(qc.Flags(None))
    K.rec, K.vals = [], []

    # ------------------------------------------------ implementation: log-domain values
    nets = {"am": st.rbm_am, "ph": st.rbm_ph}
    E = {k: _np(r.effective_energy(space_t)) for k, r in nets.items()}
    Eaux = {k: _np(r.effective_energy(I.vrepC, I.auxtile)).reshape(N, C) for k, r in nets.items()}
    E1d = {k: np.array([float(r.effective_energy(I.row[i])) for i in (0, N - 1)]) for k, r in nets.items()}
    Eaux1d = {k: np.array([float(r.effective_energy(I.row[i], I.aux[x])) for (i, x) in ((0, C - 1), (N - 1, 0))]) for k, r in nets.items()}
    gam = {}
    for k, r in nets.items():
        for nm, eta in (("p", 1), ("m", -1)):
            gam[f"M_{k}_{nm}"] = _shape(_np(K.gamma(r, space_t, space_t, eta, True)), (N, N), "gamma(space, space, expand=<true>)")
            gam[f"S_{k}_{nm}"] = _shape(_np(K.gamma(r, sub_t, space_t, eta, True)), (len(sub), N), "gamma(sub, space, expand=<true>)")
            gam[f"P_{k}_{nm}"] = _shape(_np(K.gamma(r, vrep, vtile, eta, False)), (N * N,), "gamma(v, vp, expand=<false>)")
            # 1-D arguments: `expand` is irrelevant (default, or any object of either truth value)
            gam[f"V_{k}_{nm}"] = np.array([float(r.gamma(I.row[i], I.row[j], eta=K.eta(eta)) if q % 3 == 0 else K.gamma(r, I.row[i], I.row[j], eta, q % 3 == 1))
                                           for q, (i, j) in enumerate(vec_pairs)])
    piM = _shape(_np(K.pi(st, space_t, space_t, True)), (2, N, N), "pi(space, space, expand=<true>)")
    piS = _shape(_np(K.pi(st, sub_t, space_t, True)), (2, len(sub), N), "pi(sub, space, expand=<true>)")
    piP = _shape(_np(K.pi(st, vrep, vtile, False)), (2, N * N), "pi(v, vp, expand=<false>)")
    piV = np.array([_np(st.pi(I.row[i], I.row[j]) if q % 3 == 0 else K.pi(st, I.row[i], I.row[j], q % 3 == 1)).ravel()
                    for q, (i, j) in enumerate(vec_pairs)]).reshape(len(vec_pairs), 2)

    expo = gam["M_am_p"] + piM[0]
    finite = bool(np.all(np.isfinite(expo)) and np.all(np.isfinite(piM)))
    big = (not finite) or float(np.max(np.abs(expo))) > EXP_LIMIT or float(np.max(np.abs(E["am"]))) > EXP_LIMIT
    ctx.count("overflow_regime" if big else "exp_domain")
    # which parameter-level sufficient condition for the guard NZ covers this case (statistics only; audit item C02-1)
    Ul, dl = _A(am, "U", (a, n)), _A(am, "d", (a,))
    S = np.array([[r1[j] + r2[j] for j in range(n)] for r1 in rows for r2 in rows], dtype=float)     # sigma + tau in {0,1,2}^n
    xs = (S @ Ul.T + 2.0 * dl[None, :]) / 2.0
    ctx.count("guard NZ by C02_NZ_of_amp_off_hyperplanes (every x_k != 0)" if bool(np.all(xs != 0.0)) else "guard NZ: some x_k == 0 (hyperplane condition fails)")
    ctx.count("guard NZ by C02_NZ_of_phase_weights_small (sum|U_mu| < 2pi)" if bool(np.all(np.abs(_A(ph, "U", (a, n))).sum(1) < 2 * math.pi))
              else "guard NZ: sum|U_mu| >= 2pi (phase-weight condition fails)")
    if not finite:
        ctx.count("pi_nonfinite")

    # ------------------------------------------------ model
    model = None
    if ctx.driver is not None:
        req = {"n": n, "h": h, "a": a, "am": qc.pbits(am), "ph": qc.pbits(ph),
               "rows": bits(rows), "rows2": bits(rows), "prows": bits(_np(vrep)), "prows2": bits(_np(vtile)),
               "vrows": bits([rows[i] for (i, _) in vec_pairs]) if vec_pairs else [],
               "vrows2": bits([rows[j] for (_, j) in vec_pairs]) if vec_pairs else [],
               "auxrows": bits(auxrows)}
        model = ctx.driver.call("c02.eval", **req)
        req2 = dict(req, rows=bits([rows[i] for i in sub]), prows=[], prows2=[], vrows=[], vrows2=[], auxrows=[])
        model_sub = ctx.driver.call("c02.eval", **req2)
        mrow = lambda key: unbits([r[key] for r in model["rows"]])  # noqa: E731
        mM = lambda key: unbits(model["matrix"][key])  # noqa: E731
        mS = lambda key: unbits(model_sub["matrix"][key])  # noqa: E731
        mP = lambda key: unbits(model["paired"][key])  # noqa: E731
        mV = lambda key: unbits([r[key] for r in model["vec"]]) if vec_pairs else np.zeros(0)  # noqa: E731
        for k in ("am", "ph"):
            sc = float(np.max(np.abs(E[k]))) + 1
            ctx.point(f"effective_energy[{k}](v)", "aux", E[k], mrow(f"E_{k}"), case, scale=sc, sig=f"{k}/energy")
            ctx.point(f"effective_energy[{k}](v) 1-D", "aux", E1d[k], mrow(f"E_{k}")[[0, N - 1]], case, scale=sc, sig=f"{k}/energy-1d")
            mEaux = unbits([r[f"Eaux_{k}"] for r in model["rows"]]).reshape(N, C)
            sca = float(np.max(np.abs(Eaux[k]))) + 1
            ctx.point(f"effective_energy[{k}](v,a)", "aux", Eaux[k], mEaux, case, scale=sca, sig=f"{k}/energy-aux")
            ctx.point(f"effective_energy[{k}](v,a) 1-D", "aux", Eaux1d[k], [mEaux[0, C - 1], mEaux[N - 1, 0]], case, scale=sca, sig=f"{k}/energy-aux-1d")
            for nm in ("p", "m"):
                g = gam[f"M_{k}_{nm}"]
                sg = float(np.max(np.abs(g))) + 1
                ctx.point(f"gamma[{k},{nm}] expand=True", "aux", g, mM(f"gamma_{k}_{nm}"), case, scale=sg, sig=f"{k}/gamma-{nm}/matrix")
                ctx.point(f"gamma[{k},{nm}] expand=True rect", "aux", gam[f"S_{k}_{nm}"], mS(f"gamma_{k}_{nm}"), case, scale=sg, sig=f"{k}/gamma-{nm}/rect")
                ctx.point(f"gamma[{k},{nm}] expand=False", "aux", gam[f"P_{k}_{nm}"], mP(f"gamma_{k}_{nm}"), case, scale=sg, sig=f"{k}/gamma-{nm}/paired")
                ctx.point(f"gamma[{k},{nm}] 1-D", "aux", gam[f"V_{k}_{nm}"], mV(f"gamma_{k}_{nm}"), case, scale=sg, sig=f"{k}/gamma-{nm}/vec")
        with np.errstate(all="ignore"):
            spi = float(np.nanmax(np.abs(np.where(np.isfinite(piM), piM, 0.0)))) + 1
        # entries where some auxiliary unit has x_k = (U(v+v')/2 + d)_k > 700: the formula as written exponentiates x_k, e^x overflows and
        # atan2(inf * sin, 1 + inf * cos) returns a multiple of pi/4 (or nan) instead of the argument of 1 + e^{x+iy}.  Model and code agree on
        # that artefact only as long as the code keeps exactly this formula; the property (and the quantifier: magnitudes up to ~30) says
        # nothing about it and an overflow-free evaluation is as good.  Those entries (overflow probes at scale 100 / 300 only) are left out
        # of the auxiliary pi points; rho there is beyond the double range anyway and is compared in the log domain through -E only.
        Vn = np.asarray(rows, dtype=np.float64)
        al_ = Vn @ Ul.T + dl[None, :]
        xov = ((al_[:, None, :] + al_[None, :, :]) / 2.0).max(axis=-1) > 700.0                       # (N, N)
        if xov.any():
            ctx.count("pi points: entries with e^x overflow left out", int(xov.sum()))
        keep = {"M": ~xov, "S": ~xov[sub, :], "P": ~xov.ravel(), "V": np.array([not xov[i, j] for (i, j) in vec_pairs], dtype=bool)}
        msk = lambda arr, key: np.where(keep[key], np.asarray(arr, dtype=np.float64).reshape(keep[key].shape), 0.0)  # noqa: E731
        for part, idx in (("re", 0), ("im", 1)):
            ctx.point(f"pi_{part} expand=True", "aux", msk(piM[idx], "M"), msk(mM(f"pi_{part}"), "M"), case, scale=spi, sig=f"pi-{part}/matrix")
            ctx.point(f"pi_{part} expand=True rect", "aux", msk(piS[idx], "S"), msk(mS(f"pi_{part}"), "S"), case, scale=spi, sig=f"pi-{part}/rect")
            ctx.point(f"pi_{part} expand=False", "aux", msk(piP[idx], "P"), msk(mP(f"pi_{part}"), "P"), case, scale=spi, sig=f"pi-{part}/paired")
            ctx.point(f"pi_{part} 1-D", "aux", msk(piV[:, idx], "V") if vec_pairs else [], msk(mV(f"pi_{part}"), "V") if vec_pairs else [], case, scale=spi,
                      sig=f"pi-{part}/vec")

    if ctx.driver is not None and K.rec:
        # layout each function chooses for the object it was handed (batch arguments), against gammaForm / piForm / rhoForm
        want, seen = [], {}
        for (fn, d, vp_none, lay) in K.rec:
            key = (d["form"], d["value"], vp_none)
            if key not in seen:
                seen[key] = ctx.driver.call("c02.flagged", n=n, h=h, a=a, am=qc.pbits(am), ph=qc.pbits(ph), rows=[], rows2=None if vp_none else [],
                                            expand={"form": d["form"], "value": d["value"]}, values=False)
            f = seen[key][fn + "_form"]
            want.append([fn, d["form"], d["value"], vp_none, {"matrix": "matrix", "paired": "vector", "diag": "vector"}.get(f, f)])
        ctx.point("layout chosen for the object passed as `expand` (gamma / pi / rho on batches)", "property",
                  [[fn, d["form"], d["value"], vp_none, lay] for (fn, d, vp_none, lay) in K.rec], want, case, exact=True,
                  theorem="C02_expand_flag", sig="flag/layout")

    # ------------------------------------------------ oracle in the normalised (log) domain: works at every magnitude
    Ll, Lm = oracle_state(am, ph, n, h, a, rows)
    if finite:
        Cor, logdiag = oracle_corr(Ll, Lm)
        phs = gam["M_ph_m"] + piM[1]
        d = np.diag(expo)
        with np.errstate(all="ignore"):
            Cimpl = np.exp(expo - (d[:, None] + d[None, :]) / 2) * np.exp(1j * phs)
        okc = bool(np.all(np.abs(Cimpl - Cor) <= 1e-7))
        ctx.oracle("Gamma/Pi (log domain) == normalised partial trace", okc, case,
                   detail={"max_abs_diff": float(np.max(np.abs(Cimpl - Cor)))}, sig="logdomain/partial-trace", theorem="C02_rho_eq_partial_trace")
        ctx.oracle("-E_am == log Σ_aux exp(L_lam)", bool(np.all(np.abs(-E["am"] - logdiag) <= 1e-7 * (1 + np.abs(logdiag)))), case,
                   detail={"E": E["am"].tolist(), "logdiag": logdiag.tolist()}, sig="logdomain/energy-marginal", theorem="C02_probability_eq_aux_marginal")
        ctx.oracle("log-domain exponent diagonal == -E_am", bool(np.all(np.abs(d + E["am"]) <= 1e-7 * (1 + np.abs(d)))), case,
                   detail={"diag": d.tolist(), "E": E["am"].tolist()}, sig="logdomain/diagonal", theorem="C02_diagonal")
        ev = safe_eigvalsh((Cimpl + Cimpl.conj().T) / 2)
        ctx.oracle("normalised matrix Hermitian", bool(np.all(np.abs(Cimpl - Cimpl.conj().T) <= 1e-9)), case, sig="logdomain/hermitian", theorem="C02_hermitian")
        ctx.oracle("normalised matrix eigenvalues >= 0", bool(ev.min() >= -1e-9 * N), case, detail={"min_eig": float(ev.min())},
                   sig="logdomain/psd", theorem="C02_posSemidef")
    # E(v,a) is minus the log joint weight with the hidden units summed out
    for k, L in (("am", Ll), ("ph", Lm)):
        ctx.oracle(f"effective_energy[{k}](v,a) == -log Σ_h joint", bool(np.all(np.abs(-Eaux[k] - L) <= 1e-7 * (1 + np.abs(L)))), case,
                   detail={"max_abs_diff": float(np.max(np.abs(-Eaux[k] - L)))}, sig=f"{k}/energy-aux-oracle")
    if big:
        return

    # ------------------------------------------------ implementation: exp-domain values (the property's observables)
    R = _shape(_np(st.rho(space_t, space_t)), (2, N, N), "rho(space, space)")
    R0 = _shape(_np(st.rho(space_t)), (2, N, N), "rho(space)")
    # the same forms with `expand` given explicitly, as whatever object the case's flag stream yields (default-argument calls above)
    RT = _shape(_np(K.rho(st, space_t, space_t, True, "rho(space, space, expand=<true>)")), (2, N, N), "rho(space, space, expand=<true>)")
    R0T = _shape(_np(K.rho(st, space_t, None, True, "rho(space, expand=<true>)")), (2, N, N), "rho(space, expand=<true>)")
    RS = _shape(_np(K.rho(st, sub_t, space_t, True)), (2, len(sub), N), "rho(sub, space, expand=<true>)")
    RP = _shape(_np(K.rho(st, vrep, vtile, False, "rho(v, vp, expand=<false>)")), (2, N * N), "rho(v, vp, expand=<false>)")
    RV = np.array([_np(st.rho(I.row[i], I.row[j]) if q % 2 == 0 else K.rho(st, I.row[i], I.row[j], True)).ravel()
                   for q, (i, j) in enumerate(vec_pairs)]).reshape(len(vec_pairs), 2)
    RV2 = np.array([_np(K.rho(st, I.row[i], I.row[j], False)).ravel() for (i, j) in vec_pairs]).reshape(len(vec_pairs), 2)
    RD = _shape(_np(K.rho(st, space_t, None, False, "rho(space, expand=<false>)")), (2, N), "rho(space, expand=<false>)")
    RD1 = _np(K.rho(st, I.row[N - 1], None, False)).ravel()   # 1-D
    p1 = _np(st.probability(space_t, 1.0))
    Zt = st.normalization(gen_space)
    Z = float(Zt)
    if K.A.aseed is None:
        pZ = _np(st.probability(space_t, Z))
    else:   # the normalisation as the object callers have in hand: the 0-d tensor normalization() returned, a Python float, a numpy float
        zform = K.A.choice(["tensor", "float", "np.float64"])
        Zo = {"tensor": Zt, "float": Z, "np.float64": np.float64(Z)}[zform]
        ctx.count(f"argform/Z given as {zform}")
        pZ = _np(st.probability(space_t, Z=Zo) if K.A.coin(0.5) else st.probability(space_t, Zo))
    sc = float(np.max(p1))

    if model is not None:
        for nm, (ire, iim, mre, mim) in {
            "expand=True": (R[0], R[1], mM("rho_re"), mM("rho_im")),
            "vp=None": (R0[0], R0[1], mM("rho_re"), mM("rho_im")),
            "expand=<true object>": (RT[0], RT[1], mM("rho_re"), mM("rho_im")),
            "vp=None, expand=<true object>": (R0T[0], R0T[1], mM("rho_re"), mM("rho_im")),
            "expand=True rect": (RS[0], RS[1], mS("rho_re"), mS("rho_im")),
            "expand=False": (RP[0], RP[1], mP("rho_re"), mP("rho_im")),
            "1-D": (RV[:, 0], RV[:, 1], mV("rho_re"), mV("rho_im")),
            "1-D expand=False": (RV2[:, 0], RV2[:, 1], mV("rho_re"), mV("rho_im")),
        }.items():
            if len(np.ravel(mre)) == 0:
                continue
            a_re, a_im, b_re, b_im = _norm_pair(ire, iim, np.reshape(mre, np.shape(ire)), np.reshape(mim, np.shape(iim)))
            ctx.point(f"rho_re {nm}", "property", a_re, b_re, case, scale=1.0, theorem=THEOREMS["rho"], sig=f"rho/{nm}")
            ctx.point(f"rho_im {nm}", "property", a_im, b_im, case, scale=1.0, theorem=THEOREMS["rho"], sig=f"rho/{nm}")
        # the matrix the theorems are stated for: the model's rho over ITS OWN generated space (Density.rhoFull) against the
        # implementation's rho over the space returned by generate_hilbert_space()
        RG = _shape(_np(st.rho(I.gen_space_d, I.gen_space_d)), (2, N, N), "rho(gen_space, gen_space)")
        mfull = ctx.driver.call("c02.full", n=n, h=h, a=a, am=qc.pbits(am), ph=qc.pbits(ph))
        a_re, a_im, b_re, b_im = _norm_pair(RG[0], RG[1], unbits(mfull["rho_re"]), unbits(mfull["rho_im"]))
        ctx.point("rho_re generated space", "property", a_re, b_re, case, scale=1.0, theorem="C02_hermitian, C02_posSemidef, C02_trace", sig="rho/full")
        ctx.point("rho_im generated space", "property", a_im, b_im, case, scale=1.0, theorem="C02_hermitian, C02_posSemidef, C02_trace", sig="rho/full")
        ctx.point("rho(v, expand=False) re", "property", RD[0] / p1, mrow("diag_re") / p1, case, scale=1.0, theorem=THEOREMS["rho_diag"], sig="rho/diag")
        ctx.point("rho(v, expand=False) im", "property", RD[1], mrow("diag_im"), case, scale=sc, exact=False, theorem=THEOREMS["rho_diag"], sig="rho/diag")
        ctx.point("probability", "property", p1 / p1, mrow("prob1") / p1, case, scale=1.0, theorem=THEOREMS["probability"], sig="probability")
        ctx.point("normalization", "property", [Z], unbits([model["Z"]]), case, scale=sc, theorem=THEOREMS["normalization"], sig="normalization")
        ctx.point("probabilityZ", "property", pZ, mrow("probZ"), case, scale=1.0, theorem=THEOREMS["probability"], sig="probabilityZ")
        # `expand` as the OBJECT passed: the model evaluates Density.rhoFlagged on the flag descriptor (layout AND elements)
        for (name, d, v_t, vp_t, got) in K.vals:
            mf = ctx.driver.call("c02.flagged", n=n, h=h, a=a, am=qc.pbits(am), ph=qc.pbits(ph), rows=bits(_np(v_t)),
                                 rows2=None if vp_t is None else bits(_np(vp_t)), expand={"form": d["form"], "value": d["value"]}, values=True)
            sub_case = case
            lay = "matrix" if got.ndim == 3 else "vector"
            ctx.point(f"{name} given as {d['form']}: layout of the result", "property", lay, mf["layout"], sub_case, exact=True,
                      theorem="C02_expand_flag", sig="flag/rho-layout")
            if mf["layout"] == lay:
                a_re, a_im, b_re, b_im = _norm_pair(got[0], got[1], np.reshape(unbits(mf["re"]), got[0].shape), np.reshape(unbits(mf["im"]), got[1].shape))
                ctx.point(f"{name} given as {d['form']}: rho_re", "property", a_re, b_re, sub_case, scale=1.0,
                          theorem="C02_expand_flag, C02_expand_flag_partial_trace", sig="flag/rho")
                ctx.point(f"{name} given as {d['form']}: rho_im", "property", a_im, b_im, sub_case, scale=1.0,
                          theorem="C02_expand_flag, C02_expand_flag_partial_trace", sig="flag/rho")

    # ------------------------------------------------ property oracles on the implementation
    Rc = R[0] + 1j * R[1]
    dg = np.sqrt(np.abs(np.diag(Rc).real))
    bound = dg[:, None] * dg[None, :]                       # Cauchy–Schwarz scale of entry (i,j)
    tolM = 1e-9 * np.maximum(bound, 1e-300) + 1e-7 * np.abs(Rc)
    Ror = oracle_rho(Ll, Lm)
    diff = np.abs(Rc - Ror)
    k = int(np.argmax(diff - tolM))
    ctx.oracle("rho(space,space) == partial trace over aux of the purified state", bool(np.all(diff <= tolM)), case,
               detail={"entry": [k // N, k % N], "impl": [float(Rc.flat[k].real), float(Rc.flat[k].imag)],
                       "oracle": [float(Ror.flat[k].real), float(Ror.flat[k].imag)]}, sig="rho/partial-trace", theorem="C02_rho_eq_partial_trace")
    ctx.oracle("rho Hermitian", bool(np.all(np.abs(Rc - Rc.conj().T) <= tolM)), case,
               detail={"max": float(np.max(np.abs(Rc - Rc.conj().T)))}, sig="rho/hermitian", theorem="C02_hermitian")
    tr = float(np.trace(Rc).real)
    ev = safe_eigvalsh((Rc + Rc.conj().T) / 2)
    ctx.oracle("eigvalsh(rho) >= -1e-10*trace", bool(ev.min() >= -1e-10 * tr), case, detail={"min_eig": float(ev.min()), "trace": tr},
               sig="rho/psd", theorem="C02_posSemidef")
    tol1 = 1e-9 * sc + 1e-7 * np.abs(p1)
    ctx.oracle("diag rho == probability", bool(np.all(np.abs(np.diag(Rc).real - p1) <= tol1) and np.all(np.abs(np.diag(Rc).imag) <= tol1)), case,
               detail={"diag": np.diag(Rc).real.tolist(), "p": p1.tolist()}, sig="rho/diagonal", theorem="C02_diagonal")
    ctx.oracle("trace rho == normalization", abs(tr - Z) <= 1e-9 * sc * N + 1e-7 * abs(Z), case, detail={"trace": tr, "Z": Z},
               sig="rho/trace", theorem="C02_trace")
    ctx.oracle("Z == sum probability", abs(Z - float(p1.sum())) <= 1e-9 * sc * N + 1e-7 * abs(Z), case, detail={"Z": Z, "sum": float(p1.sum())},
               sig="norm-sum", theorem="C02_normalization")
    ctx.oracle("sum p/Z == 1", abs(float(pZ.sum()) - 1) <= 1e-7, case, detail={"sum": float(pZ.sum())}, sig="unit-trace", theorem="C02_unit_trace")
    ctx.oracle("rho(v, expand=False) == (probability, 0)", bool(np.all(np.abs(RD[0] - p1) <= tol1) and np.all(RD[1] == 0)
                                                                and abs(RD1[0] - p1[N - 1]) <= tol1[N - 1] and RD1[1] == 0), case,
               sig="rho/diag-form", theorem="C02_rhoDiag_eq_rho_diag")
    # call forms on the implementation itself
    Rp = (RP[0] + 1j * RP[1]).reshape(N, N)
    ctx.oracle("expand=False pairs == expand=True entries", bool(np.all(np.abs(Rp - Rc) <= tolM)), case, sig="rho/forms-paired", theorem="C02_call_forms")
    ctx.oracle("rho(v) with vp=None == rho(v, v)", bool(np.all(np.abs((R0[0] + 1j * R0[1]) - Rc) <= tolM)), case, sig="rho/forms-none", theorem="C02_call_forms")
    ctx.oracle("expand given as a true object (bool / int / numpy bool / 0-dim array / 0-dim tensor; keyword or positional) == the full matrix",
               bool(np.all(np.abs((RT[0] + 1j * RT[1]) - Rc) <= tolM) and np.all(np.abs((R0T[0] + 1j * R0T[1]) - Rc) <= tolM)), case,
               detail={"given_as": [d for d in K.fl.used[-12:]]}, sig="rho/forms-flag-object", theorem="C02_expand_flag")
    Rs = RS[0] + 1j * RS[1]
    ctx.oracle("rectangular expand=True == rows of the full matrix", bool(np.all(np.abs(Rs - Rc[sub, :]) <= tolM[sub, :])), case,
               sig="rho/forms-rect", theorem="C02_call_forms")
    okv = all(abs(complex(RV[q, 0], RV[q, 1]) - Rc[i, j]) <= tolM[i, j] and abs(complex(RV2[q, 0], RV2[q, 1]) - Rc[i, j]) <= tolM[i, j]
              for q, (i, j) in enumerate(vec_pairs))
    ctx.oracle("1-D form == expand=True entry", bool(okv), case, sig="rho/forms-vec", theorem="C02_call_forms")
    # the phase network's auxiliary bias is ignored
    st.rbm_ph.aux_bias.data = torch.tensor(d_alt, dtype=torch.double)
    R2 = _np(st.rho(space_t, space_t))
    ctx.oracle("rho independent of the phase aux bias", bool(np.all(np.abs((R2[0] + 1j * R2[1]) - Rc) <= tolM)), case,
               sig="rho/phase-aux-bias", theorem="C02_phase_aux_bias_irrelevant, C02_rho_indep_phase_aux_bias")
    st.rbm_ph.aux_bias.data = torch.tensor(ph["d"], dtype=torch.double)


# ------------------------------------------------------------------ the excluded point of the guard NZ
def nz_probe(ctx):
    """x = 0 and y = float nearest pi for aux unit 0 and the pair (v, vp) = (10, 00): 1 + e^{x+iy} ~ 1.2e-16 i.
    float code: log(sqrt(0)) = -inf  =>  rho = exp(-inf)*(cos, sin) = 0, the correct limit; the R-model (Real.log 0 = 0) is
    excluded there by the guard NZ.  Auxiliary probe: implementation vs Float model vs oracle; outcome recorded as a note."""
    n, h, a = 2, 1, 2
    am = {"W": [[0.3, -0.4]], "U": [[0.0, 0.0], [0.5, -0.25]], "b": [0.2, -0.1], "c": [0.15], "d": [0.0, 0.35]}
    ph = {"W": [[-0.2, 0.1]], "U": [[2 * math.pi, 0.0], [0.3, 0.2]], "b": [0.4, 0.3], "c": [-0.25], "d": [0.0, 0.0]}
    case = {"n": n, "h": h, "a": a, "scale": 1.0, "am": am, "ph": ph, "d_alt": [0.7, -0.2], "vec_pairs": [[2, 0], [0, 2]], "sub": [2],
            "tag": "nz-probe"}
    st = qc.make_density(n, h, a, am, ph)
    rows = qc.all_states(n)
    space_t = torch.tensor(rows, dtype=torch.double)
    pi_ = _np(st.pi(space_t, space_t))
    R = _np(st.rho(space_t, space_t))
    Rc = R[0] + 1j * R[1]
    Ll, Lm = oracle_state(am, ph, n, h, a, rows)
    Ror = oracle_rho(Ll, Lm)
    i, j = 2, 0  # v = (1,0), vp = (0,0)
    ctx.case({"probe": "nz"}, nontrivial=True)
    ctx.count("nz_probe")
    mval = None
    if ctx.driver is not None:
        m = ctx.driver.call("c02.eval", n=n, h=h, a=a, am=qc.pbits(am), ph=qc.pbits(ph), rows=bits(rows), rows2=bits(rows),
                            prows=[], prows2=[], vrows=[], vrows2=[], auxrows=[])
        mre, mim = unbits(m["matrix"]["rho_re"]), unbits(m["matrix"]["rho_im"])
        mpi = unbits(m["matrix"]["pi_re"])
        mval = [float(mre[i, j]), float(mim[i, j])]
        sc = float(np.max(np.abs(Rc)))
        ctx.point("nz-probe pi_re", "aux", pi_[0], mpi, case, scale=1.0, sig="nz-probe/pi")
        ctx.point("nz-probe rho_re", "aux", R[0], mre, case, scale=sc, sig="nz-probe/rho")
        ctx.point("nz-probe rho_im", "aux", R[1], mim, case, scale=sc, sig="nz-probe/rho")
    sc = float(np.max(np.abs(Rc)))
    ok = bool(np.all(np.abs(Rc - Ror) <= 1e-9 * sc + 1e-7 * np.abs(Ror)))
    ev = safe_eigvalsh((Rc + Rc.conj().T) / 2)
    ctx.oracle("nz-probe: rho == partial trace (limit value 0 at the excluded entry)", ok, case,
               detail={"impl": [float(Rc[i, j].real), float(Rc[i, j].imag)], "oracle": [float(Ror[i, j].real), float(Ror[i, j].imag)]},
               sig="nz-probe/partial-trace")
    ctx.oracle("nz-probe: eigenvalues >= 0", bool(ev.min() >= -1e-10 * float(np.trace(Rc).real)), case, sig="nz-probe/psd")
    ctx.note(f"nz-probe (x=0, y=fl(pi), pair (10,00)): impl pi_re={float(pi_[0][i, j])}, impl rho={[float(Rc[i, j].real), float(Rc[i, j].imag)]}, "
             f"Float model rho={mval}, brute-force partial trace={[float(Ror[i, j].real), float(Ror[i, j].imag)]} (|.|/scale={abs(Ror[i, j]) / sc:.2e}); "
             f"the float code returns the limit 0 via log 0 = -inf; the real-number model (Real.log 0 = 0) is excluded there by NZ")


# ------------------------------------------------------------------ malformed stream
def malformed(ctx):
    """expand=False with unequal batch sizes: torch broadcasting error unless one size is 1 (outcome class only)"""
    n, h, a = 2, 2, 2
    rng = ctx.rng
    am, ph = qc.rand_prbm_params(rng, n, h, a, 1.0), qc.rand_prbm_params(rng, n, h, a, 1.0)
    st = qc.make_density(n, h, a, am, ph)
    rows = qc.all_states(n)
    for (B, B2) in [(3, 2), (2, 3), (1, 4), (4, 1), (2, 2), (5, 4), (1, 1)]:
        v = torch.tensor([rows[i % 4] for i in range(B)], dtype=torch.double)
        vp = torch.tensor([rows[(i + 1) % 4] for i in range(B2)], dtype=torch.double)
        case = {"tag": "malformed", "B": B, "B2": B2}
        try:
            r = st.rho(v, vp, expand=False)
            impl = {"size": int(r.shape[1])} if r.dim() == 2 and r.shape[0] == 2 else {"shape": list(r.shape)}
        except Exception as e:  # noqa: BLE001
            impl = {"error": True}   # the exception TYPE on malformed input is not constrained by the property
        ctx.case(case, nontrivial=False)
        ctx.count("malformed:" + ("error" if "error" in impl else "ok"))
        if ctx.driver is not None:
            model = ctx.driver.call("c02.paired_batch", B=B, B2=B2)
            if "error" in model:
                model = {"error": True}
            # unequal batch sizes with expand=False are outside the quantifier (third audit B-15): outcome class / result size recorded only
            ctx.info("rho(v, vp, expand=False) batch sizes", impl, model) if B != B2 else \
                ctx.point("rho(v, vp, expand=False) batch sizes", "aux", impl, model, case, exact=True, sig="malformed/paired-batch")


# ------------------------------------------------------------------ call shapes outside the property's call forms (audit items C02-2, C02-3)
def callshape_probe(ctx):
    """mixed ranks (one argument 1-D, the other a batch) and foreign argument dtypes (float32 / int64): OUTSIDE the quantifier
    ("expand=True / expand=False / 1-D call forms", arguments from generate_hilbert_space = double). Outcome class / result shape against
    Density.rhoOutcome, the returned elements against Density.rhoVecBatch / rhoBatchVec and against the implementation's own full matrix.
    Auxiliary level only: a change here means the model no longer describes the code, not that the property is violated."""
    rng = ctx.rng
    n, h, a = 2, 2, 2
    am, ph = qc.rand_prbm_params(rng, n, h, a, 1.0), qc.rand_prbm_params(rng, n, h, a, 1.0)
    st = qc.make_density(n, h, a, am, ph)
    rows = qc.all_states(n)
    N = len(rows)
    space_t = torch.tensor(rows, dtype=torch.double)
    full = _np(st.rho(space_t, space_t))
    k = rng.randrange(N)
    B = 3
    sel = [rng.randrange(N) for _ in range(B)]
    dts = {"double": torch.double, "float32": torch.float32, "int64": torch.int64}
    mixed = None
    if ctx.driver is not None:
        mixed = ctx.driver.call("c02.mixed", n=n, h=h, a=a, am=qc.pbits(am), ph=qc.pbits(ph), v=bits(rows[k]), rows=bits([rows[i] for i in sel]))
    for dname, dt in dts.items():
        for vr in ("vec", B):
            for vpr in ("none", "vec", B):
                for expand in (True, False):
                    case = {"tag": "callshape", "v": vr, "vp": vpr, "expand": expand, "dtype": dname}
                    v = (space_t[k] if vr == "vec" else space_t[sel]).to(dt)
                    vp = None if vpr == "none" else (space_t[k] if vpr == "vec" else space_t[sel]).to(dt)
                    v0 = v.clone()
                    try:
                        r = st.rho(v, vp, expand=expand)
                        impl = {"shape": list(r.shape[1:])} if r.shape[0] == 2 else {"badshape": list(r.shape)}
                    except Exception as e:  # noqa: BLE001
                        r, impl = None, {"error": type(e).__name__}
                    ctx.case(case, nontrivial=False)
                    ctx.count("callshape:" + ("error" if "error" in impl else "ok"))
                    if ctx.driver is not None:  # informational: whether / what the code raises and the exact result shape are not constrained here
                        model = ctx.driver.call("c02.rho_outcome", v=vr, vp=vpr, expand=expand, double=(dname == "double"))
                        ctx.count("callshape: outcome/shape " + ("as modelled" if impl == model or ("error" in impl and "error" in model)
                                                                 else "differs from the model (informational)"))
                    if r is None:
                        continue
                    ctx.info("argument unmodified (callshape)", bool(torch.equal(v, v0)), True)   # C02 does not state it: recorded only
                    r = _np(r)
                    # elements: against the implementation's own full matrix (row/column selection) and against the model
                    vi = [k] if vr == "vec" else sel
                    wi = vi if vpr == "none" else ([k] if vpr == "vec" else sel)
                    if vpr == "none" and not expand:
                        want = np.stack([np.real(np.diagonal(full[0]))[vi], np.zeros(len(vi))])
                    elif vr == "vec" and vpr == "vec":
                        want = full[:, k, k]
                    elif vr != "vec" and vpr != "vec" and wi is not None and expand:
                        want = full[:, vi][:, :, wi]
                    elif vr != "vec" and vpr == "vec":
                        want = full[:, vi, k].reshape(2, B, 1) if expand else full[:, vi, k]
                    elif vr == "vec":
                        want = full[:, k, wi]
                    else:
                        want = np.stack([full[c][vi, wi] for c in (0, 1)])
                    sc = float(np.max(np.abs(full)))
                    if r.size != np.asarray(want).size:  # another result layout: not constrained outside the property's call forms
                        ctx.count("callshape: result layout differs from the model (informational)")
                        continue
                    inq = dname == "double" and (vpr == "none" or (vr == "vec") == (vpr == "vec"))   # both 1-D resp. both batches, or vp=None
                    if inq:
                        ctx.point("rho in a call form of the quantifier == the matching elements of rho(space, space)", "aux", r.ravel(),
                                  np.asarray(want).ravel(), case, scale=sc, sig="callshape/elements")
                    else:   # mixed ranks / foreign dtypes are outside the quantifier (third audit B-15): recorded only
                        w_ = np.asarray(want).ravel()
                        ctx.info("rho in a mixed-rank / foreign-dtype form == the matching elements of rho(space, space)",
                                 bool(np.allclose(r.ravel(), w_, rtol=1e-6, atol=1e-9 * sc)), True)
                    if mixed is not None and dname == "double" and {str(vr), str(vpr)} == {"vec", str(B)}:
                        key = "vec_batch" if vr == "vec" else "batch_vec"
                        mv = np.r_[unbits(mixed[key + "_re"]), unbits(mixed[key + "_im"])]
                        ctx.info("rho mixed-rank elements vs Density.rhoVecBatch / rhoBatchVec (form outside the quantifier)",
                                 bool(r.size == mv.size and np.allclose(r.ravel(), mv, rtol=1e-6, atol=1e-9 * sc)), True)


# ------------------------------------------------------------------ call forms as written (extension round 2)
CALLFORM_THEOREMS = {"single": "C02_call_forms_single", "matrix": "C02_call_forms_matrix", "paired": "C02_call_forms_paired",
                     "mixed": "C02_call_forms_mixed / C02_call_forms_outcome", "paired-broadcast": "C02_call_forms_paired (pairedBatch) / C02_call_forms_outcome"}


def callform_class(vlead, vplead, expand):
    """which theorem / level a rank combination belongs to: the property's quantifier names "expand=True / expand=False / 1-D call forms"
    (both arguments batches resp. both 1-D); mixed ranks and unequal batch sizes with expand=False are outside it (info: recorded, never judged)"""
    w = vlead if vplead is None else vplead
    if not vlead and not w:
        return "single", "property"
    if vlead and w:
        if expand:
            return "matrix", "property"
        return ("paired", "property") if vlead == w else ("paired-broadcast", "info")
    return "mixed", "info"   # third audit B-15: outside the quantifier -> accepted / refused, shape AND entries are recorded only (ctx.info)


def callform_case(ctx, case):
    """rho / pi / gamma of the REAL state on tensor arguments of one rank combination against the transcription of the code
    (Density.rhoCall / piCall / PRBM.gammaCall through op c02.callform): accepted-or-refused, result shape, entries."""
    n, h, a, am, ph, expand = case["n"], case["h"], case["a"], case["am"], case["ph"], case["expand"]
    ctx.current_case = case
    st = qc.make_density(n, h, a, am, ph)
    v = torch.tensor(case["v"]["rows"], dtype=torch.double).reshape(*case["v"]["lead"], n)
    vp = None if case["vp"] is None else torch.tensor(case["vp"]["rows"], dtype=torch.double).reshape(*case["vp"]["lead"], n)
    cls, level = callform_class(case["v"]["lead"], None if vp is None else case["vp"]["lead"], expand)
    thm = CALLFORM_THEOREMS[cls]
    ctx.case(case, nontrivial=all(any(x != 0 for x in am[k]) for k in ("b", "c", "d")),
             sample={"callform": cls, "v": case["v"]["lead"], "vp": None if vp is None else case["vp"]["lead"], "expand": expand})
    ctx.count(f"callform/{cls}/expand={expand}" + ("/vp=None" if vp is None else ""))
    if vp is not None and list(v.shape) == list(vp.shape):
        ctx.count("callform: v != vp" if not torch.equal(v, vp) else "callform: v == vp")
    calls = [("rho", "pair", lambda: st.rho(v, vp, expand=expand))]
    if vp is not None:
        calls += [("pi", "pair", lambda: st.pi(v, vp, expand=expand)),
                  ("gamma_am_p", "scalar", lambda: st.rbm_am.gamma(v, vp, eta=1, expand=expand)),
                  ("gamma_ph_m", "scalar", lambda: st.rbm_ph.gamma(v, vp, eta=-1, expand=expand))]
    v0 = v.clone()
    for fn, entry, f in calls:
        impl = cs.impl_result(f, entry)
        ctx.count(f"callform/{fn}: " + ("refused" if impl["refused"] else "accepted"))
        if level == "property" and fn == "rho":   # rho is what the property names; gamma / pi are intermediates (their refusal is recorded by cs.compare)
            ctx.oracle("call form of the quantifier accepted", not impl["refused"], {**case, "fn": fn}, detail=impl.get("exc"),
                       sig=f"callform/{fn}/{cls}/accepted", theorem=thm)
        if ctx.driver is not None:
            req = {"fn": fn, "n": n, "h": h, "a": a, "am": qc.pbits(am), "ph": qc.pbits(ph), "v": cs.arg(v), "expand": bool(expand),
                   "vp": None if vp is None else cs.arg(vp)}
            model = cs.model_result(ctx.driver.call("c02.callform", **req))
            sc = float(np.max(np.abs(impl["data"]))) + 1e-300 if not impl["refused"] and impl["data"].size else 1.0
            # pi alone is not a call form the property names; gamma / pi in the quantifier's forms localise (aux), rho carries the property
            cs.compare(ctx, f"{fn} ({cls} form, expand={expand})", level if (fn == "rho" or level == "info") else "aux", impl, model, {**case, "fn": fn}, thm,
                       f"callform/{fn}/{cls}", scale=sc)
    ctx.info("argument unmodified (call forms)", bool(torch.equal(v, v0)), True)   # C02 does not state it (third audit B-18): recorded only
    if cls == "single" and vp is not None:
        # the single-element form against the SAME pair as one entry of the implementation's own batched forms (independent of the model)
        V, Vp = v.unsqueeze(0), vp.unsqueeze(0)
        for fn, f1, fB in (("rho", lambda: st.rho(v, vp, expand=expand), lambda: st.rho(V, Vp, expand=True)),
                           ("gamma_am_p", lambda: st.rbm_am.gamma(v, vp, eta=1, expand=expand), lambda: st.rbm_am.gamma(V, Vp, eta=1, expand=True)),
                           ("gamma_ph_m", lambda: st.rbm_ph.gamma(v, vp, eta=-1, expand=expand), lambda: st.rbm_ph.gamma(V, Vp, eta=-1, expand=False))):
            x1, xB = _np(f1()).ravel(), _np(fB()).ravel()
            ctx.oracle("single-element form == the same pair in a batched form (v != v' included)",
                       bool(x1.shape == xB.shape and np.all(np.abs(x1 - xB) <= 1e-9 * (np.abs(xB) + 1e-300) + 1e-12)), {**case, "fn": fn},
                       detail={"single": x1.tolist(), "batched": xB.tolist()}, sig=f"callform/{fn}/single-vs-batched", theorem="C02_call_forms_single")


def gen_callforms(ctx, thorough):
    rng = ctx.rng
    for _ in range(8 if thorough else 3):
        n, h, a = rng.choice([1, 2, 3]), rng.choice([1, 2, 3]), rng.choice([1, 2, 3])
        scale = rng.choice([0.1, 1.0, 3.0])
        am = qc.rand_prbm_params(rng, n, h, a, scale)
        ph = qc.rand_prbm_params(rng, n, h, a, min(scale, 1.0), d_zero=rng.random() < 0.5)
        B = rng.choice([2, 3])
        for vlead in ([], [B], [1]):
            for vplead in (None, [], [B], [1], [5 - B]):
                for expand in (True, False):
                    v = cs.rand_tensor(rng, vlead, n)
                    vp = None if vplead is None else cs.rand_tensor(rng, vplead, n)
                    if vp is not None and n > 1 and vlead == vplead and torch.equal(v, vp):
                        vp = 1.0 - vp     # v != vp: the two arguments must be told apart
                    yield {"tag": "callform", "n": n, "h": h, "a": a, "scale": scale, "am": am, "ph": ph, "expand": expand,
                           "v": {"lead": vlead, "rows": cs.rows_of(v)}, "vp": None if vp is None else {"lead": vplead, "rows": cs.rows_of(vp)}}


# ------------------------------------------------------------------ generation

def safe_eigvalsh(M):
    """eigenvalues of a Hermitian matrix; a matrix with non-finite entries (or one numpy cannot diagonalise) counts as
    'not positive semidefinite' instead of crashing the harness"""
    try:
        return np.linalg.eigvalsh(M) if np.all(np.isfinite(M)) else np.array([-np.inf])
    except np.linalg.LinAlgError:
        return np.array([-np.inf])


def make_case(rng, n, h, a, scale, d_zero, n_vec, tag="gen"):
    am = qc.rand_prbm_params(rng, n, h, a, scale)
    ph = qc.rand_prbm_params(rng, n, h, a, scale, d_zero=d_zero)
    N = 2 ** n
    d_alt = [rng.gauss(0.0, 1.0) * max(scale, 1.0) for _ in range(a)]
    pairs = [[0, N - 1], [N - 1, 0], [N // 2, N // 2]] + [[rng.randrange(N), rng.randrange(N)] for _ in range(n_vec)]
    sub = [rng.randrange(N) for _ in range(rng.randrange(1, N + 2))]
    if len(sub) == N:
        sub = sub[:-1] if N > 1 else sub + [0]
    return {"n": n, "h": h, "a": a, "scale": scale, "am": am, "ph": ph, "d_alt": d_alt, "vec_pairs": pairs, "sub": sub, "tag": tag,
            "fseed": rng.randrange(2 ** 31), "gpuf": qc.flag_form(rng, plain=0.4), "aseed": af.draw_aseed(rng)}


def sampling_specs(rng, n):
    """scripted sampling calls of one case: k = 0..3 from every basis state as one batch (n <= 3; else a random batch with repeats), alternating
    overwrite / api; a single-vector start; no initial state; a chain continued across two calls"""
    allst = qc.all_states(n)
    batch = allst + [allst[rng.randrange(len(allst))]] if n <= 3 else [allst[rng.randrange(len(allst))] for _ in range(5)] + [allst[0], allst[-1]]

    def spec(**kw):
        c = {"vector": False, "overwrite": False, "dtype": "double", "mode": rng.choice(["faithful", "coin"]), "api": "sample",
             "dseed": rng.randrange(2 ** 31), "k2": None, "overwrite2": False}
        c.update(kw)
        c["B"] = kw.get("B", len(c["start"]) if c["start"] is not None else 1)
        c["owf"], c["owf2"] = qc.flag_form(rng), qc.flag_form(rng)   # the objects handed as `overwrite` (c05.run_call)
        c["aseed"] = af.draw_aseed(rng)                               # the objects handed as `k` / `num_samples` (c05.run_call)
        return c

    out = [spec(k=k, start=batch, overwrite=bool((k + rng.randrange(2)) % 2), api=rng.choice(["sample", "gibbs_steps"])) for k in range(4)]
    out.append(spec(k=rng.randrange(1, 4), start=[allst[rng.randrange(len(allst))]], vector=True, overwrite=rng.random() < 0.5))
    out.append(spec(k=rng.choice([0, 2, 3]), start=None, B=rng.randrange(1, 5)))
    out.append(spec(k=rng.randrange(0, 3), start=batch[:4], overwrite=rng.random() < 0.5, k2=rng.randrange(1, 3), overwrite2=rng.random() < 0.5))
    return out


def add_history(rng, case, nwrites, first_mode):
    """`nwrites` complete re-parametrisations of the same state object (modes of c05.WRITE_MODES), scales chosen independently"""
    n, h, a = case["n"], case["h"], case["a"]
    writes = []
    for q in range(nwrites):
        sc = rng.choice([0.1, 1.0, 3.0, 10.0])
        writes.append({"mode": first_mode if q == 0 else rng.choice(c05.WRITE_MODES), "scale": sc,
                       "am": qc.rand_prbm_params(rng, n, h, a, sc), "ph": qc.rand_prbm_params(rng, n, h, a, sc, d_zero=rng.random() < 0.5)})
    case["writes"] = writes
    return case


def gen_cases(ctx, thorough):
    archs = [(n, h, a) for n in range(1, 5) for h in range(1, 5) for a in range(1, 5)]
    if not thorough:
        ctx.rng.shuffle(archs)
        archs = sorted(set(archs[:10] + [(2, 3, 1), (3, 1, 2), (4, 2, 3)]))
    idx = hidx = 0
    for (n, h, a) in archs:
        if thorough:
            plan = [(s, dz) for s in qc.SCALES for dz in (True, False)]
        else:
            s1, s2 = ctx.rng.choice(qc.SCALES[1:4]), ctx.rng.choice(qc.SCALES)
            plan = [(s1, False), (s1, True), (s2, ctx.rng.random() < 0.5)]
        for q, (scale, dz) in enumerate(plan):
            case = make_case(ctx.rng, n, h, a, scale, dz, 12 if thorough else 3)
            case["sampling"] = sampling_specs(ctx.rng, n)
            # history dimension: quick: two of the three cases of an architecture; thorough: every second case; the first write mode cycles
            if (q < 2) if not thorough else (idx % 2 == 0):
                add_history(ctx.rng, case, 2 if hidx % 5 == 4 else 1, c05.WRITE_MODES[hidx % len(c05.WRITE_MODES)])
                hidx += 1
            # alternation probe (call / overwrite everything / same call, per observable) against a second parameter set of moderate scale
            sc = ctx.rng.choice([0.1, 1.0, 3.0])
            case["alt"] = {"off": idx, "scale": sc, "am": qc.rand_prbm_params(ctx.rng, n, h, a, sc),
                           "ph": qc.rand_prbm_params(ctx.rng, n, h, a, sc, d_zero=ctx.rng.random() < 0.3)}
            idx += 1
            yield case
    # saturated single units: O(1) parameters except individual hidden / auxiliary biases of +-(22..34) in either network
    # (the softplus / sigmoid / log-sum paths must stay accurate where exp(-x) falls below the float64 epsilon)
    for k in range(16 if thorough else 3):
        n, h, a = ctx.rng.choice([(2, 2, 2), (3, 2, 1), (2, 3, 2), (1, 1, 1)])
        case = make_case(ctx.rng, n, h, a, 0.5, k % 2 == 0, 6 if thorough else 3, tag="saturated-unit")
        for net in ("am", "ph"):
            for key in ("c", "d"):
                if net == "ph" and key == "d":
                    continue
                vec = case[net][key]
                j = ctx.rng.randrange(len(vec))
                if ctx.rng.random() < 0.75:
                    vec[j] = ctx.rng.choice([1.0, 1.0, -1.0]) * ctx.rng.uniform(22.0, 34.0)
        case["sampling"] = []
        yield case
    # beyond the exp domain (|exponent| > 600, partly beyond float64 range inside pi): log-domain points only
    for k in range(12 if thorough else 2):
        yield make_case(ctx.rng, 3, 4, 4, 100.0 if k % 2 == 0 else 300.0, k % 4 >= 2, 3, tag="overflow-probe")


def run(ctx):
    ctx.rule = RULE
    for case in gen_cases(ctx, ctx.tier == "thorough"):
        one_case(ctx, case)
    nz_probe(ctx)
    malformed(ctx)
    callshape_probe(ctx)
    for case in gen_callforms(ctx, ctx.tier == "thorough"):
        callform_case(ctx, case)


def search(ctx):
    """larger oracle-only run used when a proof obligation / auxiliary correspondence is broken"""
    drv, ctx.driver = ctx.driver, None
    try:
        for rep in range(2):
            for case in gen_cases(ctx, True):
                one_case(ctx, case)
    finally:
        ctx.driver = drv


def replay(ctx, case):
    if case.get("tag") == "nz-probe" or case.get("probe") == "nz":
        nz_probe(ctx)
    elif case.get("tag") == "malformed":
        malformed(ctx)
    elif case.get("tag") == "callshape":
        callshape_probe(ctx)
    elif case.get("tag") == "callform":
        callform_case(ctx, case)
    else:
        one_case(ctx, case)
