"""C18 — early stopping: real `fit` runs on a tiny model with scripted monitored values; the observed stopping
epoch / last_epoch / exception kind is compared exactly with the executable model (QV.Model.EarlyStop via
`c18.fit`, `c18.new`) and with an independent reference decision procedure (the documented rule)."""
import math
import warnings

import numpy as np

from . import qc
from .common import f2b
from .qc import torch

FILES = [
    "qucumber/callbacks/early_stopping.py",
    "qucumber/callbacks/variance_based_early_stopping.py",
    "qucumber/callbacks/metric_evaluator.py",
    "qucumber/callbacks/observable_evaluator.py",
]
REQUIRED_THEOREMS = ["C18_first_stop", "C18_never_self", "C18_needs_history", "C18_variance_refused",
                     "C18_unknown_criterion", "C18_deprecated_eq", "C18_degenerate_no_stop", "C18_tolerance_infinite"]
EXTRA_TRUSTED = [
    "C18: the monitored values are scripted functions of the epoch; float64 sub/div/abs/sqrt and `<` of Lean's Float are IEEE, "
    "as are Python's and numpy's, so decisions are compared exactly",
    "C18: a quotient by zero / sqrt of a negative is the model's explicit extended value `none` (inf or nan in the code: below no "
    "tolerance); the code reaches it through IEEE arithmetic (np.divide after the F8 fix) — agreement is checked at Float, incl. nan/inf "
    "monitored values, which have no counterpart over the reals",
]
# ZeroDivisionError out of fit for criterion='relative', Python-float (or int) values and a reference value exactly 0: the behaviour
# BEFORE the F8 fix (np.divide in _relative_change). The property forbids it (C18_first_stop: the run does not raise;
# C18_degenerate_no_stop); reported under this stable signature.
SIG_F8 = "EarlyStopping/relative/pyfloat/ref==0"
RULE = ("case = (criterion, evaluator class, patience 1..5, evaluator period 1..3, stopper period 1..3, list order, tolerance in "
        "{0,1e-3,1,inf}, starting epoch, number of epochs, scripted value sequence [monotone | oscillating | constant | zeros | plateau | "
        "nonfinite (nan, +-inf, huge)] with Python-float / numpy-float / mixed / Python-int / 0-dim-tensor kinds, variances for the variance "
        "criterion (incl. 0, negative, nan, inf), optional evaluator-only pre-run); "
        "non-trivial iff at least one comparison took place (some checked epoch had more than `patience` evaluations); distinct by hash")


# ---------------------------------------------------------------- scripted sequences
def make_seq(rng, family, n):
    if family == "monotone":
        a, r = rng.choice([1.0, 3.0, -2.0]), rng.choice([0.5, 0.9, 0.1])
        return [a * (1 + r ** k) for k in range(n)]
    if family == "oscillating":
        a, d = rng.choice([1.0, 0.5]), rng.choice([1.0, 0.25, 1e-4])
        return [a + d * (-1) ** k * (0.5 ** (k // 3)) for k in range(n)]
    if family == "constant":
        c = rng.choice([2.5, -1.0, 1e-9])
        return [c] * n
    if family == "zeros":
        base = [rng.choice([0.0, 0.0, 1.0, -0.5, 2.0, -0.0]) for _ in range(n)]
        return base
    if family == "nonfinite":
        # diverged training: nan / +-inf / huge values among ordinary ones
        pool = [float("nan"), float("inf"), float("-inf"), 1e308, -1e308, 0.0, 1.0, 1.0, 2.5, 2.5]
        return [rng.choice(pool) for _ in range(n)]
    # plateau: changes, then flat, then changes again
    out, v = [], 4.0
    for k in range(n):
        if k % 7 in (0, 1, 2):
            v = v * 0.5 + 0.1
        out.append(v)
    return out


def make_kinds(rng, mode, n):
    if mode in ("py", "np", "int", "t0"):
        return [mode] * n
    return [rng.choice(["py", "np"]) for _ in range(n)]


def as_kind(kind, x):
    """the Python object the scripted metric returns: float | numpy.float64 | int (integral finite values only) | 0-dim double tensor"""
    if kind == "np":
        return np.float64(x)
    if kind == "t0":
        return torch.tensor(float(x), dtype=torch.double)
    if kind == "int" and math.isfinite(x) and float(x).is_integer() and abs(x) < 2 ** 53:
        return int(x)
    return float(x)


def model_kind(kind):
    """the model's two arithmetic kinds: Python scalars (float, int) vs array-library scalars (numpy.float64, 0-dim tensor)"""
    return "py" if kind in ("py", "int") else "np"


# ---------------------------------------------------------------- reference decision procedure (the documented rule)
def spec_deviation(criterion, a, b, var):
    """the documented deviation between reference a and current b, or None where it is undefined (zero reference /
    non-positive or nan variance). Plain Python floats, explicit tests — no numpy."""
    if criterion == "absolute":
        return abs(a - b)
    if criterion == "relative":
        if a == 0:
            return None
        return abs(a - b) / abs(a)
    if not var > 0:             # 0, negative, nan
        return None
    return abs(a - b) / math.sqrt(var)


def reference(case):
    """returns (stop_epoch | None, fired epochs, compared?, degenerate epochs, f8_epoch) by the documented rule:
    at a checked epoch with evaluations M_0..M_t: stop iff t >= p and dev(M_{t-p}, M_t) is defined and < tol.
    `degenerate`: checked epochs (up to the stop) whose comparison was undefined — the stopper must neither stop nor raise there;
    `f8_epoch`: the first of them with criterion relative and Python-scalar operands (where the code BEFORE the F8 fix raised)."""
    p, pe, ps, tol = case["patience"], case["pe"], case["ps"], case["tol"]
    hist = []
    for e, w in case["pre"]:
        if e % pe == 0:
            hist.append(w)
    fired, compared, degenerate, f8_epoch = [], False, [], None
    for e, w in case["cands"]:
        fired.append(e)
        if case["eval_first"] and e % pe == 0:
            hist.append(w)
        if e % ps == 0:
            t = len(hist) - 1
            if t >= p:
                compared = True
                a = float(case["vals"][hist[t - p]])
                b = float(case["vals"][hist[t]])
                dev = spec_deviation(case["criterion"], a, b, float(case["vars"][hist[t - p]]))
                if dev is None:
                    degenerate.append(e)
                    if f8_epoch is None and case["criterion"] == "relative" and \
                            model_kind(case["kinds"][hist[t - p]]) == "py" and model_kind(case["kinds"][hist[t]]) == "py":
                        f8_epoch = e
                elif dev < tol:
                    return e, fired, compared, degenerate, f8_epoch
        if (not case["eval_first"]) and e % pe == 0:
            hist.append(w)
    return None, fired, compared, degenerate, f8_epoch


# ---------------------------------------------------------------- the real run
class EpochRecorder(qc.qucumber.callbacks.CallbackBase):
    def __init__(self, table):
        self.table = table      # epoch -> world
        self.cur = None
        self.fired = []

    def on_epoch_end(self, st, ep):
        self.cur = self.table[ep]

    def mark(self, ep):
        self.fired.append(ep)


class Tail(qc.qucumber.callbacks.CallbackBase):
    """last in the list: records that the epoch-end dispatch completed"""

    def __init__(self, rec):
        self.rec = rec

    def on_epoch_end(self, st, ep):
        self.rec.mark(ep)


def build_stopper(case, evaluator):
    from qucumber.callbacks import EarlyStopping, VarianceBasedEarlyStopping

    if case.get("deprecated"):
        return VarianceBasedEarlyStopping(case["ps"], case["tol"], case["patience_arg"], evaluator, case["name"],
                                          variance_name=case.get("variance_name"))
    return EarlyStopping(case["ps"], case["tol"], case["patience_arg"], evaluator, case["name"], criterion=case["criterion_str"])


def run_impl(case):
    from qucumber.callbacks import MetricEvaluator, ObservableEvaluator
    from qucumber.observables import SigmaZ

    torch.manual_seed(0)
    st = qc.PositiveWaveFunction(2, 2, gpu=False)
    data = torch.tensor([[0, 1], [1, 1], [1, 0], [0, 0]], dtype=torch.double)
    table = {e: w for e, w in case["pre"] + case["cands"]}
    rec = EpochRecorder(table)
    vals = [as_kind(k, x) for k, x in zip(case["kinds"], case["vals"])]
    vars_ = [as_kind(k, x) for k, x in zip(case["vkinds"], case["vars"])] if case["ek"] == "observable" else None
    track = case.get("tracked_name", case["name"])
    if case["ek"] == "metric":
        ev = MetricEvaluator(case["pe"], {track: lambda nn_state: vals[rec.cur]})
    elif case["ek"] == "observable":
        obs = SigmaZ()
        obs.name = track
        ev = ObservableEvaluator(case["pe"], [obs], num_samples=2)
        ev.system.statistics = lambda nn_state, **kw: {track: {"mean": vals[rec.cur], "variance": vars_[rec.cur],
                                                                "std_error": 0.0, "num_samples": 1}}
    else:
        ev = object()
    res = {}
    try:
        with warnings.catch_warnings():
            warnings.simplefilter("ignore")
            stopper = build_stopper(case, ev)
    except Exception as e:  # noqa: BLE001
        return {"error": type(e).__name__, "where": "constructor"}
    res["ctor"] = {"criterion": stopper.criterion, "patience": stopper.patience, "period": stopper.period}
    tail = Tail(rec)
    with warnings.catch_warnings():        # numpy's floating-point warnings are left at their defaults (a warning, not an error)
        warnings.simplefilter("ignore")
        try:
            if case["pre"]:
                st.fit(data, epochs=case["pre"][-1][0], starting_epoch=case["pre"][0][0], pos_batch_size=4, k=1, lr=0.01,
                       callbacks=[rec, ev, tail])
                rec.fired = []
            cbl = [rec, ev, stopper, tail] if case["eval_first"] else [rec, stopper, ev, tail]
            if case["cands"]:
                st.fit(data, epochs=case["cands"][-1][0], starting_epoch=case["cands"][0][0], pos_batch_size=4, k=1, lr=0.01, callbacks=cbl)
        except Exception as e:  # noqa: BLE001
            return {"error": type(e).__name__, "where": "fit", "fired_before": list(rec.fired), "ctor": res["ctor"]}
    res.update({"stop": bool(st.stop_training), "last_epoch": stopper.last_epoch, "fired": list(rec.fired),
                "len": len(ev), "epochs": [int(x) for x in ev.epochs]})
    return res


def model_args(case):
    args = dict(ps=case["ps"], tol=f2b(case["tol"]), ek=case["ek"], name=case["name"], pe=case["pe"], eval_first=case["eval_first"],
                pre=case["pre"], cands=case["cands"], vals=[[model_kind(k), f2b(x)] for k, x in zip(case["kinds"], case["vals"])],
                deprecated=bool(case.get("deprecated")), criterion=case["criterion_str"])
    if case["ek"] == "observable":
        args["vars"] = [[model_kind(k), f2b(x)] for k, x in zip(case["vkinds"], case["vars"])]
    pa = case["patience_arg"]
    if pa is None:
        args["patience"] = "none"
    elif isinstance(pa, str):
        args["patience"] = "badstr"
    else:
        args["patience"] = math.trunc(pa)
    if case.get("tracked_name") and case["tracked_name"] != case["name"]:
        args["tracked_name"] = case["tracked_name"]
    return args


def one_case(ctx, case, known_probe=False):
    impl = run_impl(case)
    ref_stop, ref_fired, compared, degenerate, f8_epoch = reference(case) if case.get("valid", True) else (None, [], False, [], None)
    sig0 = f"EarlyStopping/{case['criterion']}/{case['ek']}"
    # the pre-F8-fix behaviour: ZeroDivisionError out of fit at a relative comparison of Python scalars with a zero reference
    f8_raised = f8_epoch is not None and impl.get("error") == "ZeroDivisionError" and impl.get("where") == "fit"
    ctx.case(case, nontrivial=compared,
             sample={k: case[k] for k in ("criterion", "ek", "patience", "pe", "ps", "eval_first", "tol", "family", "kindmode")}
             | {"impl": {k: impl.get(k) for k in ("stop", "last_epoch", "fired", "error")}})
    for k in ("criterion", "ek", "patience", "pe", "ps", "eval_first", "tol", "family", "kindmode"):
        ctx.count(f"{k}={case[k]}")
    ctx.count("quantity_name=" + ("plain" if case["name"] == "Q" else "own-attribute/odd"))
    ctx.count("outcome=" + ("error:" + impl["error"] if "error" in impl else ("stop" if impl["stop"] else "no-stop")))
    ctx.count("compared" if compared else "never-compared")
    if degenerate:
        ctx.count("degenerate-comparison(" + case["criterion"] + ")")
    if f8_epoch is not None:
        ctx.count("degenerate-comparison(relative, Python scalars: F8 class)")
    if case["pre"]:
        ctx.count("with-pre-run")

    # ---- model
    if ctx.driver is not None and not case.get("tracked_name"):
        m = ctx.driver.call("c18.fit", **model_args(case))
        th = "C18_first_stop"
        if "error" in m or "error" in impl:
            ctx.point("exception", "property", impl.get("error"), m.get("error"), case, exact=True,
                      sig=SIG_F8 if f8_raised else f"{sig0}/exception",
                      theorem="C18_first_stop / C18_degenerate_no_stop (a run with a tracked quantity never raises); constructor table "
                              "C18_variance_refused / C18_unknown_criterion")
        else:
            mo = m["ok"]
            ctx.point("stop", "property", impl["stop"], mo["stop"], case, exact=True, sig=f"{sig0}/stop-flag", theorem=th)
            ctx.point("last_epoch", "property", impl["last_epoch"], mo["last_epoch"], case, exact=True, sig=f"{sig0}/last_epoch", theorem=th)
            ctx.point("fired", "property", impl["fired"], mo["fired"], case, exact=True, sig=f"{sig0}/stopping-epoch", theorem=th)
            ctx.point("evaluator.len", "aux", impl["len"], mo["len"], case, exact=True, sig=f"{sig0}/evaluator-len")
            ctx.point("evaluator.epochs", "aux", impl["epochs"], mo["epochs"], case, exact=True, sig=f"{sig0}/evaluator-epochs")

    # ---- oracle: the documented rule, evaluated independently
    if not case.get("valid", True):
        return
    if known_probe and "error" in impl:
        ctx.note("F8 witness: " + repr({k: impl.get(k) for k in ("error", "where")}))
    if "error" in impl:
        if f8_raised:
            ctx.oracle("relative criterion with a zero reference value must neither stop nor raise (ZeroDivisionError out of fit)", False, case,
                       detail={"impl": impl, "degenerate_comparison_at_epoch": f8_epoch}, sig=SIG_F8,
                       theorem="C18_degenerate_no_stop, C18_first_stop")
        else:
            ctx.oracle("fit raised although the monitored quantity is tracked", False, case, detail={"impl": impl},
                       sig=f"{sig0}/unexpected-exception", theorem="C18_first_stop")
        return
    ok = (impl["last_epoch"] == ref_stop and impl["stop"] == (ref_stop is not None) and impl["fired"] == ref_fired)
    ctx.oracle("stops at the first checked epoch satisfying the documented rule, and at no earlier epoch", ok, case,
               detail={"impl": {k: impl[k] for k in ("stop", "last_epoch", "fired")}, "reference_stop_epoch": ref_stop, "reference_fired": ref_fired},
               sig=f"{sig0}/first-stop-oracle", theorem="C18_first_stop")
    if degenerate:
        ctx.oracle("no stop at a degenerate comparison (zero reference / non-positive variance), whatever the tolerance",
                   impl["last_epoch"] not in degenerate, case, detail={"impl": impl, "degenerate_epochs": degenerate},
                   sig=f"{sig0}/stop-at-degenerate-comparison", theorem="C18_degenerate_no_stop")
    if not compared:
        ctx.oracle("no stop before patience+1 evaluations exist", impl["last_epoch"] is None and not impl["stop"], case,
                   detail={"impl": impl}, sig=f"{sig0}/needs-history-oracle", theorem="C18_needs_history")


# ---------------------------------------------------------------- generation
TOLS = [0.0, 1e-3, 1.0, float("inf")]
FAMILIES = ["monotone", "oscillating", "constant", "zeros", "plateau", "nonfinite"]
KINDMODES = ["py", "np", "mixed", "py", "np", "mixed", "int", "t0"]


# the monitored quantity may have ANY name, in particular one the evaluator also uses for an attribute / property / method of
# its own or for a statistic (chosen from the case parameters, not from the rng, so the value streams are unchanged)
QUANTITY_NAMES = ["Q", "log", "period", "last", "Q", "past_values", "epochs", "get_value", "mean", "variance", "", "means",
                  "__len__", "system", "metrics", "a b", "verbose", "names"]


def mk_case(rng, criterion, p, pe, ps, eval_first, tol, family, kindmode, start=1, pre_len=0, deprecated=False, extra=None):
    n_pre = pre_len
    n = (p + 2) * pe + rng.choice([1, 2, 3, 4])
    if rng.random() < 0.12:
        n = rng.randrange(1, (p + 1) * pe + 1)      # short run: (almost) never enough history
    pre = [[start + i, i] for i in range(n_pre)]
    s2 = start + n_pre + (rng.choice([0, 2]) if n_pre else 0)
    cands = [[s2 + i, n_pre + i] for i in range(n)]
    total = n_pre + n
    vals = make_seq(rng, family, total)
    kinds = make_kinds(rng, kindmode, total)
    ek = "observable" if criterion == "variance" else rng.choice(["metric", "metric", "observable"])
    vars_ = [rng.choice([0.25, 1.0, 4.0, 1e-6, 100.0]) for _ in range(total)]
    if criterion == "variance" and rng.random() < 0.35:
        # converged / single-sample observables: variance exactly 0, nan (num_samples=1), and impossible values
        for _ in range(rng.choice([1, 1, 2, total])):
            vars_[rng.randrange(total)] = rng.choice([0.0, 0.0, -1.0, float("nan"), float("inf")])
    vkinds = make_kinds(rng, kindmode, total)
    case = {"criterion": criterion, "criterion_str": rng.choice([criterion, criterion.upper(), "  " + criterion.capitalize() + "\n"]),
            "ek": ek, "patience": p, "patience_arg": rng.choice([p, p, p + 0.7]), "pe": pe, "ps": ps, "eval_first": eval_first, "tol": tol,
            "family": family, "kindmode": kindmode, "name": QUANTITY_NAMES[(7 * p + 3 * pe + ps + total + len(family)) % len(QUANTITY_NAMES)],
            "pre": pre, "cands": cands, "vals": vals, "kinds": kinds,
            "vars": vars_, "vkinds": vkinds, "deprecated": deprecated, "valid": True}
    if extra:
        case.update(extra)
    return case


def f8_witness():
    """F8 (repaired): relative, Python floats, reference value exactly 0.0 — no exception, no stop at epoch 2, stop at epoch 3"""
    n = 5
    return {"criterion": "relative", "criterion_str": "relative", "ek": "metric", "patience": 1, "patience_arg": 1, "pe": 1, "ps": 1,
            "eval_first": True, "tol": 0.01, "family": "zeros", "kindmode": "py", "name": "Q", "pre": [],
            "cands": [[1 + i, i] for i in range(n)], "vals": [0.0, 5.0, 5.0, 5.0, 5.0], "kinds": ["py"] * n,
            "vars": [1.0] * n, "vkinds": ["py"] * n, "deprecated": False, "valid": True}


def gen_cases(ctx, thorough):
    rng = ctx.rng
    combos = [(c, p, pe, ps, ef, tol) for c in ("relative", "absolute", "variance") for p in (1, 2, 3, 4, 5)
              for pe in (1, 2, 3) for ps in (1, 2, 3) for ef in (True, False) for tol in TOLS]
    if not thorough:
        rng.shuffle(combos)
        combos = combos[:260]
    for i, (c, p, pe, ps, ef, tol) in enumerate(combos):
        fams = FAMILIES if thorough and i % 4 == 0 else [rng.choice(FAMILIES)]
        for fam in fams:
            km = rng.choice(KINDMODES)
            start = rng.choice([1, 1, 1, 0, 2, 5])
            pre_len = rng.choice([0, 0, 0, 2, 4])
            dep = (c == "variance" and rng.random() < 0.3)
            yield mk_case(rng, c, p, pe, ps, ef, tol, fam, km, start=start, pre_len=pre_len, deprecated=dep)
    # twins of the F8 witness in the other kinds (numpy: inf, no exception, no stop at that comparison), both list orders, tol = inf
    for km in ("np", "int", "t0", "py"):
        for ef in (True, False):
            for tol in (0.01, float("inf")):
                w = f8_witness()
                w.update(kinds=[km] * 5, kindmode=km, eval_first=ef, tol=tol)
                yield w
    # variance criterion: variance exactly 0 / negative / nan at the reference, Python and numpy kinds, tol = inf
    for v0 in (0.0, -1.0, float("nan")):
        for km in ("py", "np"):
            w = f8_witness()
            w.update(criterion="variance", criterion_str="variance", ek="observable", vals=[1.0, 1.0, 1.0, 1.0, 1.0],
                     vars=[v0, v0, 1.0, 1.0, 1.0], kinds=[km] * 5, vkinds=[km] * 5, kindmode=km, tol=float("inf"), family="constant")
            yield w


def ctor_cases(rng):
    """constructor table (malformed stream)"""
    base = mk_case(rng, "absolute", 2, 1, 1, True, 1.0, "constant", "py")
    for ek in ("metric", "observable", "other"):
        for cs in ("variance", " VARIANCE ", "relative", "Absolute\t", "rel", "", "variance s", "relative\x0b", "RELATIVE\x1f"):
            for pa in (2, 2.9, None, "abc"):
                for dep in (False, True):
                    if dep and cs != "variance":
                        continue
                    crit = cs.strip().lower() if cs.strip().lower() in ("relative", "absolute", "variance") else "absolute"
                    if dep:
                        crit = "variance"
                    yield {**base, "ek": ek, "criterion_str": cs, "criterion": crit, "patience_arg": pa, "patience": 2,
                           "deprecated": dep, "valid": False, "variance_name": "whatever" if dep else None}


def run_ctor(ctx, case):
    impl = run_impl(case)
    ctx.case({"ctor": [case["ek"], case["criterion_str"], repr(case["patience_arg"]), case["deprecated"]]}, nontrivial=True)
    ctx.count("ctor." + (impl.get("error") if impl.get("where") == "constructor" else "ok"))
    cs = case["criterion_str"].strip().lower()
    # oracle: the documented constructor contract
    if case["patience_arg"] is None:
        exp = "TypeError"
    elif isinstance(case["patience_arg"], str):
        exp = "ValueError"
    elif case["ek"] == "other":
        exp = "TypeError"
    elif case["deprecated"]:
        exp = "TypeError" if case["ek"] == "metric" else None
    elif case["ek"] == "metric" and cs == "variance":
        exp = "TypeError"
    elif cs not in ("relative", "absolute", "variance"):
        exp = "ValueError"
    else:
        exp = None
    got = impl.get("error") if impl.get("where") == "constructor" else None
    ctx.oracle("constructor: variance refused for metrics, unknown criterion ValueError, non-evaluator TypeError", got == exp, case,
               detail={"got": got, "expected": exp}, sig="EarlyStopping/constructor-oracle", theorem="C18_variance_refused, C18_unknown_criterion")
    if exp is None and got is None:
        want_crit = "variance" if case["deprecated"] else cs
        ctx.oracle("constructor: stored criterion / int(patience)", impl["ctor"]["criterion"] == want_crit and impl["ctor"]["patience"] == math.trunc(case["patience_arg"]),
                   case, detail=impl["ctor"], sig="EarlyStopping/constructor-fields", theorem="C18_deprecated_eq")
    if ctx.driver is not None:
        a = model_args(case)
        m = ctx.driver.call("c18.new", **{k: a[k] for k in ("ps", "tol", "patience", "ek", "name", "criterion", "deprecated")})
        ctx.point("ctor.exception", "property", got, m.get("error"), case, exact=True, sig="EarlyStopping/constructor",
                  theorem="C18_variance_refused, C18_unknown_criterion, C18_deprecated_eq")
        if "ok" in m and got is None:
            ctx.point("ctor.fields", "property", [impl["ctor"]["criterion"], impl["ctor"]["patience"], impl["ctor"]["period"]],
                      [m["ok"]["criterion"], m["ok"]["patience"], m["ok"]["period"]], case, exact=True, sig="EarlyStopping/constructor-fields",
                      theorem="C18_deprecated_eq")


def deprecated_twin(ctx, case):
    """the deprecated class decides exactly as criterion='variance' on the same input"""
    a = run_impl({**case, "deprecated": False, "criterion_str": "variance"})
    b = run_impl({**case, "deprecated": True})
    keys = ("error", "stop", "last_epoch", "fired")
    ctx.oracle("VarianceBasedEarlyStopping decides as EarlyStopping(criterion='variance')",
               {k: a.get(k) for k in keys} == {k: b.get(k) for k in keys}, case,
               detail={"variance": {k: a.get(k) for k in keys}, "deprecated": {k: b.get(k) for k in keys}},
               sig="EarlyStopping/deprecated-twin", theorem="C18_deprecated_eq")


def run(ctx):
    ctx.rule = RULE
    # the F8 witness, on every run
    one_case(ctx, f8_witness(), known_probe=True)
    if ctx.driver is not None:
        words = ["  VaRiance\n", "relative", "\tABSOLUTE ", "x y", "", "\x0bvariance\x1c"]
        ctx.point("normCriterion", "aux", [w.strip().lower() for w in words], ctx.driver.call("c18.norm", strings=words), {"words": words},
                  exact=True, sig="EarlyStopping/strip-lower")
    ndep = 0
    for case in gen_cases(ctx, ctx.tier == "thorough"):
        one_case(ctx, case)
        if case["criterion"] == "variance" and ndep < (60 if ctx.tier == "thorough" else 12):
            deprecated_twin(ctx, case)
            ndep += 1
    # a quantity the evaluator does not track: KeyError out of fit at the first comparison
    bad = {**f8_witness(), "criterion": "absolute", "criterion_str": "absolute", "vals": [1.0, 2.0, 3.0, 4.0, 5.0],
           "ek": ctx.rng.choice(["metric", "observable"]), "tracked_name": "other", "valid": False}
    impl = run_impl(bad)
    ctx.case({"untracked": True}, nontrivial=True)
    ctx.oracle("untracked quantity: KeyError out of fit", impl.get("error") == "KeyError", bad, detail=impl, sig="EarlyStopping/untracked-name")
    for case in ctor_cases(ctx.rng):
        run_ctor(ctx, case)


def search(ctx):
    drv, ctx.driver = ctx.driver, None
    try:
        one_case(ctx, f8_witness(), known_probe=True)
        for case in gen_cases(ctx, True):
            one_case(ctx, case)
        for case in ctor_cases(ctx.rng):
            run_ctor(ctx, case)
    finally:
        ctx.driver = drv


def replay(ctx, case):
    if not case.get("valid", True) and "cands" in case and case.get("ek") in ("metric", "observable", "other") and "criterion_str" in case \
            and not case.get("tracked_name"):
        run_ctor(ctx, case)
    else:
        one_case(ctx, case)
