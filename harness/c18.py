"""C18 — early stopping: real `fit` runs on a tiny model with scripted monitored values; the observed stopping
epoch / last_epoch / exception kind is compared exactly with the executable model (QV.Model.EarlyStop via
`c18.fit`, `c18.new`) and with an independent reference decision procedure (the documented rule)."""
import math
import random
import warnings

import numpy as np

from . import argforms as af
from . import qc
from .common import f2b
from .qc import torch

FILES = [
    "qucumber/callbacks/early_stopping.py",
    "qucumber/callbacks/variance_based_early_stopping.py",
    "qucumber/callbacks/metric_evaluator.py",
    "qucumber/callbacks/observable_evaluator.py",
]
REQUIRED_THEOREMS = ["C18_first_stop", "C18_never_self", "C18_needs_history", "C18_variance_refused",
                     "C18_unknown_criterion", "C18_deprecated_eq", "C18_degenerate_no_stop", "C18_tolerance_infinite",
                     "C18_first_stop_multi", "C18_stop_request_stands", "C18_stop_request_stands_dispatch",
                     "C18_fit_keeps_monitoring", "C18_clear_history_monitors",
                     "C18_derived_requests", "C18_fit_cases", "C18_fitLoop_is_C12_fit", "C18_stop_trace",
                     "C18_fit_cases_multi", "C18_multiReq_derived", "C18_fitRunMulti_is_C12_fit",
                     "C18_gen_deviation_eq_model", "C18_gen_on_epoch_end_eq_model", "C18_gen_deviation_is_documented",
                     "C18_gen_on_epoch_end_gate_closed", "C18_gen_on_epoch_end_eq_model_total", "C18_stop_trace_multi", "C18_session_traces"]
EXTRA_TRUSTED = [
    "C18: the monitored values are scripted functions of the epoch; float64 sub/div/abs/sqrt and `<` of Lean's Float are IEEE, "
    "as are Python's and numpy's, so decisions are compared exactly",
    "C18: a quotient by zero / sqrt of a negative is the model's explicit extended value `none` (inf or nan in the code: below no "
    "tolerance); the code reaches it through IEEE arithmetic (np.divide after the F8 fix) — agreement is checked at Float, incl. nan/inf "
    "monitored values, which have no counterpart over the reals",
]
# ZeroDivisionError out of fit for criterion='relative', Python-float (or int) values and a reference value exactly 0: the behaviour
# BEFORE the F8 fix (np.divide in _relative_change). The property forbids it (C18_first_stop: the run does not raise;
# C18_degenerate_no_stop); reported under this stable signature.
SIG_F8 = "EarlyStopping/relative/pyfloat/ref==0"
RULE = ("case = (criterion, evaluator class, patience 1..5, evaluator period 1..3, stopper period 1..3, list order, tolerance in "
        "{0,1e-3,1,inf}, starting epoch, number of epochs, scripted value sequence [monotone | oscillating | constant | zeros | plateau | "
        "nonfinite (nan, +-inf, huge)] with Python-float / numpy-float / mixed / Python-int / 0-dim-tensor kinds, variances for the variance "
        "criterion (incl. 0, negative, nan, inf), optional evaluator-only pre-run); "
        "non-trivial iff at least one comparison took place (some checked epoch had more than `patience` evaluations); distinct by hash. "
        "MULTI cases (several stop sources in ONE fit): callback list = sources before the evaluator ++ [evaluator tracking 1-2 quantities] ++ "
        "sources after it; a source is an EarlyStopping / VarianceBasedEarlyStopping (own criterion, patience 1..4, period 1..3, tolerance, "
        "quantity; one 'eager' one with a large tolerance, the others 'reluctant' with tolerance 0 / 1e-3) or a callback that sets "
        "stop_training = True at one epoch (in on_epoch_end, as a CallbackBase subclass or a LambdaCallback, or in on_batch_end of that epoch); "
        "also two EVALUATORS (own periods, the same or different quantity names) with one stopper bound to each, all callbacks in "
        "a shuffled list order (oracle only); non-trivial iff some stopper made a comparison. "
        "SESSIONS: 3..10 consecutive fit calls re-using the SAME evaluator and stopper objects (and the same or a fresh callback list); a call "
        "makes exactly ONE evaluation (evaluator period <= epochs < 2 * period) or several; epoch numbering restarts at 1 (or 0) in every call or "
        "continues with starting_epoch; clear_history() before a call with probability 0.15; after a stop the session ends or the flag is reset "
        "and training resumes; non-trivial iff a comparison took place. "
        "DEPRECATED CLASS: every VarianceBasedEarlyStopping gets its documented-as-ignored variance_name from {'std_error', 'mean', 'num_samples', "
        "'variance', '<name>_variance', 'whatever', None}, positionally / by keyword / omitted; the scripted statistics carry std_error and "
        "num_samples far away from the variance. "
        "JUDGED AS REFUSED-OR-NOT (no exception type): variance criterion on a MetricEvaluator must be refused, configurations inside the "
        "quantifier must build and their runs must not raise; unknown criteria, non-evaluators, patience None / str, other spellings of the "
        "criterion, float patience, untracked names, the stopper's attributes: informational counters. "
        "ARGUMENT FORMS (every generated case, stream `aseed`): the periods of evaluators and stoppers, patience, num_samples, the epochs / "
        "starting_epoch / pos_batch_size / k of fit and the sizes of the state are handed over as Python int, numpy.int64 / int32 / intp / uint8, "
        "0-d integer numpy array or 0-d integer torch tensor; verbose (falsy) and gpu as bool, int, numpy.bool_, numpy comparison result, 0-d numpy "
        "array or 0-d torch tensor; evaluator constructors by keyword or positionally")


# ---------------------------------------------------------------- scripted sequences
def make_seq(rng, family, n):
    if family == "monotone":
        a, r = rng.choice([1.0, 3.0, -2.0]), rng.choice([0.5, 0.9, 0.1])
        return [a * (1 + r ** k) for k in range(n)]
    if family == "oscillating":
        a, d = rng.choice([1.0, 0.5]), rng.choice([1.0, 0.25, 1e-4])
        return [a + d * (-1) ** k * (0.5 ** (k // 3)) for k in range(n)]
    if family == "constant":
        c = rng.choice([2.5, -1.0, 1e-9])
        return [c] * n
    if family == "zeros":
        base = [rng.choice([0.0, 0.0, 1.0, -0.5, 2.0, -0.0]) for _ in range(n)]
        return base
    if family == "nonfinite":
        # diverged training: nan / +-inf / huge values among ordinary ones
        pool = [float("nan"), float("inf"), float("-inf"), 1e308, -1e308, 0.0, 1.0, 1.0, 2.5, 2.5]
        return [rng.choice(pool) for _ in range(n)]
    # plateau: changes, then flat, then changes again
    out, v = [], 4.0
    for k in range(n):
        if k % 7 in (0, 1, 2):
            v = v * 0.5 + 0.1
        out.append(v)
    return out


def make_kinds(rng, mode, n):
    if mode in ("py", "np", "int", "t0"):
        return [mode] * n
    return [rng.choice(["py", "np"]) for _ in range(n)]


def as_kind(kind, x):
    """the Python object the scripted metric returns: float | numpy.float64 | int (integral finite values only) | 0-dim double tensor"""
    if kind == "np":
        return np.float64(x)
    if kind == "t0":
        return torch.tensor(float(x), dtype=torch.double)
    if kind == "int" and math.isfinite(x) and float(x).is_integer() and abs(x) < 2 ** 53:
        return int(x)
    return float(x)


def model_kind(kind):
    """the model's two arithmetic kinds: Python scalars (float, int) vs array-library scalars (numpy.float64, 0-dim tensor)"""
    return "py" if kind in ("py", "int") else "np"


# ---------------------------------------------------------------- reference decision procedure (the documented rule)
def spec_deviation(criterion, a, b, var):
    """the documented deviation between reference a and current b, or None where it is undefined (zero reference /
    non-positive or nan variance). Plain Python floats, explicit tests — no numpy."""
    if criterion == "absolute":
        return abs(a - b)
    if criterion == "relative":
        if a == 0:
            return None
        return abs(a - b) / abs(a)
    if not var > 0:             # 0, negative, nan
        return None
    return abs(a - b) / math.sqrt(var)


def reference(case):
    """returns (stop_epoch | None, fired epochs, compared?, degenerate epochs, f8_epoch) by the documented rule:
    at a checked epoch with evaluations M_0..M_t: stop iff t >= p and dev(M_{t-p}, M_t) is defined and < tol.
    `degenerate`: checked epochs (up to the stop) whose comparison was undefined — the stopper must neither stop nor raise there;
    `f8_epoch`: the first of them with criterion relative and Python-scalar operands (where the code BEFORE the F8 fix raised)."""
    p, pe, ps, tol = case["patience"], case["pe"], case["ps"], case["tol"]
    hist = []
    for e, w in case["pre"]:
        if e % pe == 0:
            hist.append(w)
    fired, compared, degenerate, f8_epoch = [], False, [], None
    for e, w in case["cands"]:
        fired.append(e)
        if case["eval_first"] and e % pe == 0:
            hist.append(w)
        if e % ps == 0:
            t = len(hist) - 1
            if t >= p:
                compared = True
                a = float(case["vals"][hist[t - p]])
                b = float(case["vals"][hist[t]])
                dev = spec_deviation(case["criterion"], a, b, float(case["vars"][hist[t - p]]))
                if dev is None:
                    degenerate.append(e)
                    if f8_epoch is None and case["criterion"] == "relative" and \
                            model_kind(case["kinds"][hist[t - p]]) == "py" and model_kind(case["kinds"][hist[t]]) == "py":
                        f8_epoch = e
                elif dev < tol:
                    return e, fired, compared, degenerate, f8_epoch
        if (not case["eval_first"]) and e % pe == 0:
            hist.append(w)
    return None, fired, compared, degenerate, f8_epoch


# ---------------------------------------------------------------- argument forms (round 5): see harness/argforms.py
# Every integer option of the calls below (periods of the evaluators and of the stoppers, patience, num_samples of the
# ObservableEvaluator, epochs / starting_epoch / pos_batch_size / k of fit, the sizes of the state) is handed over in one of the integer
# forms, every boolean option (verbose - falsy only: what is printed is not constrained -, gpu) in one of the flag forms, drawn from the
# case's own stream `aseed`; the model and the reference procedure are told the VALUES (case["pe"], case["ps"], trunc(patience_arg)).
def tiny_state(fm):
    return qc.PositiveWaveFunction(fm.i("num_visible", 2), fm.i("num_hidden", 2), gpu=fm.gpu())


def fit_args(fm, last, first, pbs=4):
    F = af.FIT_INT
    return dict(epochs=fm.i("epochs", last, F["epochs"]), starting_epoch=fm.i("starting_epoch", first, F["starting_epoch"]),
                pos_batch_size=fm.i("pos_batch_size", pbs, F["pos_batch_size"]), k=fm.i("k", 1, F["k"]), lr=0.01)


N_ROWS = 4      # rows of the training data of every run of this module


def num_batches(case):
    """batches per epoch of the main fit of a single case: ceil(4 rows / pos_batch_size); `pbs` absent (stored cases) = 4"""
    return -(-N_ROWS // int(case.get("pbs", 4)))


def event_recorder(trace):
    """a LambdaCallback (listed FIRST) that records the six events of `fit` with their arguments, in order"""
    from qucumber.callbacks import LambdaCallback

    return LambdaCallback(on_train_start=lambda nn_state: trace.append(["ts"]),
                          on_train_end=lambda nn_state: trace.append(["te"]),
                          on_epoch_start=lambda nn_state, ep: trace.append(["es", int(ep)]),
                          on_epoch_end=lambda nn_state, ep: trace.append(["ee", int(ep)]),
                          on_batch_start=lambda nn_state, ep, b: trace.append(["bs", int(ep), int(b)]),
                          on_batch_end=lambda nn_state, ep, b: trace.append(["be", int(ep), int(b)]))


def spec_trace(first, last, stop_epoch, nb):
    """the documented event protocol of a fit over first..last that is stopped at the end of `stop_epoch` (None: not at all)"""
    out = [["ts"]]
    for e in range(first, (last if stop_epoch is None else stop_epoch) + 1):
        out.append(["es", e])
        for b in range(nb):
            out += [["bs", e, b], ["be", e, b]]
        out.append(["ee", e])
    return out + [["te"]]


def epoch_events(trace):
    """projection of an event trace to the train-start / epoch-start / epoch-end / train-end events: which epochs ran, where it stopped"""
    return [list(ev) for ev in trace if ev[0] in ("ts", "es", "ee", "te")]


def metric_evaluator(fm, pe, metrics):
    from qucumber.callbacks import MetricEvaluator

    per, vb = fm.i("evaluator period", pe, af.PERIOD_INT), fm.f("verbose", False)
    return MetricEvaluator(per, metrics, vb) if fm.pos("MetricEvaluator(period, metrics, verbose)") else MetricEvaluator(per, metrics, verbose=vb)


def observable_evaluator(fm, pe, obs):
    from qucumber.callbacks import ObservableEvaluator

    per, vb, ns = fm.i("evaluator period", pe, af.PERIOD_INT), fm.f("verbose", False), fm.i("num_samples", 2)
    if fm.pos("ObservableEvaluator(period, observables, verbose)"):
        return ObservableEvaluator(per, obs, vb, num_samples=ns)
    return ObservableEvaluator(per, obs, verbose=vb, num_samples=ns)


# ---------------------------------------------------------------- scripted statistics / the deprecated class's ignored argument
def stats_entry(val, var, w):
    """the statistics an ObservableEvaluator records for one quantity at world `w`.  The entries the stopper must NOT read
    ('std_error', 'num_samples') carry values far away from the variance (1e-10 / 1e10 alternating, 10**6), so a stopper that
    scales the change by anything other than sqrt(variance) decides differently."""
    return {"mean": val, "variance": var, "std_error": 1e-10 if w % 2 == 0 else 1e10, "num_samples": 10 ** 6}


# `VarianceBasedEarlyStopping(period, tolerance, patience, evaluator_callback, quantity_name, variance_name=None)`: the sixth
# argument is documented as ignored.  Every deprecated stopper the harness builds gets one of these values (the names of the other
# recorded statistics, the real one, an old-style '<quantity>_variance', an unknown one, None), positionally, by keyword or omitted -
# drawn from the case's own seed, so the value streams of the generators are unchanged.
VARIANCE_NAMES = ["std_error", "mean", "num_samples", "variance", "<name>_variance", "whatever", None]
VN_HOW = ["pos", "kw", "omit"]


def draw_variance_name(seed, salt=0):
    r = random.Random((int(seed or 0) * 1000003 + salt) & 0xFFFFFFFF)
    vn = r.choice(VARIANCE_NAMES)
    how = r.choice(VN_HOW[:2]) if vn is not None else r.choice(VN_HOW)
    return vn, how


def build_deprecated(ps, tol, pa, ev, name, vn, how):
    from qucumber.callbacks import VarianceBasedEarlyStopping

    if vn == "<name>_variance":
        vn = f"{name}_variance"
    if how == "omit":
        return VarianceBasedEarlyStopping(ps, tol, pa, ev, name)
    if how == "pos":
        return VarianceBasedEarlyStopping(ps, tol, pa, ev, name, vn)
    return VarianceBasedEarlyStopping(ps, tol, pa, ev, name, variance_name=vn)


def ctor_fields(stopper):
    """undocumented attributes of the stopper, read defensively: INFORMATIONAL only (audit X-2)"""
    out = {}
    for k in ("criterion", "patience", "period"):
        try:
            out[k] = af.plain(getattr(stopper, k))
        except Exception:  # noqa: BLE001
            out[k] = "<unreadable>"
    return out


# ---------------------------------------------------------------- the real run
class EpochRecorder(qc.qucumber.callbacks.CallbackBase):
    def __init__(self, table):
        self.table = table      # epoch -> world
        self.cur = None
        self.fired = []

    def on_epoch_end(self, st, ep):
        self.cur = self.table[ep]

    def mark(self, ep):
        self.fired.append(ep)


class Tail(qc.qucumber.callbacks.CallbackBase):
    """last in the list: records that the epoch-end dispatch completed"""

    def __init__(self, rec):
        self.rec = rec

    def on_epoch_end(self, st, ep):
        self.rec.mark(ep)


def build_stopper(case, evaluator, fm=None):
    from qucumber.callbacks import EarlyStopping

    fm = fm or af.Forms(None)
    ps, pa = fm.i("stopper period", case["ps"], af.PERIOD_INT), fm.i("patience", case["patience_arg"])
    if case.get("deprecated"):
        return build_deprecated(ps, case["tol"], pa, evaluator, case["name"], case.get("variance_name"), case.get("vn_how", "kw"))
    return EarlyStopping(ps, case["tol"], pa, evaluator, case["name"], criterion=case["criterion_str"])


def run_impl(case, ctx=None):
    from qucumber.observables import SigmaZ

    torch.manual_seed(0)
    fm = af.Forms(case.get("aseed"), ctx)
    st = tiny_state(fm)
    data = torch.tensor([[0, 1], [1, 1], [1, 0], [0, 0]], dtype=torch.double)
    table = {e: w for e, w in case["pre"] + case["cands"]}
    rec = EpochRecorder(table)
    vals = [as_kind(k, x) for k, x in zip(case["kinds"], case["vals"])]
    vars_ = [as_kind(k, x) for k, x in zip(case["vkinds"], case["vars"])] if case["ek"] == "observable" else None
    track = case.get("tracked_name", case["name"])
    if case["ek"] == "metric":
        ev = metric_evaluator(fm, case["pe"], {track: lambda nn_state: vals[rec.cur]})
    elif case["ek"] == "observable":
        obs = SigmaZ()
        obs.name = track
        ev = observable_evaluator(fm, case["pe"], [obs])
        ev.system.statistics = lambda nn_state, **kw: {track: stats_entry(vals[rec.cur], vars_[rec.cur], rec.cur)}
    else:
        ev = object()
    res = {}
    try:
        with warnings.catch_warnings():
            warnings.simplefilter("ignore")
            stopper = build_stopper(case, ev, fm)
    except Exception as e:  # noqa: BLE001
        return {"error": type(e).__name__, "where": "constructor"}
    res["ctor"] = ctor_fields(stopper)
    tail = Tail(rec)
    with warnings.catch_warnings():        # numpy's floating-point warnings are left at their defaults (a warning, not an error)
        warnings.simplefilter("ignore")
        try:
            if case["pre"]:
                st.fit(data, callbacks=[rec, ev, tail], **fit_args(fm, case["pre"][-1][0], case["pre"][0][0]))
                rec.fired = []
            # the event recorder is listed FIRST (identity 0): [recorder, world table, evaluator / stopper in the case's order, tail]
            trace = []
            cbl = [event_recorder(trace), rec] + ([ev, stopper] if case["eval_first"] else [stopper, ev]) + [tail]
            if case["cands"]:
                st.fit(data, callbacks=cbl, **fit_args(fm, case["cands"][-1][0], case["cands"][0][0], int(case.get("pbs", 4))))
        except Exception as e:  # noqa: BLE001
            return {"error": type(e).__name__, "where": "fit", "fired_before": list(rec.fired), "ctor": res["ctor"]}
    res.update({"stop": bool(st.stop_training), "last_epoch": stopper.last_epoch, "fired": list(rec.fired),
                "len": len(ev), "epochs": [int(x) for x in ev.epochs], "trace": trace if case["cands"] else None})
    return res


def model_args(case):
    args = dict(ps=case["ps"], tol=f2b(case["tol"]), ek=case["ek"], name=case["name"], pe=case["pe"], eval_first=case["eval_first"],
                pre=case["pre"], cands=case["cands"], vals=[[model_kind(k), f2b(x)] for k, x in zip(case["kinds"], case["vals"])],
                deprecated=bool(case.get("deprecated")), criterion=case["criterion_str"])
    if case["ek"] == "observable":
        args["vars"] = [[model_kind(k), f2b(x)] for k, x in zip(case["vkinds"], case["vars"])]
    pa = case["patience_arg"]
    if pa is None:
        args["patience"] = "none"
    elif isinstance(pa, str):
        args["patience"] = "badstr"
    else:
        args["patience"] = math.trunc(pa)
    if case.get("tracked_name") and case["tracked_name"] != case["name"]:
        args["tracked_name"] = case["tracked_name"]
    if case.get("deprecated") and isinstance(case.get("variance_name"), str):
        args["variance_name"] = case["variance_name"]          # handed to the model's constructor, which ignores it
    return args


def lenient(case_or_src):
    """the configuration uses a form OUTSIDE the property's quantifier that the current code happens to accept: a criterion
    spelled with other case / surrounding whitespace (documented: 'must be one of relative, absolute, variance'), a patience that
    is not an int (documented type: int).  A constructor that REFUSES such a form keeps the property: counted, no verdict.  If it is
    accepted, the run is compared as the criterion / int(patience) it stands for."""
    cs = case_or_src.get("criterion_str")
    pa = case_or_src.get("patience_arg")
    return (cs is not None and cs not in ("relative", "absolute", "variance")) or not (isinstance(pa, int) and not isinstance(pa, bool))


def one_case(ctx, case, known_probe=False):
    impl = run_impl(case, ctx)
    if impl.get("where") == "constructor" and case.get("valid", True) and lenient(case):
        ctx.case(case, nontrivial=False)
        ctx.count("out-of-quantifier form (criterion spelling / non-int patience) refused by the constructor: no verdict")
        return
    ref_stop, ref_fired, compared, degenerate, f8_epoch = reference(case) if case.get("valid", True) else (None, [], False, [], None)
    sig0 = f"EarlyStopping/{case['criterion']}/{case['ek']}"
    # the pre-F8-fix behaviour: ZeroDivisionError out of fit at a relative comparison of Python scalars with a zero reference
    f8_raised = f8_epoch is not None and impl.get("error") == "ZeroDivisionError" and impl.get("where") == "fit"
    ctx.case(case, nontrivial=compared,
             sample={k: case[k] for k in ("criterion", "ek", "patience", "pe", "ps", "eval_first", "tol", "family", "kindmode")}
             | {"impl": {k: impl.get(k) for k in ("stop", "last_epoch", "fired", "error")}})
    for k in ("criterion", "ek", "patience", "pe", "ps", "eval_first", "tol", "family", "kindmode"):
        ctx.count(f"{k}={case[k]}")
    ctx.count("quantity_name=" + ("plain" if case["name"] == "Q" else "own-attribute/odd"))
    ctx.count("outcome=" + ("error:" + impl["error"] if "error" in impl else ("stop" if impl["stop"] else "no-stop")))
    ctx.count("compared" if compared else "never-compared")
    if degenerate:
        ctx.count("degenerate-comparison(" + case["criterion"] + ")")
    if f8_epoch is not None:
        ctx.count("degenerate-comparison(relative, Python scalars: F8 class)")
    if case["pre"]:
        ctx.count("with-pre-run")

    # ---- model
    if ctx.driver is not None and not case.get("tracked_name"):
        m = ctx.driver.call("c18.fit", **model_args(case))
        th = "C18_first_stop"
        if "error" in m or "error" in impl:
            # raised-or-not only: the property names no exception type (13.8); the kinds are an informational counter
            ctx.count(f"exception kinds impl/model: {impl.get('error')}/{m.get('error')}")
            ctx.point("raised", "property", "error" in impl, "error" in m, case, exact=True,
                      sig=SIG_F8 if f8_raised else f"{sig0}/exception",
                      theorem="C18_first_stop / C18_degenerate_no_stop (a run with a tracked quantity never raises)")
        else:
            mo = m["ok"]
            ctx.point("stop", "property", impl["stop"], mo["stop"], case, exact=True, sig=f"{sig0}/stop-flag", theorem=th)
            ctx.point("last_epoch", "property", impl["last_epoch"], mo["last_epoch"], case, exact=True, sig=f"{sig0}/last_epoch", theorem=th)
            ctx.point("fired", "property", impl["fired"], mo["fired"], case, exact=True, sig=f"{sig0}/stopping-epoch", theorem=th)
            ctx.point("evaluator.len", "aux", impl["len"], mo["len"], case, exact=True, sig=f"{sig0}/evaluator-len")
            ctx.point("evaluator.epochs", "aux", impl["epochs"], mo["epochs"], case, exact=True, sig=f"{sig0}/evaluator-epochs")
            if impl.get("trace") is not None:
                # the FULL event trace of the real fit (LambdaCallback listed first) against QV.Train.fit (the C12 model) run with the
                # stop requests DERIVED from evaluator + stopper (QV.Cb.stopperReq), with the case's number of batches per epoch
                first, last = case["cands"][0][0], case["cands"][-1][0]
                nb = num_batches(case)
                ctx.count(f"event trace compared, batches per epoch={nb}")
                mt = ctx.driver.call("c18.fit_trace", **model_args(case), start=first, epochs=last, num_batches=nb,
                                     cbs=[0, 1, 2, 3, 4], st_id=3 if case["eval_first"] else 2, timer=False)
                tht = "C18_fitLoop_is_C12_fit, C18_stop_trace"
                if "error" in mt:
                    ctx.point("trace.raised", "property", False, True, case, exact=True, sig=f"{sig0}/exception", theorem="C18_first_stop")
                else:
                    t = mt["ok"]
                    # audit 3 (B13): C18 fixes WHICH epochs run and where the run stops; the batch-level part of the trace (0-based batch
                    # index, batches per epoch) is C12 / C07 matter.  Property level: the projection to train-start / epoch-start /
                    # epoch-end / train-end events; the full batch-level trace is the model-code tie only (auxiliary)
                    ctx.point("trace.epoch-events", "property", epoch_events(impl["trace"]), epoch_events(t["events"]), case, exact=True,
                              sig=f"{sig0}/event-trace", theorem=tht)
                    ctx.point("trace.events", "aux", impl["trace"], t["events"], case, exact=True, sig=f"{sig0}/event-trace-batches", theorem=tht)
                    ctx.point("trace.stop", "property", impl["stop"], t["stop"], case, exact=True, sig=f"{sig0}/stop-flag", theorem=tht)
                    # what the theorem proves about the two models (checked on the executed definitions as well)
                    # audit 3 (B13): both sides are MODEL outputs - not a correspondence point; recorded as a counter only (ctx.info)
                    ctx.info("trace.tie (two model outputs: epoch ends of the C12 trace == epochs of the stopper loop)",
                             [[ev_[1] for ev_ in t["events"] if ev_[0] == "ee"], t["stop"]], [t["fired"], t["loop_stop"]])

    # ---- oracle: the documented rule, evaluated independently
    if not case.get("valid", True):
        return
    if known_probe and "error" in impl:
        ctx.note("F8 witness: " + repr({k: impl.get(k) for k in ("error", "where")}))
    if "error" in impl:
        if f8_raised:
            ctx.oracle("relative criterion with a zero reference value must neither stop nor raise (ZeroDivisionError out of fit)", False, case,
                       detail={"impl": impl, "degenerate_comparison_at_epoch": f8_epoch}, sig=SIG_F8,
                       theorem="C18_degenerate_no_stop, C18_first_stop")
        else:
            ctx.oracle("fit raised although the monitored quantity is tracked", False, case, detail={"impl": impl},
                       sig=f"{sig0}/unexpected-exception", theorem="C18_first_stop")
        return
    ok = (impl["last_epoch"] == ref_stop and impl["stop"] == (ref_stop is not None) and impl["fired"] == ref_fired)
    ctx.oracle("stops at the first checked epoch satisfying the documented rule, and at no earlier epoch", ok, case,
               detail={"impl": {k: impl[k] for k in ("stop", "last_epoch", "fired")}, "reference_stop_epoch": ref_stop, "reference_fired": ref_fired},
               sig=f"{sig0}/first-stop-oracle", theorem="C18_first_stop")
    if impl.get("trace") is not None:
        first, last = case["cands"][0][0], case["cands"][-1][0]
        want = spec_trace(first, last, ref_stop, num_batches(case))
        # audit 3 (B13): the oracle judges the epoch-level projection (which epochs ran, where the run stopped, train-end once); how many
        # batches an epoch has and how they are numbered is C12 / C07 matter, not C18's text: recorded only (ctx.info)
        got_e, want_e = epoch_events(impl["trace"]), epoch_events(want)
        ctx.oracle("event trace of the run (train-start / epoch-start / epoch-end / train-end events): train-start, the epochs up to the "
                   "first checked epoch satisfying the rule (all of them if none), that epoch's end, train-end; no later epoch starts",
                   got_e == want_e, case,
                   detail={"impl_trace_tail": got_e[-6:], "expected_tail": want_e[-6:], "reference_stop_epoch": ref_stop,
                           "lengths": [len(got_e), len(want_e)]},
                   sig=f"{sig0}/event-trace-oracle", theorem="C18_stop_trace")
        ctx.info("event trace incl. the batch events (0-based batch index, ceil(N / batch size) batches per epoch: C12 / C07 matter)",
                 impl["trace"], want)
    if degenerate:
        ctx.oracle("no stop at a degenerate comparison (zero reference / non-positive variance), whatever the tolerance",
                   impl["last_epoch"] not in degenerate, case, detail={"impl": impl, "degenerate_epochs": degenerate},
                   sig=f"{sig0}/stop-at-degenerate-comparison", theorem="C18_degenerate_no_stop")
    if not compared:
        ctx.oracle("no stop before patience+1 evaluations exist", impl["last_epoch"] is None and not impl["stop"], case,
                   detail={"impl": impl}, sig=f"{sig0}/needs-history-oracle", theorem="C18_needs_history")


# ---------------------------------------------------------------- SESSIONS: several consecutive fit calls on the SAME objects (final pass)
# The "train a bit more until converged" loop: `fit` is called again and again with the same [evaluator, stopper] objects.  The evaluator
# keeps its history and the stopper its `last_epoch` from call to call; the epoch numbering of a call restarts at 1 or continues
# (starting_epoch); a call makes ONE evaluation (evaluator period <= epochs < 2 * period) or several; between two calls the user may call
# `evaluator.clear_history()`; after a stop the user either ends the session or resets `stop_training = False` and goes on (`resume`).
# case["segments"] = [{"clear": bool, "cands": [[epoch, world]]}], world tokens unique over the session.
def run_impl_session(case, ctx=None):
    from qucumber.observables import SigmaZ

    torch.manual_seed(0)
    fm = af.Forms(case.get("aseed"), ctx, "session: ")
    st = tiny_state(fm)
    data = torch.tensor([[0, 1], [1, 1], [1, 0], [0, 0]], dtype=torch.double)
    rec = EpochRecorder({})
    vals = [as_kind(k, x) for k, x in zip(case["kinds"], case["vals"])]
    vars_ = [as_kind(k, x) for k, x in zip(case["vkinds"], case["vars"])]
    name = case["name"]
    if case["ek"] == "metric":
        ev = metric_evaluator(fm, case["pe"], {name: lambda nn_state: vals[rec.cur]})
    else:
        obs = SigmaZ()
        obs.name = name
        ev = observable_evaluator(fm, case["pe"], [obs])
        ev.system.statistics = lambda nn_state, **kw: {name: stats_entry(vals[rec.cur], vars_[rec.cur], rec.cur)}
    try:
        with warnings.catch_warnings():
            warnings.simplefilter("ignore")
            stopper = build_stopper(case, ev, fm)
    except Exception as e:  # noqa: BLE001
        return {"error": type(e).__name__, "where": "constructor"}
    tail = Tail(rec)
    cbl = [rec, ev, stopper, tail] if case["eval_first"] else [rec, stopper, ev, tail]
    if case.get("fresh_list"):
        mk = (lambda: list(cbl))
    else:
        mk = (lambda: cbl)          # the very same list object handed to every call
    segs = []
    with warnings.catch_warnings():
        warnings.simplefilter("ignore")
        for k, seg in enumerate(case["segments"]):
            if st.stop_training:
                if not case["resume"]:
                    break                       # the session ends at the first stop
                st.stop_training = False        # resume after a stop: same objects
            if seg["clear"]:
                ev.clear_history()
            rec.table = {e: w for e, w in seg["cands"]}
            rec.fired = []
            try:
                st.fit(data, callbacks=mk(), **fit_args(fm, seg["cands"][-1][0], seg["cands"][0][0]))
            except Exception as e:  # noqa: BLE001
                return {"error": type(e).__name__, "where": "fit", "segment": k, "segments": segs}
            segs.append({"stop": bool(st.stop_training), "last_epoch": stopper.last_epoch, "fired": list(rec.fired), "len": len(ev),
                         "epochs": [int(x) for x in ev.epochs]})
    return {"segments": segs}


def reference_session(case):
    """the documented rule walked over the session, independently of the code: per call {stop, last_epoch, fired, len, fresh} +
    (compared at all?, compared ACROSS calls: a reference evaluation made in an earlier call?)"""
    p, pe, ps, tol = case["patience"], case["pe"], case["ps"], case["tol"]
    hist, origin, stop, last, out = [], [], False, None, []
    compared = across = False
    for k, seg in enumerate(case["segments"]):
        if stop:
            if not case["resume"]:
                break
            stop = False
        if seg["clear"]:
            hist, origin = [], []
        fired, fresh = [], False
        for e, w in seg["cands"]:
            fired.append(e)
            if case["eval_first"] and e % pe == 0:
                hist.append(w)
                origin.append(k)
            if e % ps == 0:
                t = len(hist) - 1
                if t >= p:
                    compared = True
                    across = across or origin[t - p] != k
                    dev = spec_deviation(case["criterion"], float(case["vals"][hist[t - p]]), float(case["vals"][hist[t]]),
                                         float(case["vars"][hist[t - p]]))
                    if dev is not None and dev < tol:
                        stop, last, fresh = True, e, True
            if (not case["eval_first"]) and e % pe == 0:
                hist.append(w)
                origin.append(k)
            if stop:
                break
        out.append({"stop": stop, "last_epoch": last, "fired": fired, "len": len(hist), "fresh": fresh})
    return out, compared, across


def model_args_session(case):
    a = model_args({**case, "pre": [], "cands": []})
    a.pop("pre"), a.pop("cands")
    a["segments"] = [{"clear": bool(seg["clear"]), "reset": bool(case["resume"]), "cands": seg["cands"]} for seg in case["segments"]]
    return a


def one_session(ctx, case):
    impl = run_impl_session(case, ctx)
    if impl.get("where") == "constructor" and lenient(case):
        ctx.case(case, nontrivial=False)
        ctx.count("out-of-quantifier form (criterion spelling / non-int patience) refused by the constructor: no verdict")
        return
    ref, compared, across = reference_session(case)
    sig0 = f"EarlyStopping/session/{case['criterion']}"
    ctx.case(case, nontrivial=compared,
             sample={"session": case["regime"], "criterion": case["criterion"], "ek": case["ek"], "patience": case["patience"], "pe": case["pe"],
                     "ps": case["ps"], "resume": case["resume"], "calls": [[seg["cands"][0][0], seg["cands"][-1][0], seg["clear"]] for seg in case["segments"]],
                     "impl": impl.get("segments", impl)})
    ctx.count("session.regime=" + case["regime"])
    ctx.count("session.numbering=" + case["numbering"])
    ctx.count("session.calls=%d" % len(case["segments"]))
    ctx.count("session.compared-across-calls" if across else "session.no-comparison-across-calls")
    if any(seg["clear"] for seg in case["segments"]):
        ctx.count("session.with-clear_history")
    nstops = sum(1 for r in ref if r["fresh"])
    ctx.count("session.stops=%d%s" % (nstops, " (resumed)" if case["resume"] and nstops and len(ref) > 1 + next(i for i, r in enumerate(ref) if r["fresh"]) else ""))
    th = ("C18_first_stop (every call, with the evaluations of the earlier calls as `prev`: C18_fit_keeps_monitoring, "
          "C18_clear_history_monitors, C18_fit_entered_stopped)")

    # `last_epoch` after a resumed stop, in a call that did not stop again, is the stale value of the earlier stop in the current code;
    # the property says nothing about it: masked on both sides
    def view(segs, fresh):
        seen, out = False, []
        for r, f in zip(segs, fresh):
            out.append([r["stop"], "*" if (seen and not f) else r["last_epoch"], r["fired"]])
            seen = seen or f
        return out
    fresh = [r["fresh"] for r in ref]
    if "error" in impl:
        ctx.oracle("a fit call of a session raised although the monitored quantity is tracked", False, case, detail={"impl": impl},
                   sig=f"{sig0}/unexpected-exception", theorem=th)
    else:
        got = impl["segments"]
        ok = len(got) == len(ref) and view(got, fresh) == view(ref, fresh)
        ctx.oracle("consecutive fit calls re-using evaluator and stopper: every call stops at the first checked epoch at which the documented "
                   "rule holds on ALL evaluations made so far (earlier calls included, since the last clear_history), and at no earlier epoch",
                   ok, case, detail={"impl": view(got, fresh) if len(got) == len(ref) else got, "reference": view(ref, fresh)},
                   sig=f"{sig0}/first-stop-oracle", theorem=th)
    if ctx.driver is not None:
        m = ctx.driver.call("c18.session", **model_args_session(case))
        if "error" in m or "error" in impl:
            ctx.count(f"session: exception kinds impl/model: {impl.get('error')}/{m.get('error')}")
            ctx.point("session.raised", "property", "error" in impl, "error" in m, case, exact=True, sig=f"{sig0}/exception", theorem=th)
        else:
            got = impl["segments"]
            mo = m["ok"][:len(got)]         # a session that ends at its first stop: the later calls are not made
            fr = (fresh + [False] * len(got))[:len(got)]
            ctx.point("session.calls", "property", view(got, fr), view(mo, fr), case, exact=True, sig=f"{sig0}/stop-flag,last_epoch,stopping-epoch",
                      theorem=th)
            ctx.point("session.evaluator.len", "aux", [r["len"] for r in got], [r["len"] for r in mo], case, exact=True, sig=f"{sig0}/evaluator-len")


SESSION_REGIMES = ["one_eval", "one_eval", "one_eval", "several", "mixed"]


def mk_session(rng, regime, extra=None):
    criterion = rng.choice(["relative", "absolute", "variance"])
    p = rng.choice([1, 1, 2, 2, 3, 5])
    pe = rng.choice([1, 2, 3, 4])
    ps = rng.choice([pe, pe, 1, 2, 3])
    ek = "observable" if criterion == "variance" else rng.choice(["metric", "metric", "observable"])
    numbering = rng.choice(["restart", "restart", "continue"])
    nseg = p + rng.choice([2, 3, 4, 5])
    segments, w, nxt = [], 0, rng.choice([1, 1, 1, 0])
    for k in range(nseg):
        r = regime if regime != "mixed" else rng.choice(["one_eval", "several"])
        n_ep = rng.randrange(pe, 2 * pe) if r == "one_eval" else rng.randrange(2 * pe, 3 * pe + 2)
        first = nxt if numbering == "continue" else rng.choice([1, 1, 1, 0])
        last = max(first, first + n_ep - 1)
        if r == "one_eval":
            # exactly one multiple of pe among first..last: ONE evaluation in this call
            while sum(1 for e in range(first, last + 1) if e % pe == 0) > 1:
                last -= 1
            while sum(1 for e in range(first, last + 1) if e % pe == 0) < 1:
                last += 1
        cands = [[e, w + i] for i, e in enumerate(range(first, last + 1))]
        w += len(cands)
        nxt = last + 1
        segments.append({"clear": k > 0 and rng.random() < 0.15, "cands": cands})
    total = w
    family = rng.choice(["monotone", "oscillating", "constant", "zeros", "plateau", "plateau", "monotone"])
    kindmode = rng.choice(KINDMODES)
    vars_ = [rng.choice([0.25, 1.0, 4.0, 100.0]) for _ in range(total)]
    dep = criterion == "variance" and rng.random() < 0.4
    case = {"session": True, "regime": regime, "numbering": numbering, "criterion": criterion, "criterion_str": criterion, "ek": ek, "patience": p,
            "patience_arg": p, "pe": pe, "ps": ps, "eval_first": rng.random() < 0.7, "tol": rng.choice([1e-3, 1.0, 1.0, float("inf"), 0.0]),
            "family": family, "kindmode": kindmode, "name": rng.choice(["Q", "Q", "mean", "last", "epochs"]), "segments": segments,
            "vals": make_seq(rng, family, total), "kinds": make_kinds(rng, kindmode, total), "vars": vars_, "vkinds": make_kinds(rng, kindmode, total),
            "deprecated": dep, "resume": rng.random() < 0.5, "fresh_list": rng.random() < 0.5, "valid": True, "aseed": af.new_seed(rng)}
    if dep:
        case["variance_name"], case["vn_how"] = draw_variance_name(case["aseed"])
    if extra:
        case.update(extra)
    return case


def gen_sessions(ctx, thorough):
    for i in range(400 if thorough else 70):
        yield mk_session(ctx.rng, SESSION_REGIMES[i % len(SESSION_REGIMES)])


def deprecated_sweep(rng):
    """every value of the documented-as-ignored `variance_name` x {positional, keyword}, on a decision-sensitive sequence"""
    for vn in VARIANCE_NAMES:
        for how in (VN_HOW[:2] if vn is not None else VN_HOW):
            c = mk_case(rng, "variance", rng.choice([1, 2]), 1, 1, True, rng.choice([1.0, 1e-3]), rng.choice(["monotone", "plateau", "oscillating"]),
                        rng.choice(["py", "np"]), deprecated=True)
            c.update(variance_name=vn, vn_how=how, criterion_str="variance", patience_arg=c["patience"])
            yield c


# ---------------------------------------------------------------- several stop sources in ONE fit (hardening round 4)
class Requester(qc.qucumber.callbacks.CallbackBase):
    """any other callback that asks for a stop: sets `stop_training = True` at the end of the given epochs, or at the end of a
    batch of those epochs (`fit` then still dispatches that epoch's on_epoch_end to every callback)"""

    def __init__(self, epochs, when):
        self.epochs, self.when = set(epochs), when

    def on_epoch_end(self, st, ep):
        if self.when == "epoch_end" and ep in self.epochs:
            st.stop_training = True

    def on_batch_end(self, st, ep, b):
        if self.when == "batch_end" and ep in self.epochs:
            st.stop_training = True


def build_source(src, case, ev, fm=None):
    from qucumber.callbacks import EarlyStopping, LambdaCallback

    fm = fm or af.Forms(None)
    if src["kind"] == "request":
        if src.get("form") == "lambda" and src["when"] == "epoch_end":
            eps = set(src["epochs"])

            def ask(st, ep):
                if ep in eps:
                    st.stop_training = True
            return LambdaCallback(on_epoch_end=ask)
        return Requester(src["epochs"], src["when"])
    name = case["quantities"][src["q"]]["name"]
    ps, pa = fm.i("stopper period", src["ps"], af.PERIOD_INT), fm.i("patience", src["patience_arg"])
    if src.get("deprecated"):
        return build_deprecated(ps, src["tol"], pa, ev, name, src.get("variance_name"), src.get("vn_how", "omit"))
    return EarlyStopping(ps, src["tol"], pa, ev, name, criterion=src["criterion_str"])


def run_impl_multi(case, ctx=None):
    from qucumber.observables import SigmaZ

    torch.manual_seed(0)
    fm = af.Forms(case.get("aseed"), ctx, "multi: ")
    st = tiny_state(fm)
    data = torch.tensor([[0, 1], [1, 1], [1, 0], [0, 0]], dtype=torch.double)
    table = {e: w for e, w in case["pre"] + case["cands"]}
    rec = EpochRecorder(table)
    qs = case["quantities"]
    vals = [[as_kind(k, x) for k, x in zip(q["kinds"], q["vals"])] for q in qs]
    vars_ = [[as_kind(k, x) for k, x in zip(q["vkinds"], q["vars"])] for q in qs]
    if case["ek"] == "metric":
        ev = metric_evaluator(fm, case["pe"], {q["name"]: (lambda nn_state, i=i: vals[i][rec.cur]) for i, q in enumerate(qs)})
    else:
        obs = []
        for q in qs:
            o = SigmaZ()
            o.name = q["name"]
            obs.append(o)
        ev = observable_evaluator(fm, case["pe"], obs)
        ev.system.statistics = lambda nn_state, **kw: {q["name"]: stats_entry(vals[i][rec.cur], vars_[i][rec.cur], rec.cur)
                                                       for i, q in enumerate(qs)}
    try:
        with warnings.catch_warnings():
            warnings.simplefilter("ignore")
            before = [build_source(s_, case, ev, fm) for s_ in case["before"]]
            after = [build_source(s_, case, ev, fm) for s_ in case["after"]]
    except Exception as e:  # noqa: BLE001
        return {"error": type(e).__name__, "where": "constructor"}
    tail = Tail(rec)
    with warnings.catch_warnings():
        warnings.simplefilter("ignore")
        try:
            if case["pre"]:
                st.fit(data, callbacks=[rec, ev, tail], **fit_args(fm, case["pre"][-1][0], case["pre"][0][0]))
                rec.fired = []
            if case["cands"]:
                st.fit(data, callbacks=[rec] + before + [ev] + after + [tail], **fit_args(fm, case["cands"][-1][0], case["cands"][0][0]))
        except Exception as e:  # noqa: BLE001
            return {"error": type(e).__name__, "where": "fit", "fired_before": list(rec.fired)}
    lasts = [cb.last_epoch for s_, cb in zip(case["before"] + case["after"], before + after) if s_["kind"] == "stopper"]
    return {"stop": bool(st.stop_training), "fired": list(rec.fired), "lasts": lasts, "len": len(ev), "epochs": [int(x) for x in ev.epochs]}


def dispatch_order(case):
    """the stop sources in the order in which their request can reach the flag within one epoch: batch-end requests first (the batch
    loop ends before the epoch-end dispatch), then the list order. Entries: (source, listed_after_evaluator)"""
    srcs = [(s_, False) for s_ in case["before"]] + [(s_, True) for s_ in case["after"]]
    early = [x for x in srcs if x[0]["kind"] == "request" and x[0]["when"] == "batch_end"]
    return early + [x for x in srcs if not (x[0]["kind"] == "request" and x[0]["when"] == "batch_end")]


def reference_multi(case):
    """the documented rule of EVERY stopper + the other requests, independently of the code: training stops at the first epoch at
    which some source asks. Returns (stop_epoch | None, fired, compared?, asking: indices into dispatch_order at the stop epoch,
    contested: a stopper dispatched after the first asking source was eligible there and did NOT ask)"""
    pe = case["pe"]
    hist = [w for e, w in case["pre"] if e % pe == 0]
    order = dispatch_order(case)
    fired, compared = [], False
    for e, w in case["cands"]:
        fired.append(e)
        asking, eligible_silent = [], []
        for k, (src, after_ev) in enumerate(order):
            if src["kind"] == "request":
                if e in src["epochs"]:
                    asking.append(k)
                continue
            h = hist + [w] if (after_ev and e % pe == 0) else hist
            t, p = len(h) - 1, src["patience"]
            if e % src["ps"] == 0 and t >= p:
                compared = True
                q = case["quantities"][src["q"]]
                dev = spec_deviation(src["criterion"], float(q["vals"][h[t - p]]), float(q["vals"][h[t]]), float(q["vars"][h[t - p]]))
                if dev is not None and dev < src["tol"]:
                    asking.append(k)
                else:
                    eligible_silent.append(k)
        if e % pe == 0:
            hist.append(w)
        if asking:
            return e, fired, compared, asking, any(k > asking[0] for k in eligible_silent)
    return None, fired, compared, [], False


def model_partition(case):
    """the model's callback list: a batch-end request reaches the flag before the whole epoch-end dispatch, so it stands at the front of
    `before` wherever the callback is listed; everything else keeps its side of the evaluator and its order"""
    order = dispatch_order(case)

    def early(s_):
        return s_["kind"] == "request" and s_["when"] == "batch_end"
    return [s_ for s_, a in order if early(s_) or not a], [s_ for s_, a in order if a and not early(s_)]


def model_args_multi(case):
    def num(kinds, xs):
        return [[model_kind(k), f2b(x)] for k, x in zip(kinds, xs)]

    def src_args(src):
        if src["kind"] == "request":
            return {"kind": "request", "epochs": src["epochs"]}
        return {"kind": "stopper", "ps": src["ps"], "tol": f2b(src["tol"]), "patience": math.trunc(src["patience_arg"]), "ek": case["ek"],
                "name": case["quantities"][src["q"]]["name"], "criterion": src["criterion_str"], "deprecated": bool(src.get("deprecated")),
                **({"variance_name": src["variance_name"]} if src.get("deprecated") and isinstance(src.get("variance_name"), str) else {})}
    mb, ma = model_partition(case)
    return dict(ek=case["ek"], pe=case["pe"], pre=case["pre"], cands=case["cands"],
                quantities=[{"name": q["name"], "vals": num(q["kinds"], q["vals"]), "vars": num(q["vkinds"], q["vars"])} for q in case["quantities"]],
                before=[src_args(s_) for s_ in mb], after=[src_args(s_) for s_ in ma])


def one_multi(ctx, case):
    if case.get("two_evaluators"):
        return one_chain(ctx, case)
    impl = run_impl_multi(case, ctx)
    if impl.get("where") == "constructor" and any(lenient(s_) for s_ in case["before"] + case["after"] if s_["kind"] == "stopper"):
        ctx.case(case, nontrivial=False)
        ctx.count("out-of-quantifier form (criterion spelling / non-int patience) refused by the constructor: no verdict")
        return
    ref_stop, ref_fired, compared, asking, contested = reference_multi(case)
    order = dispatch_order(case)
    stoppers = [k for k, (s_, _) in enumerate(order) if s_["kind"] == "stopper"]      # same relative order as impl["lasts"]
    sig0 = "EarlyStopping/multi"
    ctx.case(case, nontrivial=compared, sample={"multi": case["scenario"], "ek": case["ek"], "pe": case["pe"],
                                                "sources": [[s_["kind"], s_.get("criterion"), s_.get("patience"), s_.get("ps"), s_.get("tol"), a]
                                                            for s_, a in order],
                                                "impl": {k: impl.get(k) for k in ("stop", "fired", "lasts", "error")}})
    ctx.count("multi.scenario=" + case["scenario"])
    ctx.count("multi.outcome=" + ("error:" + impl["error"] if "error" in impl else ("stop" if impl["stop"] else "no-stop")))
    ctx.count("multi.sources=%d" % len(order))
    if ref_stop is not None:
        ctx.count("multi.first-asking=" + order[asking[0]][0]["kind"] + ("/" + order[asking[0]][0].get("when", "") if order[asking[0]][0]["kind"] == "request" else ""))
        if contested:
            ctx.count("multi.contested-stop (an eligible, unconverged stopper is dispatched after the asking source)")
        if len(asking) > 1:
            ctx.count("multi.several-sources-ask-in-one-epoch")
    # `last_epoch` of a stopper whose rule is met in the stopping epoch AFTER another source has already asked is not constrained by the
    # property (training is stopped there either way): masked on both sides
    masked = {k for k in asking[1:]}

    def mask(lasts):
        return ["*" if k in masked else v for k, v in zip(stoppers, lasts)]
    th = "C18_first_stop_multi, C18_stop_request_stands_dispatch"
    if ctx.driver is not None:
        m = ctx.driver.call("c18.fit_multi", **model_args_multi(case))
        if "error" in m or "error" in impl:
            ctx.count(f"multi: exception kinds impl/model: {impl.get('error')}/{m.get('error')}")
            ctx.point("multi.raised", "property", "error" in impl, "error" in m, case, exact=True, sig=f"{sig0}/exception", theorem=th)
        else:
            mo = m["ok"]
            mb, ma = model_partition(case)
            m_lasts = [v for s_, v in zip(mb, mo["lasts_before"]) if s_["kind"] == "stopper"] + \
                      [v for s_, v in zip(ma, mo["lasts_after"]) if s_["kind"] == "stopper"]
            ctx.point("multi.stop", "property", impl["stop"], mo["stop"], case, exact=True, sig=f"{sig0}/stop-flag", theorem=th)
            ctx.point("multi.fired", "property", impl["fired"], mo["fired"], case, exact=True, sig=f"{sig0}/stopping-epoch", theorem=th)
            ctx.point("multi.last_epoch", "property", mask(impl["lasts"]), mask(m_lasts), case, exact=True, sig=f"{sig0}/last_epoch", theorem=th)
            ctx.point("multi.evaluator.len", "aux", impl["len"], mo["len"], case, exact=True, sig=f"{sig0}/evaluator-len")
    if "error" in impl:
        ctx.oracle("fit with several stop sources raised", False, case, detail={"impl": impl}, sig=f"{sig0}/unexpected-exception", theorem=th)
        return
    ok = impl["stop"] == (ref_stop is not None) and impl["fired"] == ref_fired
    ctx.oracle("several stop sources: training stops at the first epoch at which ANY source asks (a stopper's documented rule is met, or "
               "another callback requested it), and at no earlier epoch; a request once made stands", ok, case,
               detail={"impl": {k: impl[k] for k in ("stop", "fired", "lasts")}, "reference_stop_epoch": ref_stop, "reference_fired": ref_fired,
                       "asking_sources_in_dispatch_order": asking}, sig=f"{sig0}/first-stop-oracle", theorem=th)
    want = [ref_stop if k in asking else None for k in stoppers]
    ctx.oracle("several stop sources: last_epoch is set exactly for the stopper whose rule stopped the run",
               mask(impl["lasts"]) == mask(want), case, detail={"impl": impl["lasts"], "expected": mask(want)},
               sig=f"{sig0}/last_epoch-oracle", theorem="C18_first_stop_multi")


# ---- stoppers bound to DIFFERENT evaluators in one fit (oracle only: the Lean model has one evaluator per run; each stopper's decision
#      on its own evaluator is C18_first_stop, the flag through the dispatch C18_stop_request_stands_dispatch)
def build_evaluator(evd, qs, rec, fm=None):
    from qucumber.observables import SigmaZ

    fm = fm or af.Forms(None)
    vals = [[as_kind(k, x) for k, x in zip(q["kinds"], q["vals"])] for q in qs]
    vars_ = [[as_kind(k, x) for k, x in zip(q["vkinds"], q["vars"])] for q in qs]
    if evd["ek"] == "metric":
        return metric_evaluator(fm, evd["pe"], {q["name"]: (lambda nn_state, i=i: vals[i][rec.cur]) for i, q in enumerate(qs)})
    obs = []
    for q in qs:
        o = SigmaZ()
        o.name = q["name"]
        obs.append(o)
    ev = observable_evaluator(fm, evd["pe"], obs)
    ev.system.statistics = lambda nn_state, **kw: {q["name"]: stats_entry(vals[i][rec.cur], vars_[i][rec.cur], rec.cur)
                                                   for i, q in enumerate(qs)}
    return ev


def run_impl_chain(case, ctx=None):
    torch.manual_seed(0)
    fm = af.Forms(case.get("aseed"), ctx, "multi: ")
    st = tiny_state(fm)
    data = torch.tensor([[0, 1], [1, 1], [1, 0], [0, 0]], dtype=torch.double)
    rec = EpochRecorder({e: w for e, w in case["cands"]})
    qs = case["quantities"]
    evs = [build_evaluator(evd, [q for q in qs if q["ev"] == i], rec, fm) for i, evd in enumerate(case["evaluators"])]
    cbs, stoppers = [], []
    try:
        with warnings.catch_warnings():
            warnings.simplefilter("ignore")
            for it in case["chain"]:
                if it["kind"] == "evaluator":
                    cbs.append(evs[it["i"]])
                else:
                    cb = build_source(it, case, evs[qs[it["q"]]["ev"]] if it["kind"] == "stopper" else None, fm)
                    cbs.append(cb)
                    if it["kind"] == "stopper":
                        stoppers.append(cb)
    except Exception as e:  # noqa: BLE001
        return {"error": type(e).__name__, "where": "constructor"}
    with warnings.catch_warnings():
        warnings.simplefilter("ignore")
        try:
            st.fit(data, callbacks=[rec] + cbs + [Tail(rec)], **fit_args(fm, case["cands"][-1][0], case["cands"][0][0]))
        except Exception as e:  # noqa: BLE001
            return {"error": type(e).__name__, "where": "fit", "fired_before": list(rec.fired)}
    return {"stop": bool(st.stop_training), "fired": list(rec.fired), "lasts": [cb.last_epoch for cb in stoppers], "lens": [len(ev) for ev in evs]}


def reference_chain(case):
    """walk the callback list as documented: each evaluator appends its evaluation at its own period, each stopper applies ITS rule to
    ITS evaluator's history as it is at that point of the dispatch, requests ask at their epochs. -> (stop epoch, fired, compared,
    asking stoppers / requests as positions in the dispatch order, positions of the stoppers)"""
    qs = case["quantities"]
    hist = [[] for _ in case["evaluators"]]
    early = [it for it in case["chain"] if it["kind"] == "request" and it["when"] == "batch_end"]
    order = early + [it for it in case["chain"] if not (it["kind"] == "request" and it["when"] == "batch_end")]
    stoppers = [k for k, it in enumerate(order) if it["kind"] == "stopper"]
    fired, compared = [], False
    for e, w in case["cands"]:
        fired.append(e)
        asking = []
        for k, it in enumerate(order):
            if it["kind"] == "evaluator":
                if e % case["evaluators"][it["i"]]["pe"] == 0:
                    hist[it["i"]].append(w)
            elif it["kind"] == "request":
                if e in it["epochs"]:
                    asking.append(k)
            else:
                q = qs[it["q"]]
                h = hist[q["ev"]]
                t, p = len(h) - 1, it["patience"]
                if e % it["ps"] == 0 and t >= p:
                    compared = True
                    dev = spec_deviation(it["criterion"], float(q["vals"][h[t - p]]), float(q["vals"][h[t]]), float(q["vars"][h[t - p]]))
                    if dev is not None and dev < it["tol"]:
                        asking.append(k)
        if asking:
            return e, fired, compared, asking, stoppers
    return None, fired, compared, [], stoppers


def one_chain(ctx, case):
    impl = run_impl_chain(case, ctx)
    ref_stop, ref_fired, compared, asking, stoppers = reference_chain(case)
    sig0 = "EarlyStopping/multi/two-evaluators"
    ctx.case(case, nontrivial=compared, sample={"multi": "two_evaluators", "chain": [[it["kind"], it.get("i", it.get("q"))] for it in case["chain"]],
                                                "impl": {k: impl.get(k) for k in ("stop", "fired", "lasts", "error")}})
    ctx.count("multi.scenario=two_evaluators")
    ctx.count("multi.outcome=" + ("error:" + impl["error"] if "error" in impl else ("stop" if impl["stop"] else "no-stop")))
    th = "C18_first_stop (each stopper on its own evaluator), C18_stop_request_stands_dispatch"
    if "error" in impl:
        ctx.oracle("fit with stoppers on two evaluators raised", False, case, detail={"impl": impl}, sig=f"{sig0}/unexpected-exception", theorem=th)
        return
    masked = set(asking[1:])
    want = ["*" if k in masked else (ref_stop if k in asking else None) for k in stoppers]
    got = ["*" if k in masked else v for k, v in zip(stoppers, impl["lasts"])]
    ctx.oracle("stoppers bound to different evaluators: training stops at the first epoch at which any stopper's rule holds ON ITS OWN "
               "evaluator's history (or another callback asks), and at no earlier epoch",
               impl["stop"] == (ref_stop is not None) and impl["fired"] == ref_fired and got == want, case,
               detail={"impl": {k: impl[k] for k in ("stop", "fired", "lasts")}, "reference_stop_epoch": ref_stop, "reference_fired": ref_fired,
                       "expected_last_epochs": want}, sig=f"{sig0}/first-stop-oracle", theorem=th)


def mk_chain(rng):
    evaluators = [{"ek": rng.choice(["metric", "metric", "observable"]), "pe": rng.choice([1, 1, 2, 3])} for _ in range(2)]
    stoppers = []
    for k in range(2):
        crit = rng.choice(["relative", "absolute"] + (["variance", "variance"] if evaluators[k]["ek"] == "observable" else []))
        p = rng.choice([1, 1, 2, 3])
        tol = rng.choice([1.0, float("inf"), 1e-3]) if k == 0 else rng.choice([0.0, 0.0, 1e-3, 1.0])
        stoppers.append({"kind": "stopper", "criterion": crit, "criterion_str": crit, "patience": p, "patience_arg": p,
                         "ps": rng.choice([1, 1, 2]), "tol": tol, "q": k, "deprecated": crit == "variance" and rng.random() < 0.3})
    n = (max(s_["patience"] for s_ in stoppers) + 2) * max(e_["pe"] for e_ in evaluators) + rng.choice([1, 2, 3])
    start = rng.choice([1, 1, 0, 3])
    cands = [[start + i, i] for i in range(n)]
    chain = [{"kind": "evaluator", "i": 0}, {"kind": "evaluator", "i": 1}] + stoppers
    if rng.random() < 0.3:
        chain.append({"kind": "request", "epochs": [cands[rng.randrange(n // 2, n)][0]], "when": rng.choice(["epoch_end", "batch_end"]),
                      "form": rng.choice(["class", "lambda"])})
    rng.shuffle(chain)
    kindmode = rng.choice(KINDMODES)
    quantities = []
    for i in range(2):
        fam = rng.choice(FAMILIES)
        quantities.append({"name": ["Q", "R"][i] if rng.random() < 0.7 else "Q", "ev": i, "family": fam, "vals": make_seq(rng, fam, n),
                           "kinds": make_kinds(rng, kindmode, n), "vars": [rng.choice([0.25, 1.0, 4.0, 100.0]) for _ in range(n)],
                           "vkinds": make_kinds(rng, kindmode, n)})
    aseed = af.new_seed(rng)
    for i, s_ in enumerate(stoppers):
        if s_["deprecated"]:
            s_["variance_name"], s_["vn_how"] = draw_variance_name(aseed, i + 1)
    return {"multi": True, "two_evaluators": True, "scenario": "two_evaluators", "evaluators": evaluators, "quantities": quantities,
            "chain": chain, "pre": [], "cands": cands, "kindmode": kindmode, "valid": True, "aseed": aseed}


MULTI_SCENARIOS = ["two_stoppers", "two_stoppers", "two_quantities", "request_epoch_end", "request_batch_end", "mixed", "stopper_then_request"]


def mk_multi(rng, scenario, thorough=False):
    pe = rng.choice([1, 1, 2, 3])
    ek = rng.choice(["metric", "metric", "observable"])
    nq = 2 if scenario == "two_quantities" else rng.choice([1, 1, 2])
    n_st = {"two_stoppers": 2, "two_quantities": 2, "request_epoch_end": 1, "request_batch_end": 1, "stopper_then_request": 1,
            "mixed": rng.choice([2, 3])}[scenario]
    crits = ["relative", "absolute"] + (["variance", "variance"] if ek == "observable" else [])
    stoppers = []
    for k in range(n_st):
        crit = rng.choice(crits)
        p = rng.choice([1, 1, 2, 3, 4])
        # one eager stopper (asks as soon as it may compare, or soon after), the others reluctant (eligible but not converged)
        eager = (k == 0) if scenario != "request_epoch_end" and scenario != "request_batch_end" else False
        tol = rng.choice([1.0, float("inf"), 1e-3, 1.0]) if eager else rng.choice([0.0, 0.0, 1e-3])
        dep = crit == "variance" and rng.random() < 0.3
        stoppers.append({"kind": "stopper", "criterion": crit, "criterion_str": rng.choice([crit, crit.upper(), " " + crit.capitalize() + "\t"]),
                         "patience": p, "patience_arg": rng.choice([p, p, p + 0.7]), "ps": rng.choice([1, 1, 1, 2, 3]), "tol": tol,
                         "q": k % nq if scenario == "two_quantities" else rng.randrange(nq), "deprecated": dep, "eager": eager})
    maxp = max(s_["patience"] for s_ in stoppers)
    if scenario != "request_epoch_end" and scenario != "request_batch_end" and rng.random() < 0.7:
        # the eager stopper has the LONGEST history requirement: when it first asks, the others are already comparing
        stoppers[0]["patience"] = maxp
        stoppers[0]["patience_arg"] = maxp
    n = (maxp + 2) * pe + rng.choice([1, 2, 3, 4])
    start = rng.choice([1, 1, 1, 0, 2, 5])
    n_pre = rng.choice([0, 0, 0, 2, 4])
    pre = [[start + i, i] for i in range(n_pre)]
    s2 = start + n_pre + (rng.choice([0, 2]) if n_pre else 0)
    cands = [[s2 + i, n_pre + i] for i in range(n)]
    total = n_pre + n
    sources = list(stoppers)
    if scenario in ("request_epoch_end", "request_batch_end", "mixed", "stopper_then_request"):
        # a request in the second half of the run, where the stoppers are comparing (and, reluctant, not converged)
        at = cands[rng.randrange(n // 2, n)][0]
        when = "batch_end" if scenario == "request_batch_end" or (scenario == "mixed" and rng.random() < 0.4) else "epoch_end"
        sources.append({"kind": "request", "epochs": [at], "when": when, "form": rng.choice(["class", "lambda"])})
    if scenario == "stopper_then_request":
        sources.reverse()          # the request is listed FIRST: the (eager) stopper comes after it
    elif scenario in ("request_epoch_end", "request_batch_end"):
        sources.reverse()
        if rng.random() < 0.3:
            rng.shuffle(sources)
    else:
        rng.shuffle(sources)
    before, after = [], []
    for s_ in sources:
        (after if rng.random() < 0.7 else before).append(s_)
    kindmode = rng.choice(KINDMODES)
    names = []
    for i in range(nq):
        nm = QUANTITY_NAMES[(5 * maxp + 3 * pe + total + 7 * i) % len(QUANTITY_NAMES)]
        names.append(nm if nm not in names else nm + "_2")
    quantities = []
    for i in range(nq):
        fam = rng.choice(FAMILIES)
        vars_ = [rng.choice([0.25, 1.0, 4.0, 1e-6, 100.0]) for _ in range(total)]
        if rng.random() < 0.2:
            vars_[rng.randrange(total)] = rng.choice([0.0, -1.0, float("nan")])
        quantities.append({"name": names[i], "family": fam, "vals": make_seq(rng, fam, total), "kinds": make_kinds(rng, kindmode, total),
                           "vars": vars_, "vkinds": make_kinds(rng, kindmode, total)})
    aseed = af.new_seed(rng)
    for i, s_ in enumerate(stoppers):
        if s_["deprecated"]:
            s_["variance_name"], s_["vn_how"] = draw_variance_name(aseed, i + 1)
    return {"multi": True, "scenario": scenario, "ek": ek, "pe": pe, "quantities": quantities, "before": before, "after": after,
            "pre": pre, "cands": cands, "kindmode": kindmode, "valid": True, "aseed": aseed}


def demo_like_multi():
    """fixed witnesses: an eager stopper followed by a reluctant one (and the reverse order, and a request before a reluctant stopper)"""
    seq = [10.0, 8.0, 6.0, 5.8, 5.0, 4.0, 3.0, 2.0, 1.0, 0.5, 0.2, 0.1]
    n = len(seq)

    def st(crit, tol, p, ps=1):
        return {"kind": "stopper", "criterion": crit, "criterion_str": crit, "patience": p, "patience_arg": p, "ps": ps, "tol": tol, "q": 0,
                "deprecated": False}
    base = {"multi": True, "ek": "metric", "pe": 1, "pre": [], "cands": [[1 + i, i] for i in range(n)], "kindmode": "py", "valid": True,
            "quantities": [{"name": "m", "family": "monotone", "vals": seq, "kinds": ["py"] * n, "vars": [1.0] * n, "vkinds": ["py"] * n}]}
    a, b = st("absolute", 0.5, 1), st("relative", 1e-9, 2)
    yield {**base, "scenario": "witness", "before": [], "after": [a, b]}
    yield {**base, "scenario": "witness", "before": [], "after": [b, a]}
    yield {**base, "scenario": "witness", "before": [a], "after": [b]}
    yield {**base, "scenario": "witness", "before": [a, b], "after": []}
    yield {**base, "scenario": "witness", "before": [], "after": [{"kind": "request", "epochs": [6], "when": "epoch_end", "form": "class"}, b]}
    yield {**base, "scenario": "witness", "before": [{"kind": "request", "epochs": [6], "when": "epoch_end", "form": "lambda"}], "after": [b]}
    yield {**base, "scenario": "witness", "before": [], "after": [b, {"kind": "request", "epochs": [6], "when": "batch_end", "form": "class"}]}
    # the deprecated class as the reluctant stopper behind an eager one (observable evaluator), in both positions
    d = {**st("variance", 0.0, 1), "criterion_str": "variance", "deprecated": True}
    yield {**base, "scenario": "witness", "ek": "observable", "before": [], "after": [a, d]}
    yield {**base, "scenario": "witness", "ek": "observable", "before": [a], "after": [d]}
    yield {**base, "scenario": "witness", "ek": "observable", "before": [],
           "after": [{"kind": "request", "epochs": [5], "when": "epoch_end", "form": "lambda"}, d]}


def gen_multi(ctx, thorough):
    yield from demo_like_multi()
    for i in range(900 if thorough else 150):
        yield mk_multi(ctx.rng, MULTI_SCENARIOS[i % len(MULTI_SCENARIOS)], thorough)
    for i in range(240 if thorough else 40):
        yield mk_chain(ctx.rng)


# ---------------------------------------------------------------- generation
TOLS = [0.0, 1e-3, 1.0, float("inf")]
FAMILIES = ["monotone", "oscillating", "constant", "zeros", "plateau", "nonfinite"]
KINDMODES = ["py", "np", "mixed", "py", "np", "mixed", "int", "t0"]


# the monitored quantity may have ANY name, in particular one the evaluator also uses for an attribute / property / method of
# its own or for a statistic (chosen from the case parameters, not from the rng, so the value streams are unchanged)
QUANTITY_NAMES = ["Q", "log", "period", "last", "Q", "past_values", "epochs", "get_value", "mean", "variance", "", "means",
                  "__len__", "system", "metrics", "a b", "verbose", "names"]


def mk_case(rng, criterion, p, pe, ps, eval_first, tol, family, kindmode, start=1, pre_len=0, deprecated=False, extra=None):
    n_pre = pre_len
    n = (p + 2) * pe + rng.choice([1, 2, 3, 4])
    if rng.random() < 0.12:
        n = rng.randrange(1, (p + 1) * pe + 1)      # short run: (almost) never enough history
    pre = [[start + i, i] for i in range(n_pre)]
    s2 = start + n_pre + (rng.choice([0, 2]) if n_pre else 0)
    cands = [[s2 + i, n_pre + i] for i in range(n)]
    total = n_pre + n
    vals = make_seq(rng, family, total)
    kinds = make_kinds(rng, kindmode, total)
    ek = "observable" if criterion == "variance" else rng.choice(["metric", "metric", "observable"])
    vars_ = [rng.choice([0.25, 1.0, 4.0, 1e-6, 100.0]) for _ in range(total)]
    if criterion == "variance" and rng.random() < 0.35:
        # converged / single-sample observables: variance exactly 0, nan (num_samples=1), and impossible values
        for _ in range(rng.choice([1, 1, 2, total])):
            vars_[rng.randrange(total)] = rng.choice([0.0, 0.0, -1.0, float("nan"), float("inf")])
    vkinds = make_kinds(rng, kindmode, total)
    case = {"criterion": criterion, "criterion_str": rng.choice([criterion, criterion.upper(), "  " + criterion.capitalize() + "\n"]),
            "ek": ek, "patience": p, "patience_arg": rng.choice([p, p, p + 0.7]), "pe": pe, "ps": ps, "eval_first": eval_first, "tol": tol,
            "family": family, "kindmode": kindmode, "name": QUANTITY_NAMES[(7 * p + 3 * pe + ps + total + len(family)) % len(QUANTITY_NAMES)],
            "pre": pre, "cands": cands, "vals": vals, "kinds": kinds,
            "vars": vars_, "vkinds": vkinds, "deprecated": deprecated, "valid": True, "aseed": af.new_seed(rng),
            # pos_batch_size of the main fit (4 rows): 1, 2 or 4 batches per epoch; a function of the case (no draw: value streams unchanged)
            "pbs": (4, 2, 1, 3)[(p + pe + ps + n) % 4]}
    if deprecated:
        case["variance_name"], case["vn_how"] = draw_variance_name(case["aseed"])
    if extra:
        case.update(extra)
    return case


def f8_witness():
    """F8 (repaired): relative, Python floats, reference value exactly 0.0 — no exception, no stop at epoch 2, stop at epoch 3"""
    n = 5
    return {"criterion": "relative", "criterion_str": "relative", "ek": "metric", "patience": 1, "patience_arg": 1, "pe": 1, "ps": 1,
            "eval_first": True, "tol": 0.01, "family": "zeros", "kindmode": "py", "name": "Q", "pre": [],
            "cands": [[1 + i, i] for i in range(n)], "vals": [0.0, 5.0, 5.0, 5.0, 5.0], "kinds": ["py"] * n,
            "vars": [1.0] * n, "vkinds": ["py"] * n, "deprecated": False, "valid": True}


def gen_cases(ctx, thorough):
    rng = ctx.rng
    combos = [(c, p, pe, ps, ef, tol) for c in ("relative", "absolute", "variance") for p in (1, 2, 3, 4, 5)
              for pe in (1, 2, 3) for ps in (1, 2, 3) for ef in (True, False) for tol in TOLS]
    if not thorough:
        rng.shuffle(combos)
        combos = combos[:260]
    for i, (c, p, pe, ps, ef, tol) in enumerate(combos):
        fams = FAMILIES if thorough and i % 4 == 0 else [rng.choice(FAMILIES)]
        for fam in fams:
            km = rng.choice(KINDMODES)
            start = rng.choice([1, 1, 1, 0, 2, 5])
            pre_len = rng.choice([0, 0, 0, 2, 4])
            dep = (c == "variance" and rng.random() < 0.3)
            yield mk_case(rng, c, p, pe, ps, ef, tol, fam, km, start=start, pre_len=pre_len, deprecated=dep)
    # twins of the F8 witness in the other kinds (numpy: inf, no exception, no stop at that comparison), both list orders, tol = inf
    for km in ("np", "int", "t0", "py"):
        for ef in (True, False):
            for tol in (0.01, float("inf")):
                w = f8_witness()
                w.update(kinds=[km] * 5, kindmode=km, eval_first=ef, tol=tol, aseed=af.new_seed(rng))
                yield w
    # variance criterion: variance exactly 0 / negative / nan at the reference, Python and numpy kinds, tol = inf
    for v0 in (0.0, -1.0, float("nan")):
        for km in ("py", "np"):
            w = f8_witness()
            w.update(criterion="variance", criterion_str="variance", ek="observable", vals=[1.0, 1.0, 1.0, 1.0, 1.0],
                     vars=[v0, v0, 1.0, 1.0, 1.0], kinds=[km] * 5, vkinds=[km] * 5, kindmode=km, tol=float("inf"), family="constant",
                     aseed=af.new_seed(rng))
            yield w


def ctor_cases(rng):
    """constructor table (malformed stream)"""
    base = mk_case(rng, "absolute", 2, 1, 1, True, 1.0, "constant", "py")
    for ek in ("metric", "observable", "other"):
        for cs in ("variance", " VARIANCE ", "relative", "Absolute\t", "rel", "", "variance s", "relative\x0b", "RELATIVE\x1f"):
            for pa in (2, 2.9, None, "abc"):
                for dep in (False, True):
                    if dep and cs != "variance":
                        continue
                    crit = cs.strip().lower() if cs.strip().lower() in ("relative", "absolute", "variance") else "absolute"
                    if dep:
                        crit = "variance"
                    yield {**base, "ek": ek, "criterion_str": cs, "criterion": crit, "patience_arg": pa, "patience": 2,
                           "deprecated": dep, "valid": False, "variance_name": "whatever" if dep else None}


def run_ctor(ctx, case):
    """constructor table.  The property makes exactly two statements about construction: the variance criterion is refused for plain
    metrics (by EarlyStopping and by the deprecated class), and every configuration inside the quantifier builds.  Only these are
    judged, as REFUSED-OR-NOT (no exception type, no order of checks: DESIGN 13.8 / audit X-1); everything else in the table (unknown
    criterion names, objects that are no evaluators, patience None / 'abc', other spellings, float patience) and the stopper's
    undocumented attributes are informational counters."""
    impl = run_impl(case, ctx)
    ctx.case({"ctor": [case["ek"], case["criterion_str"], repr(case["patience_arg"]), case["deprecated"]]}, nontrivial=True)
    refused = impl.get("where") == "constructor"
    ctx.count("ctor." + (impl.get("error") if refused else "ok"))
    cs = case["criterion_str"].strip().lower()
    pa = case["patience_arg"]
    if case["ek"] == "metric" and (cs == "variance" or case["deprecated"]):
        must = True             # variance criterion + plain metrics: refused (whatever else is wrong with the call)
    elif case["ek"] in ("metric", "observable") and not lenient(case):
        must = False            # a configuration inside the quantifier: builds
    else:
        must = None
    if must is not None:
        ctx.oracle("constructor: the variance criterion (and the deprecated class) is refused for a MetricEvaluator; every configuration "
                   "inside the quantifier builds", refused == must, case, detail={"refused": refused, "expected_refused": must,
                                                                                "exception": impl.get("error") if refused else None},
                   sig="EarlyStopping/constructor-oracle", theorem="C18_variance_refused, C18_deprecated_eq")
    m = None
    if ctx.driver is not None:
        a = model_args(case)
        m = ctx.driver.call("c18.new", **{k: a[k] for k in ("ps", "tol", "patience", "ek", "name", "criterion", "deprecated", "variance_name") if k in a})
        if must is not None:
            ctx.point("ctor.refused", "property", refused, "error" in m, case, exact=True, sig="EarlyStopping/constructor",
                      theorem="C18_variance_refused, C18_deprecated_eq")
        else:
            ctx.count("ctor (outside the property: informational) refused impl/model " +
                      ("agree" if refused == ("error" in m) else f"differ: {impl.get('error') if refused else 'ok'}/{m.get('error', 'ok')}"))
            if refused and "error" in m:
                ctx.count("ctor (informational) exception kind " + ("same as model" if impl.get("error") == m.get("error") else "other than model"))
    if not refused and m is not None and "ok" in m:
        same = [impl["ctor"].get(k) for k in ("criterion", "patience", "period")] == [m["ok"][k] for k in ("criterion", "patience", "period")]
        ctx.count("ctor (informational) stored attributes criterion/patience/period " + ("as in the model" if same else "differ / not readable"))


def deprecated_twin(ctx, case):
    """the deprecated class decides exactly as criterion='variance' on the same input"""
    a = run_impl({**case, "deprecated": False, "criterion_str": "variance"})
    b = run_impl({**case, "deprecated": True})
    keys = ("error", "stop", "last_epoch", "fired")
    ctx.oracle("VarianceBasedEarlyStopping decides as EarlyStopping(criterion='variance')",
               {k: a.get(k) for k in keys} == {k: b.get(k) for k in keys}, case,
               detail={"variance": {k: a.get(k) for k in keys}, "deprecated": {k: b.get(k) for k in keys}},
               sig="EarlyStopping/deprecated-twin", theorem="C18_deprecated_eq")


def gen_tie(ctx):
    """translator tie (notes/translator.md): the deviation formulas and `on_epoch_end` of `EarlyStopping` are re-translated from the
    source of the checked tree into Lean and compared with the committed lean/QV/Gen/EarlyStopping.lean, which
    `C18_gen_deviation_eq_model` / `C18_gen_on_epoch_end_eq_model` prove equal to the model's `deviation` / `onEpochEnd`; a textually
    different translation is re-proved in a scratch copy of the lake project"""
    from . import gentie
    return gentie.tie(ctx, "EarlyStopping", "C18_gen_deviation_eq_model, C18_gen_on_epoch_end_eq_model")


def run(ctx):
    ctx.rule = RULE
    gen_tie(ctx)
    # the F8 witness, on every run
    one_case(ctx, f8_witness(), known_probe=True)
    if ctx.driver is not None:
        words = ["  VaRiance\n", "relative", "\tABSOLUTE ", "x y", "", "\x0bvariance\x1c"]
        ctx.point("normCriterion", "aux", [w.strip().lower() for w in words], ctx.driver.call("c18.norm", strings=words), {"words": words},
                  exact=True, sig="EarlyStopping/strip-lower")
    ndep = 0
    for case in gen_cases(ctx, ctx.tier == "thorough"):
        one_case(ctx, case)
        if case["criterion"] == "variance" and ndep < (60 if ctx.tier == "thorough" else 12):
            deprecated_twin(ctx, case)
            ndep += 1
    for case in deprecated_sweep(ctx.rng):
        one_case(ctx, case)
        deprecated_twin(ctx, case)
    for case in gen_multi(ctx, ctx.tier == "thorough"):
        one_multi(ctx, case)
    for case in gen_sessions(ctx, ctx.tier == "thorough"):
        one_session(ctx, case)
    # a quantity the evaluator does not track (the current code: KeyError out of fit at the first comparison)
    bad = {**f8_witness(), "criterion": "absolute", "criterion_str": "absolute", "vals": [1.0, 2.0, 3.0, 4.0, 5.0],
           "ek": ctx.rng.choice(["metric", "observable"]), "tracked_name": "other", "valid": False}
    impl = run_impl(bad)
    ctx.case({"untracked": True}, nontrivial=True)
    ctx.count("untracked quantity (outside the property: informational): " + str(impl.get("error", "no exception")))
    for case in ctor_cases(ctx.rng):
        run_ctor(ctx, case)


def search(ctx):
    drv, ctx.driver = ctx.driver, None
    try:
        one_case(ctx, f8_witness(), known_probe=True)
        for case in gen_cases(ctx, True):
            one_case(ctx, case)
        for case in deprecated_sweep(ctx.rng):
            one_case(ctx, case)
            deprecated_twin(ctx, case)
        for case in gen_multi(ctx, True):
            one_multi(ctx, case)
        for case in gen_sessions(ctx, True):
            one_session(ctx, case)
        for case in ctor_cases(ctx.rng):
            run_ctor(ctx, case)
    finally:
        ctx.driver = drv


def env_run(ctx, env_name):
    """a handful of cases of every call family under the process-global environment `env_name` (objects built inside it)"""
    rng = random.Random(18000 + len(env_name))
    for c in ("relative", "absolute", "variance"):
        for km in ("py", "np", "t0"):
            one_case(ctx, mk_case(rng, c, rng.choice([1, 2]), rng.choice([1, 2]), 1, True, 1.0, rng.choice(["monotone", "plateau", "zeros"]), km,
                                  deprecated=(c == "variance" and km == "np")))
    for sc in ("two_stoppers", "request_batch_end", "mixed"):
        one_multi(ctx, mk_multi(rng, sc))
    one_multi(ctx, mk_chain(rng))
    for rg in ("one_eval", "several", "mixed"):
        one_session(ctx, mk_session(rng, rg))
    for k, case in enumerate(ctor_cases(rng)):
        if k % 9 == 0:
            run_ctor(ctx, case)


def replay(ctx, case):
    if case.get("session"):
        one_session(ctx, case)
    elif case.get("multi"):
        one_multi(ctx, case)
    elif not case.get("valid", True) and "cands" in case and case.get("ek") in ("metric", "observable", "other") and "criterion_str" in case \
            and not case.get("tracked_name"):
        run_ctor(ctx, case)
    else:
        one_case(ctx, case)
