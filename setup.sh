#!/bin/bash
# Offline setup: (1) optional scipy into .pydeps (training_statistics imports it; a stub is used otherwise),
# (2) build the Lean theorems and the model driver.
set -u
cd "$(dirname "$0")"
if [ ! -d .pydeps/scipy ]; then
  /venv/bin/pip install --quiet --no-index --no-deps --find-links /opt/veriftools/wheels --target .pydeps scipy 2>/dev/null || echo "scipy wheel not installed; harness will stub scipy.linalg"
fi
cd lean && lake build QV qvdriver 2>&1 | grep -v "conda.cli" | tail -5
