#!/usr/bin/env python3
"""Confirm a mutant (patch + demo) in a scratch worktree of /repo and run the registered checks against it.
usage: try_mutant.py <mutant_dir> <seeded_name> [--checks C04,C19] [--no-tests]
Writes /verif/seeded/<seeded_name>/{patch.diff,demo.py,meta.json} with the confirmation results in meta.json."""
import json, os, shutil, subprocess, sys, tempfile, time
src, name = sys.argv[1], sys.argv[2]
checks = None; run_tests = True
for a in sys.argv[3:]:
    if a.startswith("--checks="): checks = a.split("=",1)[1].split(",")
    if a == "--no-tests": run_tests = False
meta = json.load(open(os.path.join(src, "meta.json")))
prop = meta["property"]
checks = checks or [prop]
wt = tempfile.mkdtemp(prefix="cf-", dir="/tmp"); os.rmdir(wt)
def sh(cmd, **kw):
    return subprocess.run(cmd, shell=True, capture_output=True, text=True, **kw)
r = sh(f"git -C /repo worktree add -q --detach {wt} HEAD"); assert r.returncode == 0, r.stderr
res = {"property": prop, "what": meta.get("what"), "needs": meta.get("needs")}
try:
    r = sh(f"git -C {wt} apply {os.path.abspath(src)}/patch.diff")
    res["patch_applies"] = r.returncode == 0
    if r.returncode != 0:
        res["error"] = r.stderr[-500:]
    else:
        env = dict(os.environ, PYTHONDONTWRITEBYTECODE="1")
        d = sh(f"cd {wt} && QV_REPO={wt} PYTHONPATH={wt} /venv/bin/python {os.path.abspath(src)}/demo.py", env=env, timeout=1800)
        res["demo_mutant_exit"] = d.returncode
        d0 = sh(f"cd /repo && QV_REPO=/repo PYTHONPATH=/repo /venv/bin/python {os.path.abspath(src)}/demo.py", env=env, timeout=1800)
        res["demo_clean_exit"] = d0.returncode
        if run_tests:
            t = sh(f"cd {wt} && /venv/bin/python -m pytest -q -p no:cacheprovider --timeout=900 --continue-on-collection-errors 2>&1 | tail -1", env=env, timeout=3600)
            res["tests"] = t.stdout.strip()[-120:]
            res["tests_pass"] = "245 passed" in t.stdout and "failed" not in t.stdout
        res["checks"] = {}
        for c in checks:
            t0 = time.time()
            k = sh(f"cd /verif && QV_REPO={wt} VERIF_SEED=0 ./check {c} quick", timeout=3600)
            viol = [l for l in k.stdout.splitlines() if l.startswith("VIOLATION")]
            res["checks"][c] = {"exit": k.returncode, "violation_line": viol[0] if viol else None, "wall_s": round(time.time()-t0,1)}
            if k.returncode != 1 and c == prop:
                k2 = sh(f"cd /verif && QV_REPO={wt} VERIF_SEED=0 ./check {c} thorough", timeout=7200)
                viol = [l for l in k2.stdout.splitlines() if l.startswith("VIOLATION")]
                res["checks"][c + ":thorough"] = {"exit": k2.returncode, "violation_line": viol[0] if viol else None}
finally:
    sh(f"git -C /repo worktree remove --force {wt}")
out = f"/verif/seeded/{name}"
os.makedirs(out, exist_ok=True)
prev = None
if os.path.exists(os.path.join(out, "meta.json")):
    prev = json.load(open(os.path.join(out, "meta.json")))
    pc = prev.get("confirmed", {})
    if not run_tests:
        res["tests"] = pc.get("tests"); res["tests_pass"] = pc.get("tests_pass")
    # remember the first verdict (before any strengthening of the checks)
    meta["first_result"] = prev.get("first_result", {k: v.get("exit") for k, v in pc.get("checks", {}).items()})
    if prev.get("strengthened"):
        meta["strengthened"] = prev["strengthened"]
for f in ("patch.diff", "demo.py"):
    shutil.copy(os.path.join(src, f), os.path.join(out, f))
meta.update({"confirmed": res, "ran": "tools/try_mutant.py: patch applied in a scratch worktree of /repo; demo on mutant and on clean /repo; full pytest on mutant; ./check <id> quick (thorough if quick missed) with QV_REPO=<scratch>"})
json.dump(meta, open(os.path.join(out, "meta.json"), "w"), indent=1)
caught = any(v["exit"] == 1 for v in res.get("checks", {}).values())
print(name, prop, "demo", res.get("demo_mutant_exit"), res.get("demo_clean_exit"), "tests", res.get("tests_pass"), "CAUGHT" if caught else "MISSED", json.dumps(res.get("checks")))
