#!/usr/bin/env python3
"""benign/RESULTS.txt (written by tools/run_benign_all.sh) + benign/<id>/meta.json -> benign/README.md"""
import glob, json, os, re
res = {}
for l in open("/verif/benign/RESULTS.txt"):
    m = re.match(r"(\S+) (C\d\d) (.*)", l.strip())
    if m:
        res[m.group(1)] = m.group(3)
rows = []
for d in sorted(glob.glob("/verif/benign/C*_*")) + sorted(glob.glob("/verif/benign/B2_C*_*")) + sorted(glob.glob("/verif/benign/B3_C*_*")):
    n = os.path.basename(d)
    m = json.load(open(d + "/meta.json"))
    r = res.get(n, "not run")
    if "exit=0" in r:
        v = "quiet (exit 0)"
    elif "no-failing-input-found" in r:
        v = "broken correspondence reported: `VIOLATION ... no-failing-input-found` (no property mismatch, no replayable input)"
    elif "DOES-NOT-APPLY" in r:
        v = "patch does not apply to the current tree"
    else:
        v = "ALARM: " + r[:80]
    if m.get("integrator_note"):
        v = "alarm is CORRECT (rewrite not harmless): " + m["integrator_note"][:300]
    what = m.get("what", "").replace("|", "/").replace("\n", " ")[:260]
    rows.append(f"| {n} | {m['property']} | {'yes' if m.get('rng_changed') else ''} | {what} | {v} |")
out = ["# Harmless rewrites (false-alarm suite)", "",
       "Each directory: patch.diff (a realistic rewrite of the anchored code under which the property still holds as stated; written by",
       "sub-agents who saw only the property texts; the package's 245 tests pass with it) and meta.json (what / why harmless). `Cxx_k` = first",
       "round, `B2_Cxx_k` = second round (written after the corrections of the first round, other kinds of rewrite: unseen by the checks); `B3_Cxx_k` = third round (after the extension rounds brought the glue code into the model: rewrites of argument normalisation, container / dtype conversion, naming, printing, path handling).",
       "`tools/try_benign.sh benign/<id>` applies one in a scratch worktree of /repo and runs the property's quick check;",
       "`tools/run_benign_all.sh` runs all and writes RESULTS.txt; this table is `tools/benign_table.py`. Expected: exit 0. A rewrite marked",
       "rng_changed consumes random numbers in another (distributionally identical) way: the scripted-stream correspondence cannot be applied",
       "to it, which the check reports as a broken correspondence with no failing input (the sanctioned verdict when the model can no longer",
       "be tied to the code); it must never produce a property-level mismatch.", "",
       "| id | property | rng_changed | rewrite | verdict of `./check <property> quick` |", "|---|---|---|---|---|"] + rows
open("/verif/benign/README.md", "w").write("\n".join(out) + "\n")
print(len(rows), "rows;", sum("quiet" in r for r in rows), "quiet")
