#!/bin/bash
# usage: quick_mut.sh <mutant_dir> <check id> [tier]  — apply patch in a scratch worktree, run one check with QV_REPO, clean up
d=$1; c=$2; t=${3:-quick}
wt=$(mktemp -d -u /tmp/qm-XXXX)
git -C /repo worktree add -q --detach $wt HEAD && git -C $wt apply $d/patch.diff && (cd /verif && QV_REPO=$wt ./check $c $t | grep -v "^KNOWN" | tail -2 | cut -c1-200)
git -C /repo worktree remove --force $wt
