#!/bin/bash
# run every stored harmless rewrite (benign/<id>) against the quick tier of its property; writes benign/RESULTS.txt
cd /verif
ls -d benign/C*_* benign/B2_C*_* benign/B3_C*_* | xargs -P ${P:-5} -n1 tools/try_benign.sh 2>&1 | grep -v conda | sort > benign/RESULTS.txt
grep -c "exit=0" benign/RESULTS.txt
grep -v "exit=0" benign/RESULTS.txt | cut -c1-200
