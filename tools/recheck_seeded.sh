#!/bin/bash
# usage: recheck_seeded.sh <seeded dir>  — apply the stored patch in a scratch worktree of /repo, run the property's quick check
# (thorough if quick misses) with QV_REPO pointing at it, print one line, clean up.  Never touches /repo's working tree.
d=$(readlink -f $1)
c=$(python3 -c "
import json;m=json.load(open('$d/meta.json'));print(m.get('property') or m['breaks'][0])")
wt=$(mktemp -d -u /tmp/qm-XXXX)
git -C /repo worktree add -q --detach $wt HEAD || { echo "$(basename $d) $c WORKTREE-FAIL"; exit 0; }
if ! git -C $wt apply $d/patch.diff 2>/dev/null; then
  echo "$(basename $d) $c PATCH-DOES-NOT-APPLY"
else
  (cd /verif && QV_REPO=$wt VERIF_SEED=0 ./check $c quick >/tmp/rs-$$.out 2>&1); e=$?
  tier=quick
  if [ $e -ne 1 ]; then (cd /verif && QV_REPO=$wt VERIF_SEED=0 ./check $c thorough >/tmp/rs-$$.out 2>&1); e=$?; tier=thorough; fi
  v=$(grep -c '^VIOLATION' /tmp/rs-$$.out)
  echo "$(basename $d) $c tier=$tier exit=$e violation_lines=$v"
  rm -f /tmp/rs-$$.out
fi
git -C /repo worktree remove --force $wt
