#!/usr/bin/env python3
"""py2lean — translate a fixed list of scalar arithmetic kernels of QuCumber from their Python SOURCE (via `ast`) into Lean
definitions over `QV.Gen.Prelude` (lean/QV/Gen/Prelude.lean).  Pure stdlib, deterministic (same source -> byte-identical output).

    python3 tools/py2lean.py [--out DIR] [--only NAME]        QV_REPO (default /repo) is the tree that is read

writes DIR/<Name>.lean for every target module (default DIR = <this tree>/lean/QV/Gen).
Exit codes: 0 = written; 3 = "unsupported: <node> at <file:line>" (the source left the translatable subset: NOT a verdict);
4 = a target function / class is not there under its name (renamed / inlined: not a verdict either).

Subset (see notes/translator.md): arithmetic `+ - * / % ** 2`, unary minus, comparisons (also chained), `and or not`, conditional
expressions, `if/else` statements, `return`, local (re)assignments and augmented assignments (emitted as shadowing `let`s),
tuple / dict return values, `abs`, `float(x)`, `float("nan")`, `np|math|torch.sqrt`, `np.divide`, `len(<declared attribute>)`,
`with np.errstate(...)` (transparent), tensor-method chains `.mul .add .sub .div`, reads of declared `self.<attr>`, calls of declared
getters and of sibling translated methods, assignments to declared state attributes (the function then returns the tuple of their
final values).  Types (`int`, `float`, `bool`) are inferred from the declared parameter types; an `int` operand of a float
operation is converted (`fint`).
"""
import ast
import os
import sys

HERE = os.path.dirname(os.path.abspath(__file__))


class Unsupported(Exception):
    def __init__(self, node, what=None):
        self.node = node
        self.what = what or type(node).__name__


class Missing(Exception):
    pass


def camel(s):
    parts = [p for p in s.strip("_").split("_") if p]
    return parts[0] + "".join(p[:1].upper() + p[1:] for p in parts[1:])


LEAN_TYPE = {"int": "Int", "float": "Fl α", "bool": "Bool", "optint": "Option Int"}

# ------------------------------------------------------------------------------------------------ target list
# params: positional parameters of the Python function (name -> type), in the source's order (checked against the source)
# attrs:  `self.<attr>` reads -> (lean parameter name, type)
# lens:   `len(self.<attr>)` -> (lean parameter name)
# getters: `self.<g>(self.quantity_name[, idx])` -> lean function parameter `g : Option Int → Fl α`
# opaque: `self.<m>()` -> lean parameter (dynamic dispatch, instantiated by the bridge theorem)
# state:  assigned attributes `<obj>.<attr>` -> (lean name, type); the function returns the tuple of their final values
TARGETS = [
    {
        "name": "UpdateStatistics",
        "file": "qucumber/observables/utils.py",
        "cls": None,
        "funcs": [
            {"py": "_update_statistics",
             "params": [("avg_a", "float"), ("var_a", "float"), ("len_a", "int"), ("avg_b", "float"), ("var_b", "float"), ("len_b", "int")]},
        ],
    },
    {
        "name": "EarlyStopping",
        "file": "qucumber/callbacks/early_stopping.py",
        "cls": "EarlyStopping",
        "attrs": {"patience": ("patience", "int"), "period": ("period", "int"), "tolerance": ("tolerance", "float")},
        "lens": {"evaluator_callback": "evaluatorLen"},
        "getters": {"value_getter": "valueGetter", "variance_getter": "varianceGetter"},
        "opaque": {"deviation": ("deviation", "float")},
        "state": {("nn_state", "stop_training"): ("stopTraining", "bool"), ("self", "last_epoch"): ("lastEpoch", "optint")},
        "funcs": [
            {"py": "_change_in_metric", "params": []},
            {"py": "_relative_change", "params": []},
            {"py": "_absolute_change", "params": []},
            {"py": "_variance_scaled_abs_change", "params": []},
            {"py": "on_epoch_end", "params": [("nn_state", "object"), ("epoch", "int")]},
        ],
    },
    {
        "name": "SpinConv",
        "file": "qucumber/observables/utils.py",
        "cls": None,
        "funcs": [
            {"py": "to_pm1", "params": [("samples", "float")]},
            {"py": "to_01", "params": [("samples", "float")]},
        ],
    },
]

SQRT_MODS = ("np", "numpy", "math", "torch")


class Fn:
    """translation of one function"""

    def __init__(self, tgt, spec, node, done):
        self.tgt = tgt
        self.spec = spec
        self.node = node
        self.done = done  # already translated sibling functions: py name -> Fn
        self.extra = []   # implicit lean parameters (name, lean type) in order of first use
        self.state = []   # state variables used (lean name, type) in declaration order
        self.ret_type = None

    # -------------------------------------------------------------- implicit parameters
    def need(self, name, lty):
        if (name, lty) not in self.extra:
            if any(n == name for n, _ in self.extra):
                raise Unsupported(self.node, f"parameter {name} used at two types")
            self.extra.append((name, lty))
        return name

    # -------------------------------------------------------------- coercions
    def to_float(self, e, t, node):
        if t == "float":
            return e
        if t == "int":
            return f"(fint {e})"
        raise Unsupported(node, f"{t} used as a float")

    def unify(self, a, ta, b, tb, node):
        if ta == tb:
            return a, b, ta
        if {ta, tb} == {"int", "float"}:
            return self.to_float(a, ta, node), self.to_float(b, tb, node), "float"
        if ta == "optint" and tb == "int":
            return a, f"(some {b})", "optint"
        if ta == "int" and tb == "optint":
            return f"(some {a})", b, "optint"
        raise Unsupported(node, f"branches of types {ta} / {tb}")

    # -------------------------------------------------------------- expressions
    def expr(self, n, env):
        if isinstance(n, ast.Constant):
            v = n.value
            if isinstance(v, bool):
                return ("true" if v else "false"), "bool"
            if isinstance(v, int):
                return f"({v} : Int)", "int"
            if isinstance(v, float) and v == int(v) and abs(v) < 2 ** 31:
                return f"(fint {int(v)})", "float"
            if isinstance(v, float) and v == v and abs(v) < 2 ** 31:
                num, den = v.as_integer_ratio()  # every finite float is a dyadic rational: exact
                if den <= 2 ** 20:
                    return f"(fdiv (fint {num}) (fint {den}))", "float"
            raise Unsupported(n, f"constant {v!r}")
        if isinstance(n, ast.Name):
            if n.id in env:
                return env[n.id]
            raise Unsupported(n, f"free name {n.id}")
        if isinstance(n, ast.Attribute):
            if isinstance(n.value, ast.Name) and n.value.id == "self" and n.attr in self.tgt.get("attrs", {}):
                nm, ty = self.tgt["attrs"][n.attr]
                return self.need(nm, LEAN_TYPE[ty]), ty
            raise Unsupported(n, f"attribute {ast.unparse(n)}")
        if isinstance(n, ast.UnaryOp):
            a, ta = self.expr(n.operand, env)
            if isinstance(n.op, ast.USub):
                if ta == "int":
                    return f"(-{a})", "int"
                if ta == "float":
                    return f"(fneg {a})", "float"
            if isinstance(n.op, ast.UAdd) and ta in ("int", "float"):
                return a, ta
            if isinstance(n.op, ast.Not) and ta == "bool":
                return f"(!{a})", "bool"
            raise Unsupported(n, f"unary {type(n.op).__name__} on {ta}")
        if isinstance(n, ast.BinOp):
            return self.binop(n, env)
        if isinstance(n, ast.BoolOp):
            parts = []
            for v in n.values:
                e, t = self.expr(v, env)
                if t != "bool":
                    raise Unsupported(v, f"{t} used as a condition")
                parts.append(e)
            op = " && " if isinstance(n.op, ast.And) else " || "
            return "(" + op.join(parts) + ")", "bool"
        if isinstance(n, ast.Compare):
            return self.compare(n, env)
        if isinstance(n, ast.IfExp):
            c = self.cond(n.test, env)
            a, ta = self.expr(n.body, env)
            b, tb = self.expr(n.orelse, env)
            a, b, t = self.unify(a, ta, b, tb, n)
            return f"(if {c} then {a} else {b})", t
        if isinstance(n, ast.Call):
            return self.call(n, env)
        if isinstance(n, ast.Tuple):
            es = [self.expr(x, env) for x in n.elts]
            return "(" + ", ".join(e for e, _ in es) + ")", tuple(t for _, t in es)
        if isinstance(n, ast.Dict):
            if not all(isinstance(k, ast.Constant) and isinstance(k.value, str) for k in n.keys):
                raise Unsupported(n, "dict with non-literal keys")
            es = [self.expr(x, env) for x in n.values]
            return "(" + ", ".join(e for e, _ in es) + ")", tuple(t for _, t in es)
        raise Unsupported(n)

    def cond(self, n, env):
        e, t = self.expr(n, env)
        if t != "bool":
            raise Unsupported(n, f"{t} used as a condition")
        return e

    def binop(self, n, env):
        a, ta = self.expr(n.left, env)
        if isinstance(n.op, ast.Pow):
            if isinstance(n.right, ast.Constant) and n.right.value == 2 and not isinstance(n.right.value, bool):
                if ta == "int":
                    return f"({a} * {a})", "int"
                if ta == "float":
                    return f"(fmul {a} {a})", "float"
            raise Unsupported(n, "power other than ** 2")
        b, tb = self.expr(n.right, env)
        if ta not in ("int", "float") or tb not in ("int", "float"):
            raise Unsupported(n, f"arithmetic on {ta} / {tb}")
        if isinstance(n.op, ast.Div):
            return f"(fdiv {self.to_float(a, ta, n)} {self.to_float(b, tb, n)})", "float"
        if isinstance(n.op, ast.Mod):
            if ta == tb == "int":
                return f"(Int.fmod {a} {b})", "int"
            raise Unsupported(n, "% on floats")
        sym = {ast.Add: ("+", "fadd"), ast.Sub: ("-", "fsub"), ast.Mult: ("*", "fmul")}.get(type(n.op))
        if sym is None:
            raise Unsupported(n, f"operator {type(n.op).__name__}")
        if ta == tb == "int":
            return f"({a} {sym[0]} {b})", "int"
        return f"({sym[1]} {self.to_float(a, ta, n)} {self.to_float(b, tb, n)})", "float"

    def compare(self, n, env):
        operands = [self.expr(x, env) for x in [n.left] + n.comparators]
        parts = []
        for i, op in enumerate(n.ops):
            (a, ta), (b, tb) = operands[i], operands[i + 1]
            if ta == tb == "int":
                tab = {ast.Lt: f"decide ({a} < {b})", ast.Gt: f"decide ({b} < {a})", ast.LtE: f"decide ({a} ≤ {b})",
                       ast.GtE: f"decide ({b} ≤ {a})", ast.Eq: f"({a} == {b})", ast.NotEq: f"({a} != {b})"}
            elif ta in ("int", "float") and tb in ("int", "float"):
                a, b = self.to_float(a, ta, n), self.to_float(b, tb, n)
                tab = {ast.Lt: f"flt {a} {b}", ast.Gt: f"fgt {a} {b}", ast.Eq: f"feq {a} {b}"}
            elif ta == tb == "bool":
                tab = {ast.Eq: f"({a} == {b})", ast.NotEq: f"({a} != {b})"}
            else:
                raise Unsupported(n, f"comparison of {ta} / {tb}")
            if type(op) not in tab:
                raise Unsupported(n, f"comparison {type(op).__name__} on {ta}")
            parts.append("(" + tab[type(op)] + ")")
        return parts[0] if len(parts) == 1 else "(" + " && ".join(parts) + ")", "bool"

    def call(self, n, env):
        f = n.func
        if n.keywords:
            raise Unsupported(n, "keyword arguments")
        if isinstance(f, ast.Name):
            if f.id == "float" and len(n.args) == 1:
                x = n.args[0]
                if isinstance(x, ast.Constant) and isinstance(x.value, str):
                    if x.value.strip().lower() == "nan":
                        return "(none : Fl α)", "float"
                    raise Unsupported(n, f"float({x.value!r})")
                a, ta = self.expr(x, env)
                return self.to_float(a, ta, n), "float"
            if f.id == "abs" and len(n.args) == 1:
                a, ta = self.expr(n.args[0], env)
                if ta == "float":
                    return f"(fabs {a})", "float"
                if ta == "int":
                    return f"(Int.ofNat (Int.natAbs {a}))", "int"
            if f.id == "len" and len(n.args) == 1:
                x = n.args[0]
                if isinstance(x, ast.Attribute) and isinstance(x.value, ast.Name) and x.value.id == "self" \
                        and x.attr in self.tgt.get("lens", {}):
                    return self.need(self.tgt["lens"][x.attr], "Int"), "int"
            raise Unsupported(n, f"call of {f.id}")
        if isinstance(f, ast.Attribute):
            base = f.value
            if isinstance(base, ast.Name) and base.id in SQRT_MODS and f.attr == "sqrt" and len(n.args) == 1:
                a, ta = self.expr(n.args[0], env)
                return f"(fsqrt {self.to_float(a, ta, n)})", "float"
            if isinstance(base, ast.Name) and base.id in ("np", "numpy") and f.attr in ("divide", "true_divide") and len(n.args) == 2:
                a, ta = self.expr(n.args[0], env)
                b, tb = self.expr(n.args[1], env)
                return f"(fdiv {self.to_float(a, ta, n)} {self.to_float(b, tb, n)})", "float"
            if isinstance(base, ast.Name) and base.id == "self":
                if f.attr in self.tgt.get("getters", {}):
                    g = self.need(self.tgt["getters"][f.attr], "Option Int → Fl α")
                    args = n.args
                    if not args or ast.unparse(args[0]) != "self.quantity_name" or len(args) > 2:
                        raise Unsupported(n, "getter called with other arguments than (self.quantity_name[, index])")
                    if len(args) == 1:
                        return f"({g} none)", "float"
                    i, ti = self.expr(args[1], env)
                    if ti != "int":
                        raise Unsupported(n, "getter index is not an int")
                    return f"({g} (some {i}))", "float"
                if f.attr in self.tgt.get("opaque", {}) and not n.args:
                    nm, ty = self.tgt["opaque"][f.attr]
                    return self.need(nm, LEAN_TYPE[ty]), ty
                if f.attr in self.done and not n.args:
                    sib = self.done[f.attr]
                    for nm, lty in sib.extra:
                        self.need(nm, lty)
                    return "(" + " ".join([sib.lean_name] + [nm for nm, _ in sib.extra]) + ")", sib.ret_type
                raise Unsupported(n, f"call of self.{f.attr}")
            # tensor-method chain on a float: x.mul(c) ...
            if f.attr in ("mul", "add", "sub", "div") and len(n.args) == 1:
                a, ta = self.expr(base, env)
                b, tb = self.expr(n.args[0], env)
                if ta == "float" and tb in ("int", "float"):
                    op = {"mul": "fmul", "add": "fadd", "sub": "fsub", "div": "fdiv"}[f.attr]
                    return f"({op} {a} {self.to_float(b, tb, n)})", "float"
            raise Unsupported(n, f"call of {ast.unparse(f)}")
        raise Unsupported(n, "call")

    # -------------------------------------------------------------- statements
    def state_key(self, tgt_node):
        if isinstance(tgt_node, ast.Attribute) and isinstance(tgt_node.value, ast.Name):
            return (tgt_node.value.id, tgt_node.attr)
        return None

    def block(self, stmts, env, ind):
        """returns (lean term, type) of `stmts` followed by the implicit end of the function"""
        pad = "  " * ind
        if not stmts:
            if not self.state:
                raise Unsupported(self.node, "function can end without a return value")
            vals = [env["$" + nm] for nm, _ in self.state]
            return "(" + ", ".join(e for e, _ in vals) + ")", tuple(t for _, t in self.state)
        s, rest = stmts[0], stmts[1:]
        if isinstance(s, ast.Expr) and isinstance(s.value, ast.Constant) and isinstance(s.value.value, str):
            return self.block(rest, env, ind)  # docstring
        if isinstance(s, ast.Pass):
            return self.block(rest, env, ind)
        if isinstance(s, ast.Return):
            if s.value is None:
                return self.block([], env, ind)
            if self.state:
                raise Unsupported(s, "return of a value in a function that assigns state attributes")
            return self.expr(s.value, env)
        if isinstance(s, ast.With):
            for it in s.items:
                ce = it.context_expr
                if not (isinstance(ce, ast.Call) and ast.unparse(ce.func) in ("np.errstate", "numpy.errstate")) or it.optional_vars:
                    raise Unsupported(s, "with-statement other than np.errstate(...)")
            return self.block(list(s.body) + rest, env, ind)
        if isinstance(s, ast.If):
            c = self.cond(s.test, env)
            a, ta = self.block(list(s.body) + rest, dict(env), ind + 1)
            b, tb = self.block(list(s.orelse) + rest, dict(env), ind + 1)
            if ta != tb:
                raise Unsupported(s, f"branches return {ta} / {tb}")
            return f"if {c} then\n{pad}  {a}\n{pad}else\n{pad}  {b}", ta
        if isinstance(s, (ast.Assign, ast.AugAssign)):
            if isinstance(s, ast.Assign):
                if len(s.targets) != 1:
                    raise Unsupported(s, "multiple assignment")
                tnode, value = s.targets[0], s.value
            else:
                tnode = s.target
                value = ast.BinOp(left=ast.Name(id=getattr(tnode, "id", "?"), ctx=ast.Load()), op=s.op, right=s.value)
                ast.copy_location(value, s)
                ast.fix_missing_locations(value)
            key = self.state_key(tnode)
            if isinstance(tnode, ast.Name):
                e, t = self.expr(value, env)
                if isinstance(t, tuple):
                    raise Unsupported(s, "tuple-valued local")
                nm = camel(tnode.id)
                env2 = dict(env)
                env2[tnode.id] = (nm, t)
                r, tr = self.block(rest, env2, ind)
                return f"let {nm} : {LEAN_TYPE[t]} := {e}\n{pad}{r}", tr
            if key is not None and key in self.tgt.get("state", {}) and isinstance(s, ast.Assign):
                nm, ty = self.tgt["state"][key]
                e, t = self.expr(value, env)
                if t != ty:
                    if ty == "optint" and t == "int":
                        e = f"(some {e})"
                    else:
                        raise Unsupported(s, f"{t} stored in a {ty} attribute")
                env2 = dict(env)
                env2["$" + nm] = (nm, ty)
                r, tr = self.block(rest, env2, ind)
                return f"let {nm} : {LEAN_TYPE[ty]} := {e}\n{pad}{r}", tr
            raise Unsupported(s, f"assignment to {ast.unparse(tnode)}")
        raise Unsupported(s)

    def translate(self):
        node, spec = self.node, self.spec
        self.lean_name = camel(spec["py"])
        args = [a.arg for a in node.args.args]
        if self.tgt.get("cls"):
            if not args or args[0] != "self":
                raise Unsupported(node, "method without self")
            args = args[1:]
        if node.args.vararg or node.args.kwarg or node.args.kwonlyargs or node.args.defaults:
            raise Unsupported(node, "parameter list with defaults / varargs")
        if args != [p for p, _ in spec["params"]]:
            raise Unsupported(node, f"parameter list {args} (declared: {[p for p, _ in spec['params']]})")
        env = {}
        params = []
        for p, ty in spec["params"]:
            if ty == "object":
                continue
            env[p] = (camel(p), ty)
            params.append((camel(p), LEAN_TYPE[ty]))
        # state attributes assigned anywhere in the body
        assigned = set()
        for sub in ast.walk(node):
            if isinstance(sub, (ast.Assign, ast.AugAssign)):
                for t in (sub.targets if isinstance(sub, ast.Assign) else [sub.target]):
                    k = self.state_key(t)
                    if k is not None and k in self.tgt.get("state", {}):
                        assigned.add(k)
        for k, (nm, ty) in self.tgt.get("state", {}).items():
            if k in assigned:
                self.state.append((nm, ty))
                env["$" + nm] = (nm + "0", ty)
        body, rt = self.block(list(node.body), env, 1)
        self.ret_type = rt
        # implicit parameters in the DECLARATION order of the target (not in the order of first use, which a rewrite may change)
        order = list(self.tgt.get("getters", {}).values()) + [nm for nm, _ in self.tgt.get("attrs", {}).values()] \
            + list(self.tgt.get("lens", {}).values()) + [nm for nm, _ in self.tgt.get("opaque", {}).values()]
        self.extra.sort(key=lambda e: order.index(e[0]))
        allp = params + self.extra + [(nm + "0", LEAN_TYPE[ty]) for nm, ty in self.state]
        sig = " ".join(f"({nm} : {lty})" for nm, lty in allp)

        def lt(t):
            return " × ".join(LEAN_TYPE[x] for x in t) if isinstance(t, tuple) else LEAN_TYPE[t]

        where = self.tgt["file"] + "::" + ((self.tgt["cls"] + ".") if self.tgt.get("cls") else "") + spec["py"]
        doc = f"/-- generated from `{where}`"
        if self.state:
            doc += "; returns the final values of (" + ", ".join(nm for nm, _ in self.state) + "), `<name>0` = value on entry"
        doc += " -/"
        return f"{doc}\ndef {self.lean_name}{(' ' + sig) if sig else ''} : {lt(rt)} :=\n  {body}\n"


HEADER = """/-
GENERATED by tools/py2lean.py from `{file}` — DO NOT EDIT.
Regenerated from the source of the checked tree on every `./check` run (harness gen_tie) and compared with this committed copy;
tied to the hand-written model by the kernel-checked theorems of QV/GenBridge/{name}.lean.
Meaning of the operations: QV/Gen/Prelude.lean.
-/
import QV.Gen.Prelude

namespace QV.Gen.{name}

variable {{α : Type}} [Add α] [Mul α] [Neg α] [Sub α] [Div α] [Zero α] [One α] [BEq α] [LT α] [DecidableLT α] [Transc α]

"""


def find_func(tree, cls, name):
    scope = tree.body
    if cls:
        c = [x for x in tree.body if isinstance(x, ast.ClassDef) and x.name == cls]
        if not c:
            raise Missing(f"class {cls}")
        scope = c[0].body
    f = [x for x in scope if isinstance(x, ast.FunctionDef) and x.name == name]
    if not f:
        raise Missing(f"function {name}")
    return f[0]


def translate_target(repo, tgt):
    path = os.path.join(repo, tgt["file"])
    try:
        src = open(path, encoding="utf-8").read()
    except OSError:
        raise Missing(f"file {tgt['file']}")
    tree = ast.parse(src)
    out = HEADER.format(file=tgt["file"], name=tgt["name"])
    done = {}
    for spec in tgt["funcs"]:
        node = find_func(tree, tgt.get("cls"), spec["py"])
        fn = Fn(tgt, spec, node, done)
        try:
            out += fn.translate() + "\n"
        except Unsupported as u:
            u.file = tgt["file"]
            raise
        done[spec["py"]] = fn
    out += f"end QV.Gen.{tgt['name']}\n"
    return out


def main(argv):
    out_dir = os.path.join(os.path.dirname(HERE), "lean", "QV", "Gen")
    only = None
    i = 0
    while i < len(argv):
        if argv[i] == "--out":
            out_dir = argv[i + 1]
            i += 2
        elif argv[i] == "--only":
            only = argv[i + 1]
            i += 2
        else:
            print(__doc__)
            return 2
    repo = os.environ.get("QV_REPO", "/repo")
    os.makedirs(out_dir, exist_ok=True)
    for tgt in TARGETS:
        if only and tgt["name"] != only:
            continue
        try:
            text = translate_target(repo, tgt)
        except Unsupported as u:
            line = getattr(u.node, "lineno", "?")
            print(f"unsupported: {u.what} at {getattr(u, 'file', tgt['file'])}:{line}")
            return 3
        except Missing as m:
            print(f"missing: {m} in {tgt['file']}")
            return 4
        with open(os.path.join(out_dir, tgt["name"] + ".lean"), "w", encoding="utf-8") as f:
            f.write(text)
    return 0


if __name__ == "__main__":
    sys.exit(main(sys.argv[1:]))
