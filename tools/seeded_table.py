#!/usr/bin/env python3
"""Generates seeded/README.md (and prints a condensed table) from seeded/*/meta.json"""
import json, glob, os
rows=[]
for d in sorted(glob.glob('/verif/seeded/*')):
    if not os.path.isdir(d): continue
    m=json.load(open(d+'/meta.json'))
    name=os.path.basename(d)
    if name.startswith('F'):
        rows.append((name, ",".join(m['breaks']), m['origin'], m.get('needs','')[:160], m.get('rechecked','reported as VIOLATION by the quick tier (tools/recheck_seeded.sh)'), ''))
    else:
        c=m.get('confirmed',{})
        chk=c.get('checks',{})
        caught=[k for k,v in chk.items() if v.get('exit')==1]
        note=m.get('strengthened','')
        fr=m.get('first_result')
        if fr is not None and not any(v==1 for v in fr.values()) and caught:
            note=("first verdict: MISSED. "+note).strip()
        res=("caught by ./check "+", ".join(caught)) if caught else "MISSED"
        if m.get('superseded'):
            res="no longer a breaking change"; note=m['superseded']
        if m.get('rebased'):
            note=(note+" ["+m['rebased']+"]").strip()
        rows.append((name, m['property'], m.get('what','')[:200], m.get('needs','')[:200], res, note))
out=["# Seeded changes (mutants)\n","Each directory: patch.diff, demo.py (exit 0 on the clean tree, 1 on the mutant; absent for F*_revert), meta.json.\n",
     "| id | property | change | needs to manifest | result | note |","|---|---|---|---|---|---|"]
for r in rows:
    out.append("| "+" | ".join(x.replace("|","/").replace("\n"," ") for x in r)+" |")
open('/verif/seeded/README.md','w').write("\n".join(out)+"\n")
print(len(rows),"rows")
