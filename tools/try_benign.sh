#!/bin/bash
# usage: try_benign.sh <dir with patch.diff + meta.json> [tier]
# Applies a HARMLESS rewrite (property still holds) in a scratch worktree of /repo and runs the property's check with QV_REPO
# pointing at it.  Expected: exit 0 (quiet).  Prints one line; never touches /repo's working tree.
d=$(readlink -f $1); t=${2:-quick}
c=$(python3 -c "import json;print(json.load(open('$d/meta.json'))['property'])")
wt=$(mktemp -d -u /tmp/qb-XXXX)
git -C /repo worktree add -q --detach $wt ${BASE:-HEAD} || { echo "$(basename $(dirname $d))/$(basename $d) $c WORKTREE-FAIL"; exit 0; }
if ! git -C $wt apply $d/patch.diff 2>/dev/null && ! git -C $wt apply --3way $d/patch.diff >/dev/null 2>&1; then
  echo "$(basename $d) $c PATCH-DOES-NOT-APPLY"
else
  out=/tmp/qb-$$.out
  (cd /verif && QV_REPO=$wt VERIF_SEED=${VERIF_SEED:-0} ./check $c $t >$out 2>&1); e=$?
  v=$(grep '^VIOLATION' $out | head -1)
  echo "$(basename $d) $c tier=$t exit=$e $(grep -c '^VIOLATION' $out) ${v:0:160} :: $(tail -1 $out | cut -c1-150)"
  rm -f $out
fi
git -C /repo worktree remove --force $wt
