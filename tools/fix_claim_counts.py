#!/usr/bin/env python3
"""Bring the leading 'N Lean theorems' of every claims.d/Cxx.json text in line with the number of audited theorems recorded in
evidence/Cxx.json (key `coverage.obligations`), after merges of work packages that each edited the count. Run before tools_gen_manifest.py."""
import json, re, glob, os
for p in sorted(glob.glob('/verif/claims.d/C*.json')):
    cid = os.path.basename(p)[:-5]
    ev = json.load(open(f'/verif/evidence/{cid}.json'))
    n = ev['coverage']['obligations']
    c = json.load(open(p))
    new, k = re.subn(r'^\d+( Lean theorems)', f'{n}\\1', c['text'])
    if k and new != c['text']:
        print(cid, c['text'][:20], '->', new[:20]); c['text'] = new
        json.dump(c, open(p, 'w'), indent=1, ensure_ascii=False); open(p, 'a').write('\n')
    elif not k:
        print(cid, 'no leading count:', c['text'][:40])
