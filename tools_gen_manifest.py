#!/usr/bin/env python3
"""Regenerates MANIFEST.json from the table below (kept in one place so it is always valid)."""
import json, os
HERE = os.path.dirname(os.path.abspath(__file__))
BASELINE = "cd /repo && /venv/bin/python -m pytest -ra -q -p no:cacheprovider --timeout=900 --continue-on-collection-errors"
CLAIMED = {}
for f in sorted(os.listdir(os.path.join(HERE, "claims.d"))):
    if f.endswith(".json"):
        CLAIMED[f[:-5]] = json.load(open(os.path.join(HERE, "claims.d", f)))
props = [json.loads(l) for l in open(os.path.join(HERE, "properties.jsonl"))]
checks, na = [], []
for p in props:
    pid = p["id"]
    c = CLAIMED.get(pid)
    if c and c.get("claimed"):
        checks.append({
            "property_id": pid,
            "quick_cmd": f"./check {pid} quick",
            "thorough_cmd": f"./check {pid} thorough",
            "evidence_file": f"evidence/{pid}.json",
            "replay_cmd_template": f"./check {pid} --replay {{path}}",
            "engine": "lean4-proof+correspondence",
            "level_claimed": {"category": "proof", "text": c["text"], "design_ref": c.get("design_ref", f"DESIGN.md §8 {pid}")},
            "level_note": c["note"],
            "technique": c.get("technique", "Lean 4 theorems about a hand-written executable model (all sizes/parameters), model tied to /repo by a differential correspondence check on every run"),
        })
    else:
        na.append({"property_id": pid, "reason": (c or {}).get("reason", "not yet covered by the Lean model in this revision (work in progress; the technique applies)")})
m = {
    "version": 1,
    "setup_cmd": "bash setup.sh",
    "hooks": {"guard": "QUCUMBER_VERIF", "enable": "no source hooks are needed: every observation point is a public return value, a user callback/optimizer, or a torch function wrapped inside the harness process", "baseline_off_cmd": BASELINE, "source_commits": [], "add_only": True},
    "engines": [{"name": "lean4-proof+correspondence", "path": "lean/ (theorems QV/Props, model QV/Model, driver) + harness/ (correspondence, oracles)", "serves_properties": [c["property_id"] for c in checks], "kind_free_text": "machine-checked proof in Lean 4 about an executable model; differential correspondence of the same definitions (Float instance) against the Python implementation"}],
    "checks": checks,
    "not_applicable": na,
    "notes": "See DESIGN.md. exit 2 = internal error/timeouts (never 1). Known findings: known_findings.json.",
}
json.dump(m, open(os.path.join(HERE, "MANIFEST.json"), "w"), indent=1)
print("claimed:", [c["property_id"] for c in checks])
