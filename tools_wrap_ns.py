#!/usr/bin/env python3
"""wrap the body of lean/QV/Props/Cxx.lean in a sub-namespace Cxx (avoids clashes of helper defs between property files)"""
import sys
for pid in sys.argv[1:]:
    p=f'lean/QV/Props/{pid}.lean'
    s=open(p).read()
    if f"namespace {pid}\n" in s:
        continue
    assert s.count("namespace QV.Props\n")==1, pid
    s=s.replace("namespace QV.Props\n",f"namespace QV.Props\nnamespace {pid}\n",1)
    idx=s.rindex("end QV.Props")
    s=s[:idx]+f"end {pid}\nend QV.Props"+s[idx+len("end QV.Props"):]
    open(p,'w').write(s)
    print("wrapped",pid)
